"""C09 - known totals are honoured; unknown totals are the best linear estimate (structural clauses).

The estimator exists in four copies (FactoredInference._setup, LocalInference._setup, public_inference.estimate_total,
mixture_inference.estimate_total).  For each copy:
  pass-through       a supplied total reaches the model / optimiser unmodified: `total` is assigned only under `total is None`
  ones-target        the target of the solve is the all-ones vector with one entry per column of Q
  same-system        the row-space test re-applies the *same* operator to the solved v and compares with the *same* target
  guarded-append     variance and estimate of a measurement are recorded only when the test passed
  variance-form      recorded variance == noise^2 * <v, v>         (reduction normal form)
  estimate-form      recorded estimate == <v, y>
  combination-form   total == sum(e/var) / sum(1/var)              (inverse-variance weighting)
  floor-and-default  the estimate is floored at 1 and an empty record gives 1
  sibling-agreement  the four copies are the same program up to renaming (a one-sided edit - e.g. solver tolerances - shows
                     up as a divergence of that copy from the majority)
Not decided: whether lsmr converges for a given matrix (numeric).
"""
import ast
import copy

from ..srcmodel import AnalysisError, U, calls_in, walk_shallow, target_names, names_in, kwarg
from ..symexpr import SymEval, Atoms, Alg, Rat, sym, const

COPIES = [
    ('src/mbi/inference.py', 'FactoredInference._setup', 'block'),
    ('src/mbi/local_inference.py', 'LocalInference._setup', 'block'),
    ('src/mbi/public_inference.py', 'estimate_total', 'function'),
    ('src/mbi/mixture_inference.py', 'estimate_total', 'function'),
]
CALLERS = [
    ('src/mbi/public_inference.py', 'PublicInference.estimate'),
    ('src/mbi/mixture_inference.py', 'MixtureInference.estimate'),
]


def is_none_test(t, name):
    return isinstance(t, ast.Compare) and len(t.ops) == 1 and U(t.left) == name and \
        isinstance(t.ops[0], (ast.Is, ast.Eq)) and isinstance(t.comparators[0], ast.Constant) and t.comparators[0].value is None


def red_hook(atoms):
    """reduction dialect: dot products and sums of elementwise rational expressions over vector symbols"""
    def hook(call, ev):
        f = U(call.func)
        last = f.split('.')[-1]
        if last == 'dot' and len(call.args) == 2 and f.split('.')[0] in ('np', 'numpy'):
            a, b = sorted([repr(ev.ev(call.args[0])), repr(ev.ev(call.args[1]))])
            return sym('dot<%s,%s>' % (a, b))
        if last == 'dot' and len(call.args) == 1 and isinstance(call.func, ast.Attribute):
            a, b = sorted([repr(ev.ev(call.func.value)), repr(ev.ev(call.args[0]))])
            return sym('dot<%s,%s>' % (a, b))
        if last == 'sum' and f.split('.')[0] in ('np', 'numpy') and len(call.args) == 1 and not call.keywords:
            return Alg(atoms.get('sum', ev.ev(call.args[0]).rat()))
        if last == 'sum' and isinstance(call.func, ast.Attribute) and not call.args and not call.keywords:
            return Alg(atoms.get('sum', ev.ev(call.func.value).rat()))
        if last == 'average' and call.args:
            w = [k.value for k in call.keywords if k.arg == 'weights']
            x = ev.ev(call.args[0]).rat()
            if w:
                wv = ev.ev(w[0]).rat()
                return Alg(atoms.get('sum', x * wv)) / Alg(atoms.get('sum', wv))
        return None
    return hook


class MatEval(SymEval):
    """`a @ b` between vectors is a dot product"""
    def ev(self, e):
        if isinstance(e, ast.BinOp) and isinstance(e.op, ast.MatMult):
            a, b = sorted([repr(self.ev(e.left)), repr(self.ev(e.right))])
            return sym('dot<%s,%s>' % (a, b))
        return super().ev(e)


def run(ctx):
    repo = ctx.repo
    ctx.explanation = ('Feature rules on each of the four copies of the total estimator (reduction normal forms for the '
                       'variance / estimate / combination formulas; dominance of the row-space test over the appends; '
                       'pass-through of a supplied total), plus a sibling-agreement rule on the alpha-renamed copies.')
    ctx.rule_text = 'one obligation per feature per copy (4 copies), plus pass-through per caller and one agreement obligation per copy'
    ctx.trusted = ['scipy lsmr returns the minimum-norm least-squares solution when it converges',
                   'np.allclose as the row-space membership test']
    blocks = []
    for rel, q, kind in COPIES:
        fi = repo.nfunc(rel, q)
        ctx.analysed(fi)
        if kind == 'block':
            total = fi.params[2]
            ifs = [s for s in fi.body if isinstance(s, ast.If) and is_none_test(s.test, total)]
            if len(ifs) != 1:
                raise AnalysisError('%s: `if %s is None:` block not found' % (fi.qualname, total))
            block = ifs[0].body
            check_pass_through(ctx, fi, total, ifs[0])
            check_model_total(ctx, fi, total)
        else:
            total = None
            block = fi.body
        blocks.append((fi, block, total))
    for rel, q in CALLERS:
        fi = repo.nfunc(rel, q)
        ctx.analysed(fi)
        total = fi.params[2]
        ifs = [s for s in fi.body if isinstance(s, ast.If) and is_none_test(s.test, total)]
        if len(ifs) != 1:
            raise AnalysisError('%s: `if %s is None:` not found' % (fi.qualname, total))
        body = ifs[0].body
        ok = len(body) == 1 and isinstance(body[0], ast.Assign) and U(body[0].targets[0]) == total and \
            isinstance(body[0].value, ast.Call) and U(body[0].value.func) == 'estimate_total' and \
            U(body[0].value.args[0]) == fi.params[1] and not ifs[0].orelse
        ctx.ob('pass-through', fi, ifs[0], ok, 'an omitted total must become estimate_total(%s), nothing else' % fi.params[1])
        check_pass_through(ctx, fi, total, ifs[0])
    deviants = check_siblings(ctx, blocks)
    for fi, block, total in blocks:
        try:
            check_features(ctx, fi, block, total)
        except AnalysisError as e:
            if fi.qualname + '@' + fi.rel in deviants:
                # the copy already stands reported as diverging from its siblings; its own shape is unrecognised
                ctx.note('feature rules not applicable to the diverging copy %s (%s)' % (fi.qualname, e))
                continue
            raise
    ctx.floor('feature obligations', sum(1 for o in ctx.obligations if o.rule.endswith('-form') or o.rule in
                                         ('ones-target', 'same-system', 'guarded-append', 'floor-and-default')), 24)


def check_pass_through(ctx, fi, total, ifstmt):
    inside = {id(n) for n in ast.walk(ifstmt)}
    bad = []
    for s in walk_shallow(fi.node):
        if isinstance(s, (ast.Assign, ast.AugAssign, ast.AnnAssign)) and id(s) not in inside:
            tg = s.targets if isinstance(s, ast.Assign) else [s.target]
            if any(total in target_names(t) for t in tg):
                bad.append(s)
        if isinstance(s, ast.For) and total in target_names(s.target):
            bad.append(s)
    ctx.ob('pass-through', fi, bad[0] if bad else ifstmt, not bad,
           'a supplied total must be used exactly: `%s` may only be assigned under `%s is None`%s'
           % (total, total, ('; also assigned by `%s`' % U(bad[0])) if bad else ''),
           construct=U(bad[0]) if bad else 'assignments to ' + total)


def check_model_total(ctx, fi, total):
    """every model / oracle constructed by setup receives `total` as its total"""
    n = 0
    for c in calls_in(fi.node):
        if isinstance(c.func, ast.Name) and c.func.id in ('GraphicalModel', 'RegionGraph', 'FactorGraph'):
            n += 1
            arg = kwarg(c, 'total', 2)
            ctx.ob('pass-through', fi, c, arg is not None and U(arg) == total,
                   'the model must be constructed with the (supplied or estimated) total `%s`; receives `%s`'
                   % (total, U(arg) if arg is not None else 'the default 1.0'))
    if n == 0:
        raise AnalysisError('%s: no model construction found' % fi.qualname)
    # the object published as self.model must be one of those constructions (or get `.total = total` right away)
    pub = [s_ for s_ in walk_shallow(fi.node) if isinstance(s_, ast.Assign) and any(U(t) == 'self.model' for t in s_.targets)]
    for p_ in pub:
        name = U(p_.value)
        for s_ in walk_shallow(fi.node):
            if isinstance(s_, ast.Assign) and len(s_.targets) == 1 and U(s_.targets[0]) == name:
                v = s_.value
                ctor = isinstance(v, ast.Call) and isinstance(v.func, ast.Name) and v.func.id in ('GraphicalModel', 'RegionGraph', 'FactorGraph')
                sets_total = False
                par = getattr(s_, '_parent', None)
                body = getattr(par, 'body', []) if par is not None else []
                for blk in (getattr(par, 'body', []), getattr(par, 'orelse', [])):
                    if s_ in blk:
                        for nxt in blk[blk.index(s_) + 1:]:
                            if isinstance(nxt, ast.Assign) and U(nxt.targets[0]) == name + '.total' and U(nxt.value) == total:
                                sets_total = True
                ctx.ob('pass-through', fi, s_, ctor or sets_total,
                       'the model published as self.model must be built with `%s` (or be given `.total = %s`); `%s` is neither: a reused '
                       'object keeps the total of an earlier call' % (total, total, U(s_)[:70]))


def check_features(ctx, fi, block, total):
    loops = [s for s in block if isinstance(s, ast.For)]
    if len(loops) != 1 or not isinstance(loops[0].target, ast.Tuple) or len(loops[0].target.elts) != 4:
        raise AnalysisError('%s: loop over (Q, y, noise, proj) measurements not found' % fi.qualname)
    loop = loops[0]
    Q, y, noise, proj = [U(e) for e in loop.target.elts]
    defs = {}
    for s in loop.body:
        if isinstance(s, ast.Assign) and len(s.targets) == 1 and isinstance(s.targets[0], ast.Name):
            defs[s.targets[0].id] = s
    # ---- the solve ------------------------------------------------------------------------------
    solve = None
    for name, s in defs.items():
        for c in calls_in(s.value):
            if U(c.func).split('.')[-1] in ('lsmr', 'lsqr', 'lstsq'):
                solve = (name, s, c)
    if solve is None:
        raise AnalysisError('%s: least-squares solve not found' % fi.qualname)
    v, solve_stmt, solve_call = solve
    op, rhs = solve_call.args[0], solve_call.args[1]
    rhs_def = defs.get(U(rhs))
    ok = rhs_def is not None and U(rhs_def.value).replace(' ', '') in ('np.ones(%s.shape[1])' % Q, 'numpy.ones(%s.shape[1])' % Q)
    ctx.ob('ones-target', fi, rhs_def or solve_stmt, ok and U(op) == Q + '.T',
           'solve %s.T v = 1 with one entry of the ones vector per column of %s (per cell); got operator `%s`, target `%s`'
           % (Q, Q, U(op), U(rhs_def.value) if rhs_def is not None else U(rhs)))
    tests = [s for s in loop.body if isinstance(s, ast.If)]
    if len(tests) != 1:
        raise AnalysisError('%s: row-space test not found' % fi.qualname)
    test = tests[0]
    t = test.test
    ok = False
    if isinstance(t, ast.Call) and U(t.func).split('.')[-1] == 'allclose' and len(t.args) >= 2:
        a, b = t.args[0], t.args[1]
        applied = U(a).replace(' ', '') in ('%s.dot(%s)' % (U(op), v), '%s@%s' % (U(op), v))
        ok = applied and U(b) == U(rhs)
    ctx.ob('same-system', fi, test, ok,
           'the row-space test must apply the solved operator `%s` to the solution `%s` and compare with the target `%s`; test `%s`'
           % (U(op), v, U(rhs), U(t)))
    # ---- appends under the test ---------------------------------------------------------------------------
    appends = {}
    for s in ast.walk(loop):
        if isinstance(s, ast.Assign) and isinstance(s.value, ast.Call) and U(s.value.func).split('.')[-1] == 'append' \
                and len(s.value.args) == 2 and U(s.targets[0]) == U(s.value.args[0]):
            appends[U(s.targets[0])] = s
        if isinstance(s, ast.Expr) and isinstance(s.value, ast.Call) and isinstance(s.value.func, ast.Attribute) \
                and s.value.func.attr == 'append' and len(s.value.args) == 1:
            appends[U(s.value.func.value)] = s
    if len(appends) != 2:
        raise AnalysisError('%s: expected two accumulators (variances, estimates), found %s' % (fi.qualname, sorted(appends)))
    in_test = {id(n) for b in test.body for n in ast.walk(b)}
    for name, s in sorted(appends.items()):
        ctx.ob('guarded-append', fi, s, id(s) in in_test and not test.orelse,
               'a measurement may contribute to `%s` only when its query can express the count (inside the row-space test)' % name)
    # ---- forms ----------------------------------------------------------------------------------------------------
    atoms = Atoms()
    ev = MatEval({}, atoms)
    ev.hook = red_hook(atoms)
    want_var = ev.ev(ast.parse('%s**2 * np.dot(%s, %s)' % (noise, v, v), mode='eval').body)
    want_est = ev.ev(ast.parse('np.dot(%s, %s)' % (v, y), mode='eval').body)
    var_acc = est_acc = None
    for name, s in appends.items():
        val = s.value.args[-1]
        try:
            got = ev.ev(val)
        except AnalysisError as e:
            raise AnalysisError('%s: appended value `%s` outside the reduction dialect (%s)' % (fi.qualname, U(val), e))
        if noise in names_in(val) or var_acc is None and got.eq(want_var):
            if var_acc is None and (noise in names_in(val)):
                var_acc = name
                ctx.ob('variance-form', fi, s, got.eq(want_var),
                       'variance of the linear estimate v.y is noise^2 * <v, v>: expected %r, source %r' % (want_var, got))
                continue
        est_acc = name
        ctx.ob('estimate-form', fi, s, got.eq(want_est), 'the linear estimate is <v, y>: expected %r, source %r' % (want_est, got))
    if var_acc is None or est_acc is None:
        raise AnalysisError('%s: could not tell the variance accumulator from the estimate accumulator' % fi.qualname)
    # ---- combination, floor, default (statements after the loop) ---------------------------------------------------
    after = block[block.index(loop) + 1:]
    fin = [s for s in after if isinstance(s, ast.If)]
    if len(fin) != 1:
        raise AnalysisError('%s: final `if <no estimates>: ... else: ...` not found' % fi.qualname)
    fin = fin[0]
    empty_ok = U(fin.test).replace(' ', '') in ('%s.size==0' % est_acc, 'len(%s)==0' % est_acc, '%s.size==0' % var_acc)

    def result_of(stmts):
        for s in stmts:
            if isinstance(s, ast.Return):
                return s, s.value
            if total is not None and isinstance(s, ast.Assign) and U(s.targets[0]) == total:
                return s, s.value
        return None, None
    s_empty, v_empty = result_of(fin.body)
    s_full, v_full = result_of(fin.orelse)
    ctx.ob('floor-and-default', fi, fin, empty_ok and v_empty is not None and U(v_empty) in ('1', '1.0'),
           'with no usable measurement the total defaults to 1 (test `%s`, value `%s`)' % (U(fin.test), U(v_empty) if v_empty is not None else None))
    env = {}
    ev2 = MatEval(env, atoms)
    ev2.hook = red_hook(atoms)
    comb = None
    for s in fin.orelse:
        if isinstance(s, ast.Assign) and len(s.targets) == 1 and isinstance(s.targets[0], ast.Name) and s is not s_full:
            try:
                env[s.targets[0].id] = ev2.ev(s.value)
                ev2.env = env
            except AnalysisError as e:
                raise AnalysisError('%s: `%s` outside the reduction dialect (%s)' % (fi.qualname, U(s), e))
    ok_floor = False
    if v_full is not None and isinstance(v_full, ast.Call) and U(v_full.func) == 'max' and len(v_full.args) == 2:
        a, b = v_full.args
        one = [x for x in (a, b) if U(x) in ('1', '1.0')]
        oth = [x for x in (a, b) if U(x) not in ('1', '1.0')]
        if one and oth:
            ok_floor = True
            comb = ev2.ev(oth[0])
    ctx.ob('floor-and-default', fi, s_full or fin, ok_floor, 'the estimated total is floored at 1: `%s`' % (U(v_full) if v_full is not None else None),
           construct='floor: ' + (U(s_full) if s_full is not None else '?'))
    if comb is not None:
        want = ev2.__class__({}, atoms)
        want.hook = red_hook(atoms)
        w = want.ev(ast.parse('np.sum(%s / %s) / np.sum(1 / %s)' % (est_acc, var_acc, var_acc), mode='eval').body)
        ctx.ob('combination-form', fi, s_full, comb.eq(w),
               'inverse-variance weighting: expected %r, source %r' % (w, comb), construct='combination: ' + U(s_full))


def canon_block(block, total):
    """alpha-renamed dump of the estimator block; `return X` and `<total> = X` are identified"""
    stmts = copy.deepcopy(block)
    mod = ast.Module(body=stmts, type_ignores=[])
    names = {}

    class R(ast.NodeTransformer):
        def visit_Return(self, node):
            self.generic_visit(node)
            return ast.Assign(targets=[ast.Name(id='__total__', ctx=ast.Store())], value=node.value, lineno=0, col_offset=0)

        def visit_Name(self, node):
            if node.id in ('np', 'numpy', 'lsmr', 'max', 'min', 'len'):
                return node
            if total is not None and node.id == total:
                return ast.Name(id='__total__', ctx=node.ctx)
            names.setdefault(node.id, 'v%d' % len(names))
            return ast.Name(id=names[node.id], ctx=node.ctx)
    mod = R().visit(mod)
    return ast.dump(mod, annotate_fields=False, include_attributes=False)


def check_siblings(ctx, blocks):
    dumps = [canon_block(b, t) for fi, b, t in blocks]
    counts = {}
    for d in dumps:
        counts[d] = counts.get(d, 0) + 1
    majority = max(counts, key=lambda d: counts[d])
    deviants = set()
    for (fi, b, t), d in zip(blocks, dumps):
        ok = d == majority and counts[majority] >= 2
        where = b[0]
        detail = 'copy agrees with %d other cop%s' % (counts[d] - 1, 'y' if counts[d] == 2 else 'ies')
        if not ok:
            # locate the first diverging statement
            ref = [bb for (f2, bb, t2), d2 in zip(blocks, dumps) if d2 == majority][0]
            reft = [t2 for (f2, bb, t2), d2 in zip(blocks, dumps) if d2 == majority][0]
            for s1, s2 in zip(all_stmts(b), all_stmts(ref)):
                if canon_block([s1], t) != canon_block([s2], reft) and not isinstance(s1, (ast.For, ast.If)):
                    where = s1
                    detail = 'diverges from the majority of the four copies at `%s` (majority: `%s`)' % (U(s1), U(s2))
                    break
        ctx.ob('sibling-agreement', fi, where, ok, 'the four copies of the total estimator must be one program: ' + detail,
               construct=('estimator copy in ' + fi.qualname) if ok else U(where)[:120])
        if not ok:
            deviants.add(fi.qualname + '@' + fi.rel)
    return deviants


def all_stmts(block):
    out = []
    for s in block:
        out.append(s)
        for f in ('body', 'orelse'):
            out.extend(all_stmts(getattr(s, f, []) or []))
    return out

"""C09 - known totals are honoured; unknown totals are the best linear estimate (structural clauses).

The estimator exists in four copies (FactoredInference._setup, LocalInference._setup, public_inference.estimate_total,
mixture_inference.estimate_total).  For each copy:
  pass-through       a supplied total reaches the model / optimiser unmodified: `total` is assigned only under `total is None`
  ones-target        the target of the solve is the all-ones vector with one entry per column of Q
  same-system        the row-space test re-applies the *same* operator to the solved v and compares with the *same* target
  guarded-append     variance and estimate of a measurement are recorded only when the test passed
  variance-form      recorded variance == noise^2 * <v, v>         (reduction normal form)
  estimate-form      recorded estimate == <v, y>
  combination-form   total == sum(e/var) / sum(1/var)              (inverse-variance weighting)
  floor-and-default  the estimate is floored at 1 and an empty record gives 1
  sibling-agreement  the four copies solve and test alike (solver, its tolerances, test tolerances): a one-sided edit shows up
                     as a divergence of that copy from the majority
All rules are stated on the *expanded* block (engines/blockeval.py): locals, hoisted temporaries, guard clauses, option-style
helpers and default-then-override spellings denote the same terms.
Not decided: whether lsmr converges for a given matrix (numeric).
"""
import ast
import re
import copy

from ..srcmodel import AnalysisError, U, calls_in, walk_shallow, target_names, names_in, kwarg
from ..symexpr import SymEval, Atoms, Alg, Rat, sym, const
from ..normalise import single_exit
from ..engines.blockeval import BlockEval, T, clone

COPIES = [
    ('src/mbi/inference.py', 'FactoredInference._setup', 'block'),
    ('src/mbi/local_inference.py', 'LocalInference._setup', 'block'),
    ('src/mbi/public_inference.py', 'estimate_total', 'function'),
    ('src/mbi/mixture_inference.py', 'estimate_total', 'function'),
]
CALLERS = [
    ('src/mbi/public_inference.py', 'PublicInference.estimate'),
    ('src/mbi/mixture_inference.py', 'MixtureInference.estimate'),
]


def is_none_test(t, name):
    return isinstance(t, ast.Compare) and len(t.ops) == 1 and U(t.left) == name and \
        isinstance(t.ops[0], (ast.Is, ast.Eq)) and isinstance(t.comparators[0], ast.Constant) and t.comparators[0].value is None


def red_hook(atoms):
    """reduction dialect: dot products and sums of elementwise rational expressions over vector symbols"""
    def hook(call, ev):
        f = U(call.func)
        last = f.split('.')[-1]
        if last == 'dot' and len(call.args) == 2 and f.split('.')[0] in ('np', 'numpy'):
            a, b = sorted([repr(ev.ev(call.args[0])), repr(ev.ev(call.args[1]))])
            return sym('dot<%s,%s>' % (a, b))
        if last == 'dot' and len(call.args) == 1 and isinstance(call.func, ast.Attribute):
            a, b = sorted([repr(ev.ev(call.func.value)), repr(ev.ev(call.args[0]))])
            return sym('dot<%s,%s>' % (a, b))
        if last == 'sum' and f.split('.')[0] in ('np', 'numpy') and len(call.args) == 1 and not call.keywords:
            return Alg(atoms.get('sum', ev.ev(call.args[0]).rat()))
        if last == 'sum' and isinstance(call.func, ast.Attribute) and not call.args and not call.keywords:
            return Alg(atoms.get('sum', ev.ev(call.func.value).rat()))
        if last == 'average' and call.args:
            w = [k.value for k in call.keywords if k.arg == 'weights']
            x = ev.ev(call.args[0]).rat()
            if w:
                wv = ev.ev(w[0]).rat()
                return Alg(atoms.get('sum', x * wv)) / Alg(atoms.get('sum', wv))
        return None
    return hook


class MatEval(SymEval):
    """`a @ b` between vectors is a dot product"""
    def ev(self, e):
        if isinstance(e, ast.BinOp) and isinstance(e.op, ast.MatMult):
            a, b = sorted([repr(self.ev(e.left)), repr(self.ev(e.right))])
            return sym('dot<%s,%s>' % (a, b))
        return super().ev(e)


def run(ctx):
    repo = ctx.repo
    ctx.explanation = ('Feature rules on each of the four copies of the total estimator (reduction normal forms for the '
                       'variance / estimate / combination formulas; dominance of the row-space test over the appends; '
                       'pass-through of a supplied total), plus a sibling-agreement rule on the alpha-renamed copies.')
    ctx.rule_text = 'one obligation per feature per copy (4 copies), plus pass-through per caller and one agreement obligation per copy'
    ctx.trusted = ['scipy lsmr returns the minimum-norm least-squares solution when it converges',
                   'np.allclose as the row-space membership test']
    blocks = []
    from ._generic import aligned_zips
    for rel, q, kind in COPIES:
        fi = repo.nfunc(rel, q)
        ctx.analysed(fi)
        aligned_zips(ctx, fi, 'same-system')
        if kind == 'block':
            total = fi.params[2]
            ifs = [s for s in fi.body if isinstance(s, ast.If) and is_none_test(s.test, total)]
            if len(ifs) != 1:
                raise AnalysisError('%s: `if %s is None:` block not found' % (fi.qualname, total))
            block = ifs[0].body
            check_pass_through(ctx, fi, total, ifs[0])
            check_model_total(ctx, fi, total)
        else:
            total = None
            block = fi.body
        blocks.append((fi, block, total))
    for rel, q in CALLERS:
        fi = repo.nfunc(rel, q)
        ctx.analysed(fi)
        total = fi.params[2]
        ifs = [s for s in fi.body if isinstance(s, ast.If) and is_none_test(s.test, total)]
        if len(ifs) != 1:
            raise AnalysisError('%s: `if %s is None:` not found' % (fi.qualname, total))
        body = ifs[0].body
        ok = len(body) == 1 and isinstance(body[0], ast.Assign) and U(body[0].targets[0]) == total and \
            isinstance(body[0].value, ast.Call) and U(body[0].value.func) == 'estimate_total' and \
            U(body[0].value.args[0]) == fi.params[1] and not ifs[0].orelse
        ctx.ob('pass-through', fi, ifs[0], ok, 'an omitted total must become estimate_total(%s), nothing else' % fi.params[1])
        check_pass_through(ctx, fi, total, ifs[0])
    feats = []
    for fi, block, total in blocks:
        f = check_features(ctx, fi, block, total)
        if f is not None:
            feats.append((fi, f))
    check_siblings(ctx, feats)
    ctx.floor('feature obligations', sum(1 for o in ctx.obligations if o.rule.endswith('-form') or o.rule in
                                         ('ones-target', 'same-system', 'guarded-append', 'floor-and-default')), 24)


def check_pass_through(ctx, fi, total, ifstmt):
    inside = {id(n) for n in ast.walk(ifstmt)}
    bad = []
    for s in walk_shallow(fi.node):
        if isinstance(s, (ast.Assign, ast.AugAssign, ast.AnnAssign)) and id(s) not in inside:
            tg = s.targets if isinstance(s, ast.Assign) else [s.target]
            if any(total in target_names(t) for t in tg):
                bad.append(s)
        if isinstance(s, ast.For) and total in target_names(s.target):
            bad.append(s)
    ctx.ob('pass-through', fi, bad[0] if bad else ifstmt, not bad,
           'a supplied total must be used exactly: `%s` may only be assigned under `%s is None`%s'
           % (total, total, ('; also assigned by `%s`' % U(bad[0])) if bad else ''),
           construct=U(bad[0]) if bad else 'assignments to ' + total)


def check_model_total(ctx, fi, total):
    """every model / oracle constructed by setup receives `total` as its total"""
    n = 0
    for c in calls_in(fi.node):
        if isinstance(c.func, ast.Name) and c.func.id in ('GraphicalModel', 'RegionGraph', 'FactorGraph'):
            n += 1
            arg = kwarg(c, 'total', 2)
            ctx.ob('pass-through', fi, c, arg is not None and U(arg) == total,
                   'the model must be constructed with the (supplied or estimated) total `%s`; receives `%s`'
                   % (total, U(arg) if arg is not None else 'the default 1.0'))
    from ..engines.solvers import dispatch_tables, table_constructions
    cls = fi.qualname.split('.')[0]
    for c, tname, table in table_constructions(fi, dispatch_tables(ctx.repo, fi.rel, cls)):
        n += 1
        arg = kwarg(c, 'total', 2)
        ctx.ob('pass-through', fi, c, arg is not None and U(arg) == total,
               'the model (constructed through the dispatch table `%s`) must receive the (supplied or estimated) total `%s`; receives `%s`'
               % (tname, total, U(arg) if arg is not None else 'the default 1.0'))
    if n == 0:
        raise AnalysisError('%s: no model construction found' % fi.qualname)
    # the object published as self.model must be one of those constructions (or get `.total = total` right away);
    # copies through locals (`model = ret; ret = oracle`) are followed
    table_ctor_names = {c.func.id for c, _, _ in table_constructions(fi, dispatch_tables(ctx.repo, fi.rel, cls))}
    assigns = {}
    for s_ in walk_shallow(fi.node):
        if isinstance(s_, ast.Assign) and len(s_.targets) == 1 and isinstance(s_.targets[0], ast.Name):
            assigns.setdefault(s_.targets[0].id, []).append(s_)

    def total_set_after(s_, names):
        par = getattr(s_, '_parent', None)
        for blk in (getattr(par, 'body', []), getattr(par, 'orelse', [])):
            if s_ in blk:
                for other in blk:
                    if isinstance(other, ast.Assign) and isinstance(other.targets[0], ast.Attribute) and other.targets[0].attr == 'total' \
                            and U(other.targets[0].value) in names and U(other.value) == total:
                        return True
        return False

    def built_with_total(name, seen):
        """every definition of `name` is a model construction, or an object that is given `.total = total` in the same block"""
        if name in seen or name not in assigns:
            return False, None
        seen = seen | {name}
        for s_ in assigns[name]:
            v = s_.value
            if isinstance(v, ast.Call) and isinstance(v.func, ast.Name) and (v.func.id in ('GraphicalModel', 'RegionGraph', 'FactorGraph')
                                                                             or v.func.id in table_ctor_names):
                continue
            if total_set_after(s_, {name, U(v)}):
                continue
            if isinstance(v, ast.Name):
                ok, bad = built_with_total(v.id, seen)
                if ok:
                    continue
                return False, bad or s_
            return False, s_
        return True, None
    def flow_total(stmts, state, published):
        """must-analysis along the structured paths: state[name] is True when the object bound to name certainly carries `total`"""
        for st_ in stmts:
            if isinstance(st_, ast.Assign) and len(st_.targets) == 1:
                tg, v = st_.targets[0], st_.value
                if isinstance(tg, ast.Name):
                    if isinstance(v, ast.Call) and isinstance(v.func, ast.Name) and (v.func.id in ('GraphicalModel', 'RegionGraph', 'FactorGraph')
                                                                                     or v.func.id in table_ctor_names):
                        state[tg.id] = True
                    elif isinstance(v, ast.Name):
                        state[tg.id] = state.get(v.id, False)
                    else:
                        state[tg.id] = False
                elif isinstance(tg, ast.Attribute) and tg.attr == 'total' and isinstance(tg.value, ast.Name) and U(v) == total:
                    state[tg.value.id] = True
                elif U(tg) == 'self.model' and isinstance(v, ast.Name):
                    published.append((st_, state.get(v.id, False)))
            elif isinstance(st_, ast.If):
                a, b = dict(state), dict(state)
                flow_total(st_.body, a, published)
                flow_total(st_.orelse, b, published)
                state.clear()
                for k in set(a) | set(b):
                    state[k] = a.get(k, False) and b.get(k, False)
            elif isinstance(st_, (ast.For, ast.While)):
                flow_total(st_.body, dict(state), published)
            elif isinstance(st_, (ast.With, ast.Try)):
                flow_total(st_.body, state, published)
    published = []
    flow_total(fi.body, {}, published)
    flow_ok = {id(s_): ok_ for s_, ok_ in published}
    pub = [s_ for s_ in walk_shallow(fi.node) if isinstance(s_, ast.Assign) and any(U(t) == 'self.model' for t in s_.targets)]
    for p_ in pub:
        if not isinstance(p_.value, ast.Name):
            continue
        ok, bad = built_with_total(p_.value.id, frozenset())
        if not ok and flow_ok.get(id(p_)):
            ok, bad = True, None          # on every path to the publication the object was constructed with, or given, the total
        where = bad or p_
        ctx.ob('pass-through', fi, where, ok,
               'the model published as self.model must be built with `%s` (or be given `.total = %s`); `%s` is neither: a reused '
               'object keeps the total of an earlier call' % (total, total, U(where)[:70]), construct='total of the published model' if ok else None)


EMPTY_INITS = ('np.array([])', 'numpy.array([])', '[]', 'list()', 'np.empty(0)', 'np.zeros(0)', 'np.array([],dtype=float)')
SOLVERS = ('lsmr', 'lsqr')


class Replace(ast.NodeTransformer):
    """top-down replacement: fn(node) -> replacement or None"""
    def __init__(self, fn):
        self.fn = fn

    def visit(self, node):
        r = self.fn(node)
        if r is not None:
            return r
        return self.generic_visit(node)


def name(n):
    return ast.Name(id=n, ctx=ast.Load())


def empty_test(t, symbols, lists):
    """'empty' / 'nonempty' / None for a test over accumulator symbols"""
    neg = False
    while isinstance(t, ast.UnaryOp) and isinstance(t.op, ast.Not):
        t, neg = t.operand, not neg
    res = None
    if isinstance(t, ast.Name) and t.id in lists:
        res = 'nonempty'
    elif isinstance(t, ast.Compare) and len(t.ops) == 1:
        l, op, r = t.left, t.ops[0], t.comparators[0]
        flip = {ast.Lt: ast.Gt, ast.Gt: ast.Lt, ast.LtE: ast.GtE, ast.GtE: ast.LtE, ast.Eq: ast.Eq, ast.NotEq: ast.NotEq}
        if isinstance(l, ast.Constant) and type(op) in flip:
            l, op, r = r, flip[type(op)](), l
        size = (isinstance(l, ast.Call) and U(l.func) == 'len' and len(l.args) == 1 and isinstance(l.args[0], ast.Name) and l.args[0].id in symbols) \
            or (isinstance(l, ast.Attribute) and l.attr == 'size' and isinstance(l.value, ast.Name) and l.value.id in symbols) \
            or (T(l).endswith('.shape[0]') and isinstance(l, ast.Subscript) and isinstance(l.value, ast.Attribute)
                and isinstance(l.value.value, ast.Name) and l.value.value.id in symbols)
        if size and isinstance(r, ast.Constant) and r.value in (0, 1):
            k = (type(op).__name__, r.value)
            res = {('Eq', 0): 'empty', ('NotEq', 0): 'nonempty', ('Gt', 0): 'nonempty', ('GtE', 1): 'nonempty',
                   ('Lt', 1): 'empty', ('LtE', 0): 'empty'}.get(k)
    if res is None:
        return None
    if neg:
        res = 'empty' if res == 'nonempty' else 'nonempty'
    return res


def is_one(e):
    return isinstance(e, ast.Constant) and e.value in (1, 1.0) and not isinstance(e.value, bool)


def floored(e):
    """if e is max(1, E) in any spelling: return E"""
    if isinstance(e, ast.Call) and U(e.func) in ('max', 'np.maximum', 'numpy.maximum', 'np.max', 'builtins.max') and len(e.args) == 2 and not e.keywords:
        a, b = e.args
        if is_one(a):
            return b
        if is_one(b):
            return a
    if isinstance(e, ast.Call) and U(e.func) in ('max', 'np.max') and len(e.args) == 1 and isinstance(e.args[0], (ast.List, ast.Tuple)) \
            and len(e.args[0].elts) == 2:
        a, b = e.args[0].elts
        if is_one(a):
            return b
        if is_one(b):
            return a
    if isinstance(e, ast.IfExp) and isinstance(e.test, ast.Compare) and len(e.test.ops) == 1:
        l, op, r = e.test.left, e.test.ops[0], e.test.comparators[0]
        if is_one(l):
            flip = {ast.Lt: ast.Gt, ast.Gt: ast.Lt, ast.LtE: ast.GtE, ast.GtE: ast.LtE}
            if type(op) not in flip:
                return None
            l, op, r = r, flip[type(op)](), l
        if not is_one(r):
            return None
        if isinstance(op, (ast.Gt, ast.GtE)) and T(e.body) == T(l) and is_one(e.orelse):
            return l
        if isinstance(op, (ast.Lt, ast.LtE)) and T(e.orelse) == T(l) and is_one(e.body):
            return l
    return None


def identity_shortcut(ctx, fi, stmts):
    """if <Q is an identity>: v = ones else: v = lsmr(Q.T, ones)[0]   ->   v = lsmr(Q.T, ones)[0]
    For an identity the solve returns the all-ones vector anyway, so the shortcut changes nothing - PROVIDED the test really implies Q = I:
    a DIA matrix, square, one diagonal at offset 0, all stored values equal to 1.  A test that leaves the values open (e.g. only counts the
    stored entries) also passes 3*I, for which `ones` is not a solution: that measurement then fails the row-space test and is dropped."""
    changed = True
    while changed:
        changed = False
        for blk in [stmts] + [getattr(n, f) for n in ast.walk(ast.Module(body=stmts, type_ignores=[])) for f in ('body', 'orelse')
                              if isinstance(getattr(n, f, None), list) and getattr(n, f) and isinstance(getattr(n, f)[0], ast.stmt)]:
            for i, st in enumerate(blk):
                if not (isinstance(st, ast.If) and len(st.body) == 1 and len(st.orelse) == 1 and isinstance(st.body[0], ast.Assign)
                        and isinstance(st.orelse[0], ast.Assign) and U(st.body[0].targets[0]) == U(st.orelse[0].targets[0])):
                    continue
                a, b = st.body[0].value, st.orelse[0].value
                solve = b
                if not (isinstance(solve, ast.Subscript) and isinstance(solve.value, ast.Call) and U(solve.value.func).split('.')[-1] in SOLVERS):
                    continue
                rhs = solve.value.args[1] if len(solve.value.args) > 1 else None
                Qt = solve.value.args[0]
                if rhs is None or U(a) != U(rhs) or not (isinstance(Qt, ast.Attribute) and Qt.attr == 'T'):
                    continue
                Q = U(Qt.value)
                t = st.test
                if isinstance(t, ast.Name):
                    ds = [x for x in blk[:i] if isinstance(x, ast.Assign) and len(x.targets) == 1 and U(x.targets[0]) == t.id]
                    if ds:
                        t = ds[-1].value
                conj = t.values if isinstance(t, ast.BoolOp) and isinstance(t.op, ast.And) else [t]
                texts = {U(c).replace(' ', '') for c in conj}
                facts = {
                    'dia': any(x in ('sparse.isspmatrix_dia(%s)' % Q, 'isspmatrix_dia(%s)' % Q, "%s.format=='dia'" % Q) for x in texts),
                    'square': any(x in ('%s.shape[0]==%s.shape[1]' % (Q, Q), '%s.shape[1]==%s.shape[0]' % (Q, Q)) for x in texts),
                    'main diagonal': any(x in ('%s.offsets.tolist()==[0]' % Q, 'list(%s.offsets)==[0]' % Q) for x in texts),
                    'unit values': any(x in ('bool((%s.data==1).all())' % Q, '(%s.data==1).all()' % Q, 'np.all(%s.data==1)' % Q) for x in texts),
                }
                if not (facts['dia'] or facts['main diagonal']):
                    continue          # not an identity shortcut at all
                ok = all(facts.values())
                ctx.ob('same-system', fi, st, ok,
                       'the solve is skipped (v = %s) when `%s`; that is the solution only if the test implies %s is the identity (DIA format, square, '
                       'one diagonal at offset 0, all stored values 1); established: %s' % (U(a), U(t)[:90], Q, ', '.join(k for k, v in facts.items() if v) or 'nothing'),
                       construct='identity shortcut of the solve')
                blk[i:i + 1] = [st.orelse[0]]
                changed = True
                break
            if changed:
                break
    return stmts


def check_features(ctx, fi, block, total):
    where = fi.qualname
    stmts = identity_shortcut(ctx, fi, clone(block))
    if total is None:
        total = '__total__'
        stmts, _ = single_exit(stmts, total)

    def loop_ok(s):
        return isinstance(s.target, ast.Tuple) and len(s.target.elts) == 4 and all(isinstance(e, ast.Name) for e in s.target.elts)
    be = BlockEval(where, loop_ok)
    be.run(stmts)
    loops = be.loops_done
    if len(loops) != 1:
        raise AnalysisError('%s: loop over (Q, y, noise, proj) measurements not found' % where)
    loop, entry = loops[0][0], loops[0][1]
    Q, y, noise, proj = [e.id for e in loop.target.elts]
    # an accumulator kept ON THE OBJECT: unless this activation empties it first, the entries of earlier calls join the combination
    for c_ in [n for n in ast.walk(loop) if isinstance(n, ast.Call) and isinstance(n.func, ast.Attribute) and n.func.attr in ('append', 'extend')
               and isinstance(n.func.value, ast.Attribute) and U(n.func.value.value) == 'self']:
        attr_ = U(c_.func.value)
        emptied = False
        for st_ in stmts:
            if st_ is loop or any(n is loop for n in ast.walk(st_)):
                break
            if isinstance(st_, ast.Assign) and any(U(t_) == attr_ for t_ in st_.targets) and T(st_.value) in EMPTY_INITS:
                emptied = True
        if not emptied and any(attr_ in U(s_) for s_ in stmts if s_ is not loop and not any(n is loop for n in ast.walk(s_))):
            ctx.ob('guarded-append', fi, c_, False,
                   'the measurement loop grows `%s`, a list kept on the object that this activation never empties, and the total is combined from it: from the '
                   'second call on, the estimates of every earlier call (other measurements, other noise) are averaged in' % attr_,
                   construct='accumulator kept on the object in ' + where)
    if not be.events:
        raise AnalysisError('%s: no accumulator is grown inside the measurement loop' % where)

    # ---- the solve ------------------------------------------------------------------------------
    solves = {}
    for ev_ in be.events:
        for e in [ev_.value] + [c for c, _ in ev_.pc]:
            for n in ast.walk(e):
                if isinstance(n, ast.Subscript) and isinstance(n.value, ast.Call) and U(n.value.func).split('.')[-1] in SOLVERS \
                        and isinstance(n.slice, ast.Constant) and n.slice.value == 0:
                    solves[T(n)] = n
    if not solves:
        raise AnalysisError('%s: least-squares solve not found' % where)
    if len(solves) > 1:
        ctx.ob('same-system', fi, loop, False, 'the row-space test and the recorded values must use one and the same solve; found %d different ones: %s'
               % (len(solves), sorted(solves)), construct='solves in ' + where)
        return None
    solve_text, solve = list(solves.items())[0]
    call = solve.value
    if len(call.args) < 2:
        raise AnalysisError('%s: solver call without operator and target' % where)
    op, rhs = call.args[0], call.args[1]
    ones = T(rhs) in ('np.ones(%s.shape[1])' % Q, 'numpy.ones(%s.shape[1])' % Q, 'np.ones(%s.T.shape[0])' % Q)
    dtype_note = ''
    if not ones and isinstance(rhs, ast.Call) and T(rhs.func) in ('np.ones', 'numpy.ones') and len(rhs.args) in (1, 2) \
            and T(rhs.args[0]) in ('%s.shape[1]' % Q, '%s.T.shape[0]' % Q, '(%s.shape[1],)' % Q, '%s.transpose().shape[0]' % Q):
        # an explicit element type: the solver works in the precision of its right-hand side, and the estimate v.y inherits it.  Double
        # precision is what the default gives; anything taken from the query matrix (float32, int) changes the solution.
        dt = rhs.args[1] if len(rhs.args) == 2 else next((k.value for k in rhs.keywords if k.arg == 'dtype'), None)
        extra = [k.arg for k in rhs.keywords if k.arg != 'dtype']
        if dt is not None and not extra:
            if T(dt) in ('float', 'np.float64', 'numpy.float64', "'float64'", "'float'", "'d'", 'np.double', 'np.float_'):
                ones = True
            else:
                dtype_note = ('; the ones vector is created with dtype `%s`: the solver takes its working precision from the right-hand side, so a '
                              'single-precision or integer query matrix gives another solution (and fails the row-space test)' % T(dt))
    ctx.ob('ones-target', fi, loop, ones and T(op) in (Q + '.T', Q + '.transpose()'),
           'solve %s.T v = 1 with one entry of the ones vector per column of %s (per cell); got operator `%s`, target `%s`%s'
           % (Q, Q, U(op), U(rhs), dtype_note), construct='solve in ' + where)

    LSMR_FIELDS = ('x', 'istop', 'itn', 'normr', 'normar', 'norma', 'conda', 'normx')
    call_text = T(solve.value)
    is_lsmr = U(solve.value.func).split('.')[-1] == 'lsmr'

    def with_v(e):
        def fn(n):
            if isinstance(n, ast.Subscript) and T(n) == solve_text:
                return name('__v__')
            # lsmr also returns ||x|| as the last of its eight results: normx ** 2 is <v, v>
            if is_lsmr and isinstance(n, ast.BinOp) and isinstance(n.op, ast.Pow) and isinstance(n.right, ast.Constant) and n.right.value == 2 \
                    and isinstance(n.left, ast.Subscript) and T(n.left.value) == call_text and isinstance(n.left.slice, ast.Constant) \
                    and n.left.slice.value in (7, -1):
                return ast.parse('np.dot(__v__, __v__)', mode='eval').body
            return None
        return Replace(fn).visit(clone(e))

    def other_fields(e):
        out = []
        for n in ast.walk(e):
            if is_lsmr and isinstance(n, ast.Subscript) and T(n.value) == call_text and isinstance(n.slice, ast.Constant) \
                    and isinstance(n.slice.value, int) and n.slice.value not in (0, 7, -1) and -8 <= n.slice.value < 8:
                out.append(LSMR_FIELDS[n.slice.value])
        return out

    # ---- accumulators: start empty, grow by append only, under exactly the row-space test -------------------------
    accs = {}
    for ev_ in be.events:
        accs.setdefault(ev_.name, []).append(ev_)
    want_guard = None
    for acc, evs in sorted(accs.items()):
        init = entry.get(acc)
        ok = init is not None and T(init) in EMPTY_INITS
        ctx.ob('guarded-append', fi, evs[0].stmt, ok,
               'accumulator `%s` must start empty (one entry per *usable* measurement); it starts as `%s`' % (acc, U(init) if init is not None else 'undefined'),
               construct='initial value of ' + acc)
        for ev_ in evs:
            if ev_.kind != 'append':
                ctx.ob('guarded-append', fi, ev_.stmt, False,
                       '`%s` is filled by indexed store: slots of measurements that failed the row-space test keep their initial value' % acc)
                if want_guard is None and len(ev_.pc) == 1 and isinstance(ev_.pc[0][0], ast.Call) and U(ev_.pc[0][0].func).endswith('allclose'):
                    want_guard = with_v(ev_.pc[0][0])
                continue
            conds = []
            for c, pol in ev_.pc:
                if pol and isinstance(c, ast.BoolOp) and isinstance(c.op, ast.And):
                    conds.extend((with_v(x), True) for x in c.values)          # every conjunct of a test that held
                else:
                    conds.append((with_v(c), pol))
            # the solver's stop code as an extra condition: `istop != 0` only excludes the case that the solver returned v = 0 (for which the
            # row-space test fails anyway, 0 != 1); any other stop code also occurs for perfectly solvable systems (with atol = btol = 0 the code for
            # "least-squares solution" is returned whenever the estimated residual of the normal equations hits exactly 0)
            kept_ = []
            for c_, pol_ in conds:
                tc_ = T(c_)
                m_ = re.fullmatch(re.escape(call_text) + r'\[1\](!=|==)(\d+)', tc_)
                if m_ and is_lsmr:
                    vac = (m_.group(1) == '!=' and m_.group(2) == '0' and pol_) or (m_.group(1) == '==' and m_.group(2) == '0' and not pol_)
                    ctx.ob('guarded-append', fi, ev_.stmt, vac, 'the solver\'s stop code may only exclude "returned v = 0" (code 0); the source requires `%s`%s' % (
                        U(c_)[:60], '' if vac else ' - a code that solvable systems produce too: their measurements are dropped although their queries can express the count'),
                        construct='stop code test in ' + where)
                    continue
                kept_.append((c_, pol_))
            conds = kept_
            good = False
            if len(conds) == 1 and conds[0][1] and isinstance(conds[0][0], ast.Call) and U(conds[0][0].func).split('.')[-1] == 'allclose':
                good = True
                if want_guard is None:
                    want_guard = conds[0][0]
                    t = want_guard
                    a, b = (t.args + [None, None])[:2]
                    applied = a is not None and T(a) in ('%s.dot(__v__)' % T(op), '%s@__v__' % T(op), '__v__@%s' % Q, '__v__.dot(%s)' % Q,
                                                         'np.dot(%s,__v__)' % T(op))
                    # the all-ones target may be written as the scalar 1 (numpy broadcasts it against the product)
                    scalar_one = b is not None and T(b) in ('1', '1.0') and ones
                    ctx.ob('same-system', fi, ev_.stmt, applied and b is not None and (T(b) == T(rhs) or scalar_one),
                           'the row-space test must apply the solved operator `%s` to the solution and compare with the target `%s`; test `%s`'
                           % (U(op), U(rhs), U(t)), construct='row-space test in ' + where)
                elif T(conds[0][0]) != T(want_guard):
                    good = False
            ctx.ob('guarded-append', fi, ev_.stmt, good,
                   'a measurement may contribute to `%s` exactly when its query can express the count (row-space test); it contributes when `%s`'
                   % (acc, ev_.guard_text()[:200]))
    if want_guard is None:
        ctx.ob('same-system', fi, loop, False, 'no append is guarded by a row-space test np.allclose(%s.T.dot(v), ones)' % Q,
               construct='row-space test in ' + where)

    # ---- forms ----------------------------------------------------------------------------------------------------
    atoms = Atoms()
    ev = MatEval({}, atoms)
    ev.hook = red_hook(atoms)
    want_var = ev.ev(ast.parse('%s**2 * np.dot(__v__, __v__)' % noise, mode='eval').body)
    want_est = ev.ev(ast.parse('np.dot(__v__, %s)' % y, mode='eval').body)
    roles = {}           # (acc, idx) -> '__var__' | '__est__'
    for acc, evs in sorted(accs.items()):
        evs = [e for e in evs if e.kind == 'append']
        if len(evs) != 1:
            if len(evs) > 1:
                raise AnalysisError('%s: accumulator `%s` grown at %d sites' % (where, acc, len(evs)))
            continue
        val = with_v(evs[0].value)
        comps = list(enumerate(val.elts)) if isinstance(val, ast.Tuple) else [(None, val)]
        for idx, c in comps:
            if idx is not None and not ({'__v__', y, noise} & set(names_in(c))) and isinstance(c, (ast.Name, ast.Constant, ast.Tuple)):
                roles[(acc, idx)] = '__other__'          # a label kept next to the numbers (the clique, a position): takes no part in the estimate
                continue
            try:
                got = ev.ev(c)
            except AnalysisError as e:
                # a value handed through a helper of this module (`ans = helper(Q, y, noise)` ... `ans[1]`): what it holds is the helper's business
                helper_results = {a.targets[0].id for a in ast.walk(fi.node) if isinstance(a, ast.Assign) and len(a.targets) == 1 and isinstance(a.targets[0], ast.Name)
                                  and isinstance(a.value, ast.Call) and isinstance(a.value.func, ast.Name) and a.value.func.id in fi.module.funcs}
                if any(isinstance(n, ast.Name) and n.id in helper_results for n in ast.walk(c)) or \
                        any(isinstance(n, ast.Call) and isinstance(n.func, ast.Name) and n.func.id in fi.module.funcs for n in ast.walk(c)):
                    raise AnalysisError('%s: the recorded value `%s` is the result of a helper of this module; the estimate / variance it returns is not followed'
                                        % (where, U(c)[:60]))
                got = MatEval({}, atoms).ev(name('__unrecognised__'))
                ctx.note('%s: appended value `%s` is outside the reduction dialect (%s)' % (where, U(c), e))
            want_prec = ev.ev(ast.parse('1 / (%s**2 * np.dot(__v__, __v__))' % noise, mode='eval').body)
            if got.eq(want_prec) and '__var__' not in roles.values() and '__prec__' not in roles.values():
                # the PRECISION 1 / variance is recorded: the combination then reads sum(p * e) / sum(p)
                roles[(acc, idx)] = '__prec__'
                ctx.ob('variance-form', fi, evs[0].stmt, True, 'the precision 1 / (noise^2 * <v, v>) of the linear estimate v.y is recorded: %r' % got,
                       construct='variance recorded in ' + where)
                continue
            is_var = noise in names_in(c) or got.eq(want_var)
            if is_var and '__var__' not in roles.values() and '__prec__' not in roles.values():
                roles[(acc, idx)] = '__var__'
                extra_ = other_fields(evs[0].value)
                if extra_:
                    ctx.note('%s: the recorded variance reads `%s` of the solver\'s result (lsmr returns x, istop, itn, normr, normar, norma, conda, normx): '
                             'not the norm of the solution' % (where, ', '.join(extra_)))
                ctx.ob('variance-form', fi, evs[0].stmt, got.eq(want_var),
                       'variance of the linear estimate v.y is noise^2 * <v, v>: expected %r, source %r' % (want_var, got),
                       construct='variance recorded in ' + where)
            else:
                roles[(acc, idx)] = '__est__' if '__est__' not in roles.values() else '__other__'
                ctx.ob('estimate-form', fi, evs[0].stmt, got.eq(want_est), 'the linear estimate is <v, y>: expected %r, source %r' % (want_est, got),
                       construct='estimate recorded in ' + where)
    has_var = '__var__' in roles.values() or '__prec__' in roles.values()
    if (not has_var or '__est__' not in roles.values()) and any(e.kind == 'store' for e in be.events):
        return None      # already reported: filled by indexed stores
    if not has_var or '__est__' not in roles.values():
        raise AnalysisError('%s: could not tell the variance accumulator from the estimate accumulator' % where)

    # ---- result: default, floor, combination --------------------------------------------------------------------
    R = be.env.get(total)
    if R is None:
        raise AnalysisError('%s: the estimated total is never assigned' % where)
    multi = {acc for (acc, idx) in roles if idx is not None}

    def view(n):
        if isinstance(n, ast.Name):
            if (n.id, None) in roles:
                if roles[(n.id, None)] == '__prec__':
                    return ast.parse('(1 / __var__)', mode='eval').body
                return name(roles[(n.id, None)])
            if n.id in multi:
                return name('__acc__')
            return None
        if isinstance(n, ast.Call) and U(n.func) in ('np.array', 'np.asarray', 'numpy.array', 'list', 'tuple', 'np.hstack', 'numpy.hstack') and len(n.args) == 1:
            inner = view(n.args[0])
            if inner is not None and inner.id != '__acc__':
                return inner
            return None
        if isinstance(n, (ast.ListComp, ast.GeneratorExp)) and len(n.generators) == 1 and not n.generators[0].ifs \
                and isinstance(n.generators[0].iter, ast.Name) and n.generators[0].iter.id in multi:
            g = n.generators[0]
            acc = g.iter.id
            idx = None
            if isinstance(g.target, ast.Name) and isinstance(n.elt, ast.Subscript) and U(n.elt.value) == g.target.id \
                    and isinstance(n.elt.slice, ast.Constant):
                idx = n.elt.slice.value
            elif isinstance(g.target, ast.Tuple) and isinstance(n.elt, ast.Name):
                ids = [U(e) for e in g.target.elts]
                idx = ids.index(n.elt.id) if n.elt.id in ids else None
            if (acc, idx) in roles:
                return name(roles[(acc, idx)])
        return None
    R = Replace(view).visit(clone(R))
    # max(1, a if c else b)  ->  max(1, a) if c else max(1, b);  max(1, 1) -> 1      (clamp written after a default-then-override)
    def push(e):
        if isinstance(e, ast.IfExp):
            return ast.IfExp(test=e.test, body=push(e.body), orelse=push(e.orelse))
        if isinstance(e, ast.Call) and U(e.func) in ('max', 'np.maximum') and len(e.args) == 2 and not e.keywords:
            a, b = e.args
            one, oth = (a, b) if is_one(a) else ((b, a) if is_one(b) else (None, None))
            if one is not None and isinstance(oth, ast.IfExp):
                return ast.IfExp(test=oth.test, body=push(ast.Call(func=e.func, args=[one, oth.body], keywords=[])),
                                 orelse=push(ast.Call(func=e.func, args=[one, oth.orelse], keywords=[])))
            if one is not None and is_one(oth):
                return oth
        return e
    R = push(R)
    symbols = {'__var__', '__est__', '__acc__', '__other__'}
    lists = {'__acc__'} | {roles[k] for k in roles if T(entry.get(k[0])) in ('[]', 'list()')}
    default = full = None
    if isinstance(R, ast.IfExp):
        k = empty_test(R.test, symbols, lists)
        if k == 'empty':
            default, full = R.body, R.orelse
        elif k == 'nonempty':
            default, full = R.orelse, R.body
    ctx.ob('floor-and-default', fi, loop, default is not None and is_one(default),
           'with no usable measurement the total defaults to 1; the result is `%s`' % U(R)[:200], construct='default in ' + where)
    if full is None:
        full = R
    E = floored(full)
    ctx.ob('floor-and-default', fi, loop, E is not None, 'the estimated total is floored at 1: `%s`' % U(full)[:200], construct='floor in ' + where)
    if E is not None and isinstance(full, ast.Call) and U(full.func) in ('max', 'builtins.max') and len(full.args) == 2 and is_one(full.args[1]) and not is_one(full.args[0]):
        # Python's max returns its FIRST argument unless a later one compares greater; every comparison with NaN is false.  All usable measurements
        # having infinite noise (a zero-budget release) makes the estimate inf * 0 = NaN: max(1, NaN) is the floor 1, max(NaN, 1) is NaN - and a NaN
        # total silently turns every marginal / weight into NaN
        ctx.ob('floor-and-default', fi, loop, False,
               'the floor is written `%s`: with the estimate first, a NaN estimate (all usable measurements have infinite noise: inf * 0) is returned as it is, '
               'where `max(1, estimate)` falls back to 1' % U(full)[:60], construct='argument order of the floor in ' + where)
    floor_failed = E is None
    if E is None:
        E = full
    ev2 = MatEval({}, atoms)
    ev2.hook = red_hook(atoms)
    try:
        comb = ev2.ev(E)
    except AnalysisError as e:
        if floor_failed:
            ctx.note('%s: combination not evaluated, the floor is already reported as missing (%s)' % (where, e))
            return None
        raise AnalysisError('%s: combination `%s` outside the reduction dialect (%s)' % (where, U(E)[:120], e))
    w = ev2.ev(ast.parse('np.sum(__est__ / __var__) / np.sum(1 / __var__)', mode='eval').body)
    ctx.ob('combination-form', fi, loop, comb.eq(w), 'inverse-variance weighting: expected %r, source %r' % (w, comb),
           construct='combination in ' + where)
    # x0: the start of the iteration.  From zero (the default, also when spelled out) lsmr returns the MINIMUM-NORM solution - the weighting of
    # least variance; from any other start it returns that start plus a minimum-norm correction, which still solves the system but is not it
    kws = list(call.keywords)
    for k in list(kws):
        if k.arg == 'x0':
            v0 = k.value
            if isinstance(v0, ast.Name):
                d0 = [a.value for a in ast.walk(fi.node) if isinstance(a, ast.Assign) and len(a.targets) == 1 and U(a.targets[0]) == v0.id]
                v0 = d0[0] if len(d0) == 1 else v0
            t0 = T(v0)
            zero = t0 == 'None' or (isinstance(v0, ast.Call) and U(v0.func) in ('np.zeros', 'numpy.zeros', 'np.zeros_like'))
            ctx.ob('variance-form', fi, call, zero, 'the solver starts from zero, so its answer is the minimum-norm weighting v (least variance of v.y); starts from `%s`%s'
                   % (U(v0)[:60], '' if zero else ': the result is that start plus a minimum-norm correction - an unbiased weighting, not the best one'),
                   construct='start of the solver in ' + where)
            kws.remove(k)
    feats = {'solver': U(call.func).split('.')[-1], 'solver-kw': tuple(sorted((k.arg, T(k.value)) for k in kws)),
             'solver-extra-args': tuple(T(a) for a in call.args[2:])}
    if want_guard is not None:
        feats['test-kw'] = tuple(sorted((k.arg, T(k.value)) for k in want_guard.keywords)) + tuple(T(a) for a in want_guard.args[2:])
    return feats


def check_siblings(ctx, feats):
    """the copies must agree on how exactly they solve and test (tolerances, solver): a one-sided edit diverges from the majority"""
    keys = sorted({k for _, f in feats for k in f})
    for k in keys:
        counts = {}
        for fi, f in feats:
            counts[f.get(k)] = counts.get(f.get(k), 0) + 1
        majority = max(counts, key=lambda v: counts[v])
        for fi, f in feats:
            ok = f.get(k) == majority and counts[majority] >= 2
            ctx.ob('sibling-agreement', fi, fi.node, ok,
                   'the copies of the total estimator must solve and test alike: %s is %s here, %s in the majority' % (k, f.get(k), majority),
                   construct='%s of the estimator in %s' % (k, fi.qualname))

"""C10 - structural zeros carry no mass (structural clauses: the -inf mask is built, merged and kept).

  active-form      Factor.active stores -inf, at an index derived from its zeros argument, into an array of zeros
                   laid out by its domain argument
  mask-per-key     the estimator's constructor builds a mask for every key of the specification (no filter)
  zero-cliques     setup adds the specification's cliques to the clique list handed to the model constructor
                   (otherwise `combine` silently drops the mask: no containing clique)
  mask-at-setup    on every path out of setup the published model's potentials have had
                   `.combine(self.structural_zeros)` applied (warm start or not)
  mask-at-bp       every parameter vector handed to model.belief_propagation inside a solver still carries the
                   mask: it is the setup potentials, a copy, or MASKED +/- anything (scaling and rebuilding lose it)
  mask-not-scaled  inside a solver a masked vector is multiplied / divided only while Factor.__mul__ sanitises scalar products
                   (two cooperating sites: 0*(-inf) = NaN otherwise)
  inf-guard        the non-scalar path of Factor.__sub__ selects on infinities of the subtrahend
  division-guard   factor / factor clears the cells with an empty denominator by a test on the denominator (0/0 is NaN, not inf)
                   ((-inf) - (-inf) is NaN for every structural zero otherwise)
Not decided: exact zero versus the 1e-100 floor Factor.log introduces in mle (tolerance), NaN-freedom, synthetic records.
"""
import ast

from ..engines.facts import FactAnalysis, St
from ..engines.solvers import find_setup, find_solvers, is_setup_call, never_none_attrs
from ..srcmodel import AnalysisError, U, calls_in, header, names_in

INF = 'src/mbi/inference.py'
FACTOR = 'src/mbi/factor.py'
POT = 'self.model.potentials'
ZEROS = 'self.structural_zeros'


def is_neg_inf(e):
    t = U(e).replace(' ', '')
    return t in ('-np.inf', '-numpy.inf', '-math.inf', "float('-inf')", "-float('inf')", 'np.NINF', '-np.Inf',
                 '-np.infty', '-inf')


class Mask(FactAnalysis):
    def __init__(self, fi, ctx, setup=None, never_none=()):
        super().__init__(fi)
        self.ctx = ctx
        self.setup = setup
        self.never_none = set(never_none)
        self.bp_sites = 0

    def masked(self, e, st):
        p = self.place(e, st)
        if p is not None:
            return ('MASKED', p) in st.facts
        if isinstance(e, ast.BinOp):
            if isinstance(e.op, ast.Add):
                return self.masked(e.left, st) or self.masked(e.right, st)
            if isinstance(e.op, ast.Sub):
                return self.masked(e.left, st)
        if isinstance(e, ast.Call) and isinstance(e.func, ast.Attribute) and e.func.attr == 'copy' and not e.args:
            return self.masked(e.func.value, st)
        if isinstance(e, ast.Call) and U(e.func) in ('deepcopy', 'copy.deepcopy', 'copy.copy') and len(e.args) == 1:
            return self.masked(e.args[0], st)
        return False

    def aliases(self, st, p):
        out = {p}
        for f in st.facts:
            if f[0] == 'SAME' and p in f[1:]:
                out |= set(f[1:])
        return out

    def on_assign(self, st, s):
        st = super().on_assign(st, s)
        # a = b = <fresh object>: both names denote the same object
        if isinstance(s, ast.Assign) and len(s.targets) > 1 and all(isinstance(t, ast.Name) for t in s.targets):
            names = [t.id for t in s.targets]
            for a in names[1:]:
                st.facts.add(('SAME', names[0], a))
        return st

    def visit_expr(self, st, e, stmt):
        if self.setup is not None:
            for n in ast.walk(e):
                if isinstance(n, ast.BinOp) and isinstance(n.op, (ast.Mult, ast.Div)):
                    for side in ((n.left, n.right) if isinstance(n.op, ast.Mult) else (n.left,)):
                        if self.place(side, st) is not None and self.masked(side, st):
                            safe = scalar_mul_sanitised(self.ctx.repo)
                            self.ctx.ob('mask-not-scaled', self.fi, n, safe,
                                        'the -inf masked vector `%s` is scaled (0 * (-inf) is NaN, a negative factor gives +inf); %s'
                                        % (U(side), 'tolerated because Factor.__mul__ sanitises scalar products with nan_to_num' if safe else
                                           'and Factor.__mul__ no longer sanitises scalar products with nan_to_num: NaN reaches belief propagation'))
        for c in calls_in(e):
            f = c.func
            if self.setup is not None and is_setup_call(c, self.setup):
                self.kill(st, 'self.model')
                st.facts.add(('MASKED', POT))
            if isinstance(f, ast.Attribute) and f.attr == 'combine' and len(c.args) == 1 and \
                    self.place(c.args[0], st) == ZEROS:
                p = self.place(f.value, st)
                if p is not None:
                    for q in self.aliases(st, p):
                        st.facts.add(('MASKED', q))
            if self.setup is not None and isinstance(f, ast.Attribute) and f.attr == 'belief_propagation' and \
                    self.place(f.value, st) == 'self.model' and c.args:
                self.bp_sites += 1
                ok = self.masked(c.args[0], st)
                self.ctx.ob('mask-at-bp', self.fi, c, ok,
                            'parameter vector `%s` handed to belief propagation %s the -inf structural-zero mask'
                            % (U(c.args[0]), 'carries' if ok else 'is not shown to carry'))

    def gen(self, st, places, value, stmt):
        if self.masked(value, st):
            return {('MASKED', places[0])}
        return set()

    def preserve_on_aug(self, st, place, stmt):
        if isinstance(stmt.op, (ast.Add, ast.Sub)) and ('MASKED', place) in st.facts:
            return {('MASKED', place)}
        return set()

    def refine(self, st, test, truth):
        # `if self.X is not None:` where X is always a constructed object: the None branch is infeasible
        t = test
        if isinstance(t, ast.Compare) and len(t.ops) == 1 and isinstance(t.comparators[0], ast.Constant) \
                and t.comparators[0].value is None and isinstance(t.left, ast.Attribute) and U(t.left.value) == 'self' \
                and t.left.attr in self.never_none:
            is_not = isinstance(t.ops[0], ast.IsNot)
            if truth != is_not:
                return None
        return st


def zero_key_lists(repo, fi):
    """attributes that hold the cliques of the zero specification for the life of the engine: bound once, in the constructor, AFTER the
    specification has been filled in, to `list(self.structural_zeros.keys())` (or list / tuple / sorted of the table), never re-bound and
    never mutated by a method of the class (an in-place `+=` on an alias of it is reported by C13)"""
    from ..engines.memo import ClassInfo, self_attr
    if fi.cls is None:
        return set()
    info = ClassInfo(repo, fi.module, fi.cls.name)
    init = info.methods.get('__init__')
    if init is None:
        return set()
    body = init.node.body
    last_fill = max([i for i, st in enumerate(body) if any(
        isinstance(n, (ast.Assign, ast.AugAssign)) and any(U(t).startswith(ZEROS) for t in (n.targets if isinstance(n, ast.Assign) else [n.target]))
        for n in ast.walk(st))] or [-1])
    out = set()
    for i, st in enumerate(body):
        if i > last_fill and isinstance(st, ast.Assign) and len(st.targets) == 1 and self_attr(st.targets[0]):
            v = st.value
            if isinstance(v, ast.Call) and U(v.func) in ('list', 'tuple', 'sorted') and len(v.args) == 1 and \
                    U(v.args[0]) in (ZEROS, ZEROS + '.keys()') and info.assigned_in.get(self_attr(st.targets[0]), set()) <= {'__init__'} \
                    and self_attr(st.targets[0]) not in info.foreign:
                out.add(self_attr(st.targets[0]))
    return out


class CliqueArg(FactAnalysis):
    """setup: the list passed as the cliques argument of the model constructor has been extended with the
    keys of self.structural_zeros on every path."""

    def __init__(self, fi, ctx, never_none):
        super().__init__(fi)
        self.ctx = ctx
        self.never_none = set(never_none)
        self.sites = 0
        self.reported = set()
        self.zero_lists = zero_key_lists(ctx.repo, fi)

    def refine(self, st, test, truth):
        st2 = Mask.refine(self, st, test, truth)
        if st2 is None:
            return None
        # inside `for z in self.structural_zeros`: `if not any(set(z) <= m for m in <sets of L>)`: on the False side the zero clique is
        # contained in ONE clique already in the list L - it is represented; on the True side the code is expected to append it
        cov = self.coverage_test(test, st2)
        if cov is not None:
            kind, lst, neg = cov
            covered_side = (truth != neg)       # test true (after stripping `not`) means covered
            if kind == 'single' and covered_side:
                st2.facts.add(('HASZ', lst))
            if kind == 'union' and id(test) not in self.reported:
                self.reported.add(id(test))
                self.ctx.ob('zero-cliques', self.fi, test, False,
                            'a zero clique is skipped when its attributes are merely all measured somewhere (`%s`): it must be contained in '
                            'ONE clique of the model, otherwise `combine` silently drops its mask' % U(test)[:120])
        return st2

    def coverage_test(self, test, st):
        from ..normalise import Defs, expand
        t, neg = test, False
        while isinstance(t, ast.UnaryOp) and isinstance(t.op, ast.Not):
            t, neg = t.operand, not neg
        zvars = {f[1] for f in st.facts if f[0] == 'ZVAR'}
        if not zvars:
            return None
        defs = Defs(self.fi.body)

        def is_zset(e):
            return (isinstance(e, ast.Call) and U(e.func) in ('set', 'frozenset') and len(e.args) == 1 and U(e.args[0]) in zvars)
        # any(set(z) <= m for m in M)
        if isinstance(t, ast.Call) and U(t.func) == 'any' and len(t.args) == 1 and isinstance(t.args[0], ast.GeneratorExp) \
                and len(t.args[0].generators) == 1 and not t.args[0].generators[0].ifs:
            g = t.args[0].generators[0]
            e = t.args[0].elt
            mvar = U(g.target)
            sub = None
            if isinstance(e, ast.Compare) and len(e.ops) == 1 and isinstance(e.ops[0], ast.LtE) and is_zset(e.left):
                sub = e.comparators[0]
            elif isinstance(e, ast.Call) and isinstance(e.func, ast.Attribute) and e.func.attr == 'issubset' and is_zset(e.func.value) and len(e.args) == 1:
                sub = e.args[0]
            if sub is None:
                return None
            src = expand(g.iter, defs)
            if isinstance(src, ast.Name) and isinstance(defs.single(src.id), (ast.ListComp, ast.GeneratorExp)):
                src = defs.single(src.id)
            lst = None
            if U(sub) == mvar and isinstance(src, ast.ListComp) and len(src.generators) == 1 and not src.generators[0].ifs \
                    and U(src.elt) == 'set(%s)' % U(src.generators[0].target):
                lst = U(src.generators[0].iter)            # m ranges over [set(c) for c in L]
            elif U(sub) == 'set(%s)' % mvar and isinstance(src, ast.Name):
                lst = src.id                                # set(z) <= set(c) for c in L
            if lst is not None:
                return ('single', self.place(ast.Name(id=lst, ctx=ast.Load()), st) or lst, neg)
            return None
        # set(z) <= U  with U = set().union(*L) / set of all measured attributes
        if isinstance(t, ast.Compare) and len(t.ops) == 1 and isinstance(t.ops[0], ast.LtE) and is_zset(t.left):
            u = expand(t.comparators[0], defs)
            if isinstance(u, ast.Call) and isinstance(u.func, ast.Attribute) and u.func.attr == 'union' and any(isinstance(a, ast.Starred) for a in u.args):
                return ('union', None, neg)
        return None

    def on_bind(self, st, target, it, s):
        st = super().on_bind(st, target, it, s)
        if isinstance(target, ast.Name) and self.mentions_zeros(it):
            st.facts.add(('ZVAR', target.id))
        return st

    def loop(self, s, st):
        """a loop over the zero specification establishes HASZ vacuously when the specification is empty"""
        if isinstance(s, ast.For) and self.mentions_zeros(s.iter) and isinstance(s.target, ast.Name):
            body_in = self.on_bind(self.copy(st), s.target, s.iter, s)
            self._loops.append({'break': [], 'continue': []})
            out = self.block(s.body, body_in)
            self._loops.pop()
            if out is not None:
                gained = {f for f in out.facts if f[0] == 'HASZ'} - st.facts
                res = super().loop(s, st)
                if res is not None:
                    res.facts |= gained
                return res
        return super().loop(s, st)

    def mentions_zeros(self, e):
        return any(U(n) == ZEROS or (isinstance(n, ast.Attribute) and U(n.value) == 'self' and n.attr in self.zero_lists) for n in ast.walk(e))

    def visit_expr(self, st, e, stmt):
        for c in calls_in(e):
            f = c.func
            zvars = {x[1] for x in st.facts if x[0] == 'ZVAR'}
            if isinstance(f, ast.Attribute) and f.attr in ('extend', 'append') and c.args and \
                    (self.mentions_zeros(c.args[0]) or U(c.args[0]) in zvars):
                p = self.place(f.value, st)
                if p:
                    st.facts.add(('HASZ', p))
        if isinstance(stmt, ast.Assign) and isinstance(stmt.value, ast.Call):
            tgt = [self.place(t, st) for t in stmt.targets]
            c = stmt.value
            # the constructor call whose result becomes self.model (directly or through a local)
            if isinstance(c.func, ast.Name) and c.func.id in ('GraphicalModel',) and len(c.args) >= 2:
                self.sites += 1
                arg = c.args[1]
                ok = ('HASZ', self.place(arg, st)) in st.facts if self.place(arg, st) else self.mentions_zeros(arg)
                self.ctx.ob('zero-cliques', self.fi, c, ok,
                            'the clique list `%s` given to the model constructor %s the cliques of the zero specification'
                            % (U(arg), 'includes' if ok else 'is not shown to include'))

    def gen(self, st, places, value, stmt):
        if isinstance(value, ast.BinOp) and isinstance(value.op, ast.Add):
            l, r = self.place(value.left, st), self.place(value.right, st)
            if self.mentions_zeros(value) or ('HASZ', l) in st.facts or ('HASZ', r) in st.facts:
                return {('HASZ', places[0])}
        return set()

    def preserve_on_aug(self, st, place, stmt):
        keep = set()
        if isinstance(stmt.op, ast.Add):
            if ('HASZ', place) in st.facts or self.mentions_zeros(stmt.value):
                keep.add(('HASZ', place))
        return keep


def scalar_mul_sanitised(repo):
    """the scalar branch of Factor.__mul__ wraps the product in np.nan_to_num (default: +-inf -> finite, nan -> 0)"""
    fi = repo.nfunc(FACTOR, 'Factor.__mul__')
    for s in fi.body:
        if isinstance(s, ast.If) and 'isscalar' in U(s.test):
            for c in calls_in(s):
                if U(c.func).split('.')[-1] == 'nan_to_num' and not c.keywords:
                    return True
    return False


def run(ctx):
    repo = ctx.repo
    ctx.explanation = (
        'Mask typestate: MASKED(v) is established by v.combine(self.structural_zeros) / by the setup method, preserved by '
        'copies and by v +/- w, lost by scaling or rebuilding; every belief_propagation argument inside a solver must be '
        'MASKED on every path (must-analysis over the structured CFG). Plus the forms of Factor.active, the constructor '
        'loop, the clique list and the infinity guard in Factor.__sub__.')
    ctx.rule_text = 'one obligation per BP call site in a solver, per setup exit, per model construction, plus 5 form obligations'
    ctx.trusted = ['(-inf) + finite = -inf in numpy; belief_propagation maps -inf potentials to zero mass (C01)']
    setup = find_setup(repo, INF, 'FactoredInference')
    solvers = [s for s in find_solvers(repo, INF, 'FactoredInference', setup) if s.name not in ('estimate', 'infer')]
    nn = never_none_attrs(repo, INF, 'FactoredInference')
    ctx.floor('solvers discovered', len(solvers), 3)
    check_division_guard(ctx)

    # ---- setup: mask merged on every path, zero cliques part of the model ------------------
    ctx.analysed(setup)
    an = Mask(setup, ctx, setup=None, never_none=nn)
    n = 0
    for stmt, st in an.exits(setup.body, St()):
        n += 1
        ok = ('MASKED', POT) in st.facts
        ctx.ob('mask-at-setup', setup, stmt if stmt is not None else setup.node, ok,
               'potentials of the published model %s `.combine(self.structural_zeros)` on every path to this exit'
               % ('have had' if ok else 'have not had'),
               construct=header(stmt) if stmt is not None else 'fall-through exit of ' + setup.name)
    ctx.floor('setup exits', n, 1)
    ca = CliqueArg(setup, ctx, nn)
    ca.exits(setup.body, St())
    ctx.floor('model constructions in setup', ca.sites, 1)

    # ---- solvers ---------------------------------------------------------------------------
    total_bp = 0
    for fi in solvers:
        ctx.analysed(fi)
        an = Mask(fi, ctx, setup=setup, never_none=nn)
        an.exits(fi.body, St())
        # obligations were recorded once per fixpoint round: de-duplicate keeping the last verdict per call node
        total_bp += an.bp_sites
    dedupe(ctx, 'mask-at-bp')
    dedupe(ctx, 'mask-not-scaled')
    ctx.floor('belief_propagation call sites in solvers',
              sum(1 for o in ctx.obligations if o.rule == 'mask-at-bp'), 5)

    check_active(ctx)
    check_ctor(ctx)
    check_inf_guard(ctx)


def dedupe(ctx, rule):
    """Loop fixpoints evaluate a call site several times; the verdict that counts is the last one
    (the stable loop-head state is the weakest)."""
    last = {}
    keep = []
    for o in ctx.obligations:
        if o.rule == rule:
            last[(o.function, o.line, o.construct)] = o
        else:
            keep.append(o)
    ctx.obligations[:] = keep + list(last.values())


def check_active(ctx):
    fi = ctx.repo.nfunc(FACTOR, 'Factor.active')
    dom, zeros = fi.params[0], fi.params[1]
    stores = [s for s in ast.walk(fi.node) if isinstance(s, ast.Assign) and isinstance(s.targets[0], ast.Subscript)]
    if not stores:
        raise AnalysisError('Factor.active: no element store found')
    defs = {}
    for s in fi.body:
        if isinstance(s, ast.Assign) and isinstance(s.targets[0], ast.Name):
            defs[s.targets[0].id] = s.value
    s = stores[0]
    arr = s.targets[0].value
    idx = s.targets[0].slice

    def derives(e, name, seen=()):
        for n in names_in(e):
            if n == name:
                return True
            if n in defs and n not in seen and derives(defs[n], name, seen + (n,)):
                return True
        return False
    ok_val = is_neg_inf(s.value)
    ok_idx = derives(idx, zeros)
    arr_def = defs.get(U(arr))
    ok_arr = arr_def is not None and isinstance(arr_def, ast.Call) and U(arr_def.func) in ('np.zeros', 'numpy.zeros') \
        and U(arr_def.args[0]) == dom + '.shape'
    ctx.ob('active-form', fi, s, ok_val, 'declared-impossible cells must receive -inf (log of zero mass); stores `%s`' % U(s.value))
    ctx.ob('active-form', fi, s, ok_idx, 'the index of the -inf store must derive from the zeros argument `%s`' % zeros,
           construct='index of ' + U(s))
    ctx.ob('active-form', fi, s, ok_arr, 'all other cells must be 0 (log of an unconstrained cell): base array must be zeros(%s.shape)' % dom,
           construct='base of ' + U(s))
    # further forms of the argument (e.g. a boolean mask over the domain): each -inf store of that form must sit under a test that tells the
    # form apart by TYPE - the shape alone does not (a list of k cells of an r-attribute clique has shape (k, r), which can equal the domain's)
    for s2 in stores[1:]:
        ok2 = is_neg_inf(s2.value) and derives(s2.targets[0].slice, zeros) and U(s2.targets[0].value) == U(arr)
        ctx.ob('active-form', fi, s2, ok2, 'declared-impossible cells must receive -inf, indexed from the zeros argument', construct='second form: ' + U(s2)[:50])
    for s2 in stores:
        ix = s2.targets[0].slice
        seen_ = 0
        while isinstance(ix, ast.Name) and ix.id in defs and seen_ < 4:
            ix, seen_ = defs[ix.id], seen_ + 1
        cell_list = isinstance(ix, ast.Call) and U(ix.func) == 'tuple' and ix.args and isinstance(ix.args[0], ast.Attribute) and ix.args[0].attr == 'T'
        if cell_list:
            continue
        par = getattr(s2, '_parent', None)
        tests = []
        while par is not None and par is not fi.node:
            if isinstance(par, ast.If):
                tests.append(U(par.test).replace(' ', ''))
            par = getattr(par, '_parent', None)
        by_type = any('.dtype==bool' in t or '.dtype==np.bool_' in t or "dtype.kind=='b'" in t or 'issubdtype(' in t and 'bool' in t for t in tests)
        ctx.ob('active-form', fi, s2, by_type,
               'the array `%s` is used as a boolean MASK; that reading must be selected by its dtype (`.dtype == bool`), not by its shape: an ordinary '
               'list of cells whose (count, arity) happens to equal the clique\'s shape would be read as flags; enclosing tests: %s'
               % (U(s2.targets[0].slice), tests or 'none'), construct='mask form of the zeros argument')
    rets = [r for r in ast.walk(fi.node) if isinstance(r, ast.Return)]
    ok_ret = bool(rets) and all(isinstance(r.value, ast.Call) and len(r.value.args) == 2 and
                                U(r.value.args[0]) == dom and U(r.value.args[1]) == U(arr) for r in rets)
    ctx.ob('active-form', fi, rets[0] if rets else fi.node, ok_ret, 'must return the masked array as a factor over `%s`' % dom)


def check_ctor(ctx):
    fi = ctx.repo.nfunc(INF, 'FactoredInference.__init__')
    if 'structural_zeros' not in fi.params:
        raise AnalysisError('FactoredInference.__init__ lost its structural_zeros parameter')
    loops = [s for s in fi.body if isinstance(s, ast.For) and U(s.iter) in ('structural_zeros', 'structural_zeros.keys()',
                                                                           'structural_zeros.items()')]
    if len(loops) != 1:
        raise AnalysisError('FactoredInference.__init__: expected one loop over the zero specification')
    loop = loops[0]
    key = loop.target.id if isinstance(loop.target, ast.Name) else (loop.target.elts[0].id if isinstance(loop.target, ast.Tuple) else None)
    from ..engines.blockeval import BlockEval, T
    from ..srcmodel import clone
    be = BlockEval(fi.qualname, loop_ok=lambda s_: True)
    be.run([clone(loop)])
    spec = 'structural_zeros[%s]' % key if not isinstance(loop.target, ast.Tuple) else U(loop.target.elts[1])
    stores = [(idx, val, pc, st_) for cont, idx, val, pc, lp, st_ in be.substores if T(cont) == ZEROS]
    escapes = any(isinstance(n, (ast.Continue, ast.Break, ast.Return)) for s_ in loop.body for n in ast.walk(s_))
    # every key gets a mask: one unconditional store, or stores under complementary conditions
    conds = [tuple((T(c), pol) for c, pol in pc) for idx, val, pc, st_ in stores]
    covered = bool(stores) and (() in conds or any(len(a_) == 1 and ((a_[0][0], not a_[0][1]),) in conds for a_ in conds))
    ctx.ob('mask-per-key', fi, loop, covered and not escapes,
           'every key of the specification must get a mask (no filter / early exit in the loop); stores under %s' % (conds or 'no store'),
           construct='coverage of the zero specification')
    A_CAN = 'self.domain.canonical(%s)' % key
    n_checked = 0
    for idx, val, pc, st_ in stores:
        n_checked += 1
        kt = T(idx)
        if kt == key:
            mode = 'identity'
        elif kt in (A_CAN, '%siftype(%s)isstrelse%s' % (key, key, A_CAN), '%sifisinstance(%s,str)else%s' % (key, key, A_CAN)):
            mode = 'canonical'
        else:
            raise AnalysisError('FactoredInference.__init__: masks are stored under an unrecognised key `%s`' % U(idx)[:80])
        if not (isinstance(val, ast.Call) and isinstance(val.func, ast.Attribute) and val.func.attr == 'active' and len(val.args) == 2):
            ctx.ob('mask-per-key', fi, st_, False, 'the value stored for a key must be Factor.active(domain, cells); stores `%s`' % U(val)[:80])
            continue
        d, z = val.args
        # the order of the mask's own domain decides the order the cell columns must be in; the dictionary key may be either spelling
        dt = T(d)
        X = None
        for pre in ('self.domain.project(', 'domain.project('):
            if dt.startswith(pre) and dt.endswith(')'):
                X = dt[len(pre):-1]
        cond_key = '%siftype(%s)isstrelse%s' % (key, key, A_CAN)
        dom_ok = X in (key, A_CAN, cond_key, '%sifisinstance(%s,str)else%s' % (key, key, A_CAN))
        if not dom_ok:
            raise AnalysisError('FactoredInference.__init__: mask domain `%s` is in no recognised form' % U(d)[:80])
        cells_ok, why = cells_match(z, key, X, spec, 'identity' if X == key else 'canonical')
        ctx.ob('mask-per-key', fi, st_, dom_ok and cells_ok,
               'mask for key K must be active(domain.project(K\'), cells\') stored under K\' where K\' is K or its canonical re-ordering and '
               'the cell columns are re-ordered with it; domain `%s`, cells `%s`%s' % (U(d)[:60], U(z)[:110], why),
               construct='mask stored under `%s`' % U(idx)[:50])
    if not n_checked:
        ctx.ob('mask-per-key', fi, loop, False, 'no store into self.structural_zeros found')


def cells_match(z, key, kt, spec, mode):
    """are the cells handed to Factor.active the specification's cells with their columns in the order of the stored key?"""
    from ..engines.blockeval import T
    A = kt
    if isinstance(z, ast.IfExp):
        # `cells if <key unchanged> else permuted`
        t = T(z.test)
        alts = {kt, '(%s)' % kt}
        same_tests = {'%s==%s' % (a_, key) for a_ in alts} | {'%s==%s' % (key, a_) for a_ in alts}
        diff_tests = {'%s!=%s' % (a_, key) for a_ in alts} | {'%s!=%s' % (key, a_) for a_ in alts}
        if t in diff_tests:
            perm, plain = z.body, z.orelse
        elif t in same_tests:
            perm, plain = z.orelse, z.body
        else:
            raise AnalysisError('FactoredInference.__init__: cells chosen under an unrecognised test `%s`' % U(z.test))
        if T(plain) != spec.replace(' ', ''):
            return False, '; the unpermuted alternative is not the specification'
        return cells_match(perm, key, kt, spec, 'canonical')
    if T(z) == spec.replace(' ', ''):
        return (mode == 'identity'), ('' if mode == 'identity' else '; the key is re-ordered but the cell columns are not')
    # permuted forms
    P = None
    if isinstance(z, ast.Subscript) and isinstance(z.slice, ast.Tuple) and len(z.slice.elts) == 2 and T(z.slice.elts[0]) == ':':
        base = z.value
        if isinstance(base, ast.Call) and U(base.func) in ('np.atleast_2d', 'np.array', 'np.asarray') and len(base.args) == 1 and T(base.args[0]) == spec.replace(' ', ''):
            P = z.slice.elts[1]
    elif isinstance(z, ast.ListComp) and len(z.generators) == 1 and T(z.generators[0].iter) == spec.replace(' ', '') and isinstance(z.elt, ast.Call) \
            and U(z.elt.func) == 'tuple' and isinstance(z.elt.args[0], ast.GeneratorExp):
        g = z.elt.args[0]
        zv = U(z.generators[0].target)
        if len(g.generators) == 1 and T(g.elt) == '%s[%s]' % (zv, U(g.generators[0].target)):
            P = g.generators[0].iter
    if P is None:
        raise AnalysisError('FactoredInference.__init__: cells `%s` are in no recognised form' % U(z)[:80])
    pt = T(P)
    # strip the conditional key spelling: inside the permuted branch the key is the canonical tuple
    for cond_key in ('%siftype(%s)isstrelse%s' % (key, key, 'self.domain.canonical(%s)' % key), '%sifisinstance(%s,str)else%s' % (key, key, 'self.domain.canonical(%s)' % key)):
        pt = pt.replace('(%s)' % cond_key, 'self.domain.canonical(%s)' % key).replace(cond_key, 'self.domain.canonical(%s)' % key)
        A = A.replace('(%s)' % cond_key, 'self.domain.canonical(%s)' % key).replace(cond_key, 'self.domain.canonical(%s)' % key)
    good = '[%s.index(a)forain%s]' % (key, A)
    inverse = '[%s.index(a)forain%s]' % (A, key)
    import re
    norm = re.sub(r'\bfor(\w+)in', 'forain', re.sub(r'index\((\w+)\)', 'index(a)', pt))
    if norm == good:
        return True, ''
    if norm == inverse:
        return False, '; the columns are permuted by the INVERSE permutation `%s` (position of each key attribute in the canonical order instead of ' \
                      'position of each canonical attribute in the key): wrong for keys of three or more attributes that are rotations of the domain order' % U(P)
    raise AnalysisError('FactoredInference.__init__: column permutation `%s` is in no recognised form' % U(P)[:80])


def check_inf_guard(ctx):
    """What `f - g` does at a structural zero, decided cell by cell (engines/cellsem.py: extended reals, affine finite values):
         g finite:            f - g                      (f finite or -inf)
         f = g = -inf:        -inf, never NaN            (dividing a belief by a message that is zero there leaves the zero alone)
    `f` finite and `g = -inf` does not occur in belief propagation (a belief contains every message it has absorbed) and is not
    constrained.  A selection that also fires on FINITE entries (a threshold) is reported before the cells are evaluated."""
    from ..engines import cellsem as CS
    from ..normalise import Defs, expand
    fi = ctx.repo.nfunc(FACTOR, 'Factor.__sub__')
    ctx.analysed(fi)
    other = fi.params[1]
    defs = Defs(fi.body)
    NEG_INF = ('-np.inf', '-numpy.inf', '-math.inf', "float('-inf')", "-float('inf')", 'np.NINF', '-inf', '-np.Inf', '-np.infty')
    for g in calls_in(fi.node):
        if U(g.func).split('.')[-1] == 'where' and len(g.args) == 3:
            m = expand(g.args[0], defs, keep=(other,))
            if isinstance(m, ast.Compare) and len(m.ops) == 1 and isinstance(m.ops[0], (ast.Lt, ast.LtE, ast.Gt, ast.GtE)):
                l, r = U(m.left).replace(' ', ''), U(m.comparators[0]).replace(' ', '')
                if l not in NEG_INF and r not in NEG_INF:
                    ctx.ob('inf-guard', fi, g, False,
                           'the selection of structural zeros of the subtrahend must be a test for infinite entries only; `%s` also fires on finite '
                           'entries: tables in log space are defined up to an additive constant, so the difference changes when a constant is added '
                           'to a potential' % U(m), construct='selection mask of __sub__')
                    return
    methods = {q.split('.', 1)[1]: f for q, f in fi.module.funcs.items() if q.startswith('Factor.') and q.count('.') == 1}
    from ..normalise import normalised
    methods = {k: normalised(ctx.repo, v) for k, v in methods.items()}
    cases = [('both finite', CS.fin('f'), CS.fin('g'), CS.add(CS.fin('f'), CS.neg(CS.fin('g')))),
             ('f = -inf, g finite', CS.NINF, CS.fin('g'), CS.NINF),
             ('f = g = -inf (a structural zero on both sides)', CS.NINF, CS.NINF, CS.NINF)]
    for label, f_, g_, want in cases:
        ip = CS.Interp(methods)
        try:
            r = ip.call_method('__sub__', CS.Fac(f_), [CS.Fac(g_)])
        except AnalysisError as e:
            raise AnalysisError('Factor.__sub__ [%s]: %s' % (label, e))
        if not isinstance(r, CS.Fac):
            raise AnalysisError('Factor.__sub__ [%s]: does not return a factor' % label)
        ctx.ob('inf-guard', fi, fi.node, CS.same(r.cell, want),
               '[%s] (f - g) must be %s in that cell; the code computes %s%s'
               % (label, CS.show(want), CS.show(r.cell), ' ((-inf) - (-inf) without a selection on the infinities of the subtrahend)' if r.cell == CS.NAN else ''),
               construct='f - g where %s' % label)


def check_division_guard(ctx):
    """Factor / Factor (used for conditionals: marginal / separator marginal): cells whose DENOMINATOR is empty are 0/0; they must
    be cleared by a test on the denominator (or by a NaN-aware test on the quotient) - `isinf(quotient)` alone misses 0/0 = NaN."""
    from ..engines.blockeval import BlockEval, T
    from ..normalise import single_exit
    from ..srcmodel import clone
    fi = ctx.repo.nfunc(FACTOR, 'Factor.__truediv__')
    ctx.analysed(fi)
    other = fi.params[1]
    tail = [s for s in fi.body if not (isinstance(s, ast.If) and 'isscalar' in U(s.test))]
    quot = None          # (name, numerator, denominator, how)
    for s in ast.walk(ast.Module(body=tail, type_ignores=[])):
        if isinstance(s, ast.Assign) and len(s.targets) == 1 and isinstance(s.targets[0], ast.Name):
            v = s.value
            if isinstance(v, ast.Call) and U(v.func) in ('np.divide', 'numpy.divide', 'np.true_divide') and len(v.args) >= 2:
                quot = (s.targets[0].id, v.args[0], v.args[1], v, s)
            elif isinstance(v, ast.BinOp) and isinstance(v.op, ast.Div):
                quot = (s.targets[0].id, v.left, v.right, v, s)
    if quot is None:
        raise AnalysisError('Factor.__truediv__: the element-wise quotient of the non-scalar path was not found')
    qn, num, den, qexpr, qstmt = quot
    from ..normalise import Defs as _Defs, expand as _expand
    den_t = T(_expand(den, _Defs(fi.body)))
    cleared = []          # (stmt, verdict): True = clears every empty-denominator cell, False = recognisably insufficient
    for s in ast.walk(ast.Module(body=tail, type_ignores=[])):
        if isinstance(s, ast.Assign) and isinstance(s.targets[0], ast.Subscript) and U(s.targets[0].value) == qn and T(s.value) in ('0', '0.0'):
            m = s.targets[0].slice
            from ..normalise import Defs, expand
            m = expand(m, Defs(fi.body), keep=(qn,))           # a mask kept in a local (`zero = tmp.values <= 0`)
            from ..srcmodel import canon_compare
            m = canon_compare(m)                               # `0 >= d` is `d <= 0`
            mt = T(m)
            if mt in ('%s<=0' % den_t, '%s==0' % den_t, '~(%s>0)' % den_t, '%s<=0.0' % den_t, '%s==0.0' % den_t):
                cleared.append((s, True))
            elif mt in ('~np.isfinite(%s)' % qn, 'np.isnan(%s)|np.isinf(%s)' % (qn, qn), 'np.isinf(%s)|np.isnan(%s)' % (qn, qn), 'np.isnan(%s)' % qn):
                cleared.append((s, True))
            elif mt in ('np.isinf(%s)' % qn, 'np.isposinf(%s)' % qn, '%s==np.inf' % qn):
                cleared.append((s, False))
            else:
                raise AnalysisError('Factor.__truediv__: unrecognised clearing mask `%s`' % U(m))
    for c in calls_in(ast.Module(body=tail, type_ignores=[])):
        if U(c.func) in ('np.nan_to_num', 'numpy.nan_to_num') and c.args and qn in {n.id for n in ast.walk(c.args[0]) if isinstance(n, ast.Name)}:
            cleared.append((c, True))
    ok = any(v for _, v in cleared)
    where = (cleared[0][0] if cleared else qstmt)
    ctx.ob('division-guard', fi, where, ok,
           'cells of factor / factor with an empty denominator (0/0 for every structural zero of a separator) must be cleared by a test on '
           'the denominator `%s` or by a NaN-aware test on the quotient; %s' % (U(den), 'found `%s`' % U(where)[:80] if cleared else 'no clearing found'),
           construct='empty-denominator cells of Factor.__truediv__')

"""C11 - synthetic records realise the model (structural clauses of the generator only).

Decided (each a necessary condition of "exactly the requested number of rows, every value inside its attribute's domain, no record
in a zero-probability cell"):
  rows-default        with no row count given, the number of rows is int(self.total); a given count is used as is
  count-conservation  the column generator returns exactly as many values as it is asked for:
                        sampling mode  - choice(n, size=rows, replace=True, p=counts/counts.sum())
                        rounding mode  - counts are first scaled to sum to `rows`; the values are repeat(arange(n), I') where I' is the
                                         integer part I plus one unit on `rows - I.sum()` DISTINCT cells (choice without replacement), so
                                         len(values) = I.sum() + (rows - I.sum()) = rows
  support             the extra units are drawn with probability proportional to the fractional parts, the sampled values with
                      probability proportional to the counts: a cell with count 0 has integer part 0 and probability 0, so it never
                      receives a record; values range over arange(n) / choice(n, ...) with n the length of the count vector
  site-pairing        at every call site the count vector is the (un-flattened) clique marginal whose LAST axis is the column being
                      written, indexed by the group key of a groupby over exactly the preceding axes in the same order, and the
                      number of values requested is the number of rows being filled (total / df.shape[0] / group.shape[0])
  private-counts      the generator rescales its count vector in place, so every vector handed to it is private to the call
                      (ownership analysis of Factor.project / GraphicalModel.project / datavector: engines/fresh.py)
  conditioning        a column is generated conditionally on the already generated columns that share a model clique with it
                      (used & union of the cliques containing the column), and becomes `used` afterwards
  method-forwarded    a column generator lifted to module level gets the caller's method at every call site
  order-complete      the greedy elimination order starts from all attributes (on a private copy of the list), runs one round per attribute, and an early
                      exit first moves the whole remaining work list
Not decided: that rounding error does not grow with the number of rows; the sampling law; pandas' groupby/apply (trusted); the
elimination order being a permutation of the attributes (C12).
An unrecognised re-implementation of the generator is an ANALYSIS-ERROR, not a violation.
"""
import ast

from ..engines.blockeval import BlockEval, T
from ..normalise import single_exit
from ..srcmodel import AnalysisError, U, clone, kwarg, calls_in
from ..symexpr import SymEval, Atoms, sym

GM = 'src/mbi/graphical_model.py'


def walk(stmts):
    stmts, _ = single_exit(clone(stmts), '__ret__')
    be = BlockEval('synthetic_data', loop_ok=lambda s: True)
    be.run(stmts)
    return be


def leaves_of(e, path=()):
    if isinstance(e, ast.IfExp):
        yield from leaves_of(e.body, path + ((T(e.test), True),))
        yield from leaves_of(e.orelse, path + ((T(e.test), False),))
    else:
        yield e, path


def call_args(c, names):
    """positional-or-keyword arguments of a call by parameter list"""
    out = {}
    for i, n in enumerate(names):
        v = kwarg(c, n, i)
        if v is not None:
            out[n] = v
    return out


def is_choice(e):
    return isinstance(e, ast.Call) and U(e.func).split('.')[-1] == 'choice'


def counts_alg(e, counts):
    """Alg of an elementwise expression over the count vector: `counts.sum()` / np.sum(counts) is the symbol S"""
    atoms = Atoms()

    def hook(call, ev):
        f = U(call.func)
        if isinstance(call.func, ast.Attribute) and call.func.attr == 'sum' and not call.args and T(call.func.value) == counts:
            return sym('S')
        if f in ('np.sum', 'numpy.sum', 'sum') and len(call.args) == 1 and T(call.args[0]) == counts:
            return sym('S')
        return None
    ev = SymEval({}, atoms, hook=hook)
    return ev.ev(e)


def run(ctx):
    repo = ctx.repo
    ctx.explanation = ('The generator of synthetic records is read as terms (engines/blockeval.py): the column generator\'s result per '
                       'mode, the one in-place update of the integer parts, and the arguments at each of its call sites. Rules compare '
                       'those terms with the count-conservation identity len = I.sum() + (rows - I.sum()), with the proportional-to-'
                       'fraction / proportional-to-count probabilities, and with the axis order of the clique marginal at each site.')
    ctx.rule_text = 'one obligation per mode of the column generator, per call site, per conditioning step'
    ctx.trusted = ['numpy.random.choice(n, size, replace, p), numpy.repeat, numpy.modf; pandas groupby(keys).apply passes each group with '
                   '.name = its key tuple in the order of the keys']
    fi = repo.nfunc(GM, 'GraphicalModel.synthetic_data')
    # a column generator lifted out of synthetic_data to module level (a new function that draws random numbers and is called from it):
    # analysed as the function it is, not inlined at its call sites
    raw = repo.func(GM, 'GraphicalModel.synthetic_data')
    from ..normalise import is_established, normalised_keeping
    lifted_names = set()
    for c_ in calls_in(raw.node):
        if isinstance(c_.func, ast.Name) and c_.func.id in raw.module.funcs and not is_established(GM, c_.func.id):
            g_ = raw.module.funcs[c_.func.id]
            if g_.cls is None and any(U(x.func).startswith(('np.random.', 'numpy.random.')) for x in calls_in(g_.node)):
                lifted_names.add(c_.func.id)
    if lifted_names:
        fi = normalised_keeping(repo, raw, lifted_names)
    ctx.analysed(fi)
    rows_p = fi.params[1] if len(fi.params) > 1 else 'rows'
    method_p = fi.params[2] if len(fi.params) > 2 else 'method'
    gens = {s.name: s for s in fi.body if isinstance(s, ast.FunctionDef)}
    # a generator lifted to module level takes the method as a parameter: every call site has to hand it on
    module_gens = {q: f_.node for q, f_ in fi.module.funcs.items() if f_.cls is None and '.' not in q and q not in gens}
    lifted = {}
    for c_ in [n for n in ast.walk(fi.node) if isinstance(n, ast.Call) and isinstance(n.func, ast.Name) and n.func.id in module_gens]:
        g_ = module_gens[c_.func.id]
        ps_ = [a.arg for a in g_.args.args]
        if len(ps_) == 3 and len(g_.args.defaults) >= 1 and len(c_.args) >= 2:
            lifted.setdefault(c_.func.id, []).append(c_)
    for name_, calls_ in lifted.items():
        g_ = module_gens[name_]
        mp_ = g_.args.args[2].arg
        gens[name_] = g_
        for c_ in calls_:
            given = c_.args[2] if len(c_.args) >= 3 else next((k.value for k in c_.keywords if k.arg == mp_), None)
            ctx.ob('method-forwarded', fi, c_, given is not None and T(given) == method_p,
                   'the column generator `%s` takes the generation method as a parameter (default %s): every call must hand on the caller\'s `%s`; '
                   'this call passes %s' % (name_, U(g_.args.defaults[-1]), method_p, ('`%s`' % U(given)) if given is not None else
                                           'nothing - the column is generated with the default whatever the caller asked for'),
                   construct='method at ' + U(c_)[:60])
            c_.args = c_.args[:2]
            c_.keywords = [k for k in c_.keywords if k.arg != mp_]
    be = walk([s for s in fi.body])
    # ---- the column stores of the main body and of the per-group callbacks ----------------------------------------------
    sites = []        # (container text, column expr, value expr, pc, where, env of the enclosing walk, kind)
    for cont, idx, val, pc, loops, stmt in be.substores:
        c = T(cont)
        if isinstance(idx, ast.Tuple) and len(idx.elts) == 2 and T(idx.elts[0]) == ':' and c.endswith('.loc'):
            sites.append((c[:-4], idx.elts[1], val, pc, stmt, 'frame'))
        elif not isinstance(idx, (ast.Tuple, ast.Slice)):
            sites.append((c, idx, val, pc, stmt, 'frame'))
    callbacks = {}
    for loop_or_top in [fi.node] + [n for n in ast.walk(fi.node) if isinstance(n, (ast.For, ast.While))]:
        for s in getattr(loop_or_top, 'body', []):
            if isinstance(s, ast.FunctionDef) and s.name not in callbacks and s is not loop_or_top:
                callbacks[s.name] = s
    # which nested functions are generators (called for values) and which are per-group callbacks (passed to apply)
    applied = {}
    everything = list(be.env.values()) + [c for _, c, _, _ in be.calls] + [v for l in be.loops_done for v in l[2].values()] + \
        [v for _, v, _ in be.assign_log]
    for v in everything:
        for n in ast.walk(v):
            if isinstance(n, ast.Call) and isinstance(n.func, ast.Attribute) and n.func.attr == 'apply' and len(n.args) == 1 \
                    and isinstance(n.args[0], ast.Name) and n.args[0].id in callbacks:
                applied[n.args[0].id] = n
    group_sites = []
    for name, call in applied.items():
        cb = callbacks[name]
        g = cb.args.args[0].arg if cb.args.args else None
        sub = walk(cb.body)
        for cont, idx, val, pc, loops, stmt in sub.substores:
            if T(cont) == g and not isinstance(idx, (ast.Tuple, ast.Slice)):
                group_sites.append((g, idx, val, pc, stmt, call, sub))
        ret = sub.env.get('__ret__')
        ctx.ob('site-pairing', fi, cb, ret is not None and T(ret) == g,
               'the per-group callback must hand back the group it filled; returns `%s`' % (U(ret) if ret is not None else None),
               construct='result of the per-group callback')
    if len(sites) + len(group_sites) < 2:
        raise AnalysisError('synthetic_data: column stores not found')

    # ---- the generator ------------------------------------------------------------------------------------------------
    gen_names = set()
    for cont, col, val, pc, stmt, kind in sites:
        if isinstance(val, ast.Call) and isinstance(val.func, ast.Name) and val.func.id in gens:
            gen_names.add(val.func.id)
    for g, col, val, pc, stmt, call, sub in group_sites:
        if isinstance(val, ast.Call) and isinstance(val.func, ast.Name) and val.func.id in gens:
            gen_names.add(val.func.id)
    if len(gen_names) != 1:
        raise AnalysisError('synthetic_data: expected every column to be produced by one generator function; found %s' % sorted(gen_names))
    G = gens[gen_names.pop()]
    gparams = [a.arg for a in G.args.args]
    if G.name in lifted and len(gparams) == 3:
        counts, rows = gparams[:2]
        check_generator(ctx, fi, G, counts, rows, gparams[2])
    else:
        if len(gparams) != 2:
            raise AnalysisError('synthetic_data: generator `%s` does not take (counts, rows)' % G.name)
        counts, rows = gparams
        check_generator(ctx, fi, G, counts, rows, method_p)

    # ---- rows-default ----------------------------------------------------------------------------------------------------------
    total_val = None
    for cont, col, val, pc, stmt, kind in sites:
        if not pc and not any(True for _ in []):
            total_val = val.args[1] if isinstance(val, ast.Call) and len(val.args) == 2 else None
            break
    want = set()
    for whole in ('int(self.total)', 'int(np.floor(self.total))', 'int(math.floor(self.total))', 'math.floor(self.total)', 'int(self.total//1)'):
        want |= {'%sif%sisNoneelse%s' % (whole, rows_p, rows_p), '%sif%sisnotNoneelse%s' % (rows_p, rows_p, whole)}
    ctx.ob('rows-default', fi, fi.node, total_val is not None and T(total_val) in want,
           'the number of records is int(self.total) unless a row count is given; the first column is asked for `%s` values'
           % (U(total_val) if total_val is not None else None), construct='number of rows')

    # ---- site pairing --------------------------------------------------------------------------------------------------------------
    n_sites = 0
    for cont, col, val, pc, stmt, kind in sites:
        if not (isinstance(val, ast.Call) and isinstance(val.func, ast.Name) and val.func.id == G.name and len(val.args) == 2):
            raise AnalysisError('synthetic_data: column `%s` is not filled by the generator: `%s`' % (U(col), U(val)[:80]))
        n_sites += 1
        c_arg, r_arg = val.args
        ok_counts, axes = marginal_axes(c_arg)
        ok = ok_counts and axes is not None and axes[-1] == T(col) and (len(axes) == 1 or all_empty_before(axes, pc))
        ctx.ob('site-pairing', fi, stmt, ok,
               'column `%s` must be filled from the un-flattened marginal whose last (here: only) axis is that column; count vector `%s`'
               % (U(col), U(c_arg)[:120]), construct='counts at ' + U(stmt)[:60])
        okr = T(r_arg) in (T(total_val) if total_val is not None else '', '%s.shape[0]' % cont, 'len(%s)' % cont, 'len(%s.index)' % cont)
        ctx.ob('site-pairing', fi, stmt, okr, 'as many values as the frame has rows must be requested; requested `%s`' % U(r_arg)[:80],
               construct='rows at ' + U(stmt)[:60])
    for g, col, val, pc, stmt, call, sub in group_sites:
        if not (isinstance(val, ast.Call) and isinstance(val.func, ast.Name) and val.func.id == G.name and len(val.args) == 2):
            raise AnalysisError('synthetic_data: group column `%s` is not filled by the generator: `%s`' % (U(col), U(val)[:80]))
        n_sites += 1
        c_arg, r_arg = val.args
        # counts = MARG[group.name] where MARG is a name of the enclosing loop: resolve it there
        ok = False
        detail = U(c_arg)[:120]
        keys = groupby_keys(call)
        flat = flat_row_lookup(c_arg, g, be)
        if flat is not None:
            okf, whyf, c_arg = flat
            ctx.ob('site-pairing', fi, stmt, okf,
                   'the conditional table is laid out as one row per parent configuration and the row is found by <key, strides>: the strides must be '
                   'the row-major strides of the leading axes (stride_i = product of the sizes after i); %s' % whyf, construct='row index at ' + U(stmt)[:60])
        if isinstance(c_arg, ast.Subscript) and T(c_arg.slice) == g + '.name' and isinstance(c_arg.value, ast.Name):
            outer = be.env.get(c_arg.value.id)
            for lp, entry, body_env, pc_ in be.loops_done:
                if c_arg.value.id in body_env:
                    outer = body_env[c_arg.value.id]
            if outer is not None:
                okc, axes = marginal_axes(outer)
                detail = '%s[%s.name] with %s = %s, grouped by %s' % (c_arg.value.id, g, c_arg.value.id, U(outer)[:100], keys)
                ok = okc and axes is not None and keys is not None and axes == ('*' + keys, T(col))
        ctx.ob('site-pairing', fi, stmt, ok,
               'a group is filled from the marginal over (group keys..., column) indexed by the group\'s key: the keys of the groupby, '
               'in order, must be the leading axes and the column the last one; got %s' % detail, construct='counts at ' + U(stmt)[:60])
        okr = T(r_arg) in ('%s.shape[0]' % g, 'len(%s)' % g, 'len(%s.index)' % g)
        ctx.ob('site-pairing', fi, stmt, okr, 'as many values as the group has rows must be requested; requested `%s`' % U(r_arg)[:80],
               construct='rows at ' + U(stmt)[:60])
    ctx.floor('generator call sites', n_sites, 3)
    check_private_counts(ctx, fi, G, counts, sites, group_sites, be)
    check_model_unchanged(ctx, fi)
    from ._generic import seeded_generator_scope
    seeded_generator_scope(ctx, ctx.repo.func(GM, 'GraphicalModel.synthetic_data'), 'sampling-independence')
    check_conditioning(ctx, fi, be)
    check_order_complete(ctx)


def check_order_complete(ctx):
    """synthetic_data generates one column per entry of self.elimination_order: the order must list every attribute of the domain.  The
    greedy search moves exactly one attribute from its work list to the order per round, for as many rounds as there are attributes; an
    early exit is complete only if it first moves the WHOLE remaining work list."""
    JT = 'src/mbi/junction_tree.py'
    fi = ctx.repo.nfunc(JT, 'JunctionTree._greedy_order')
    ctx.analysed(fi)
    loops = []
    for lp in [s_ for s_ in fi.body if isinstance(s_, (ast.For, ast.While))]:
        app = [s_ for s_ in lp.body if isinstance(s_, ast.Expr) and isinstance(s_.value, ast.Call) and isinstance(s_.value.func, ast.Attribute)
               and s_.value.func.attr == 'append' and isinstance(s_.value.func.value, ast.Name) and len(s_.value.args) == 1]
        rem = [s_ for s_ in lp.body if isinstance(s_, ast.Expr) and isinstance(s_.value, ast.Call) and isinstance(s_.value.func, ast.Attribute)
               and s_.value.func.attr == 'remove' and isinstance(s_.value.func.value, ast.Name) and len(s_.value.args) == 1]
        for a_ in app:
            for r_ in rem:
                if U(a_.value.args[0]) == U(r_.value.args[0]):
                    loops.append((lp, a_.value.func.value.id, r_.value.func.value.id))
    if len(loops) != 1:
        raise AnalysisError('_greedy_order: the round loop (order.append(a); unmarked.remove(a)) was not found')
    lp, ORDER, WORK = loops[0]
    inits = {s_.targets[0].id: s_.value for s_ in fi.body if isinstance(s_, ast.Assign) and len(s_.targets) == 1 and isinstance(s_.targets[0], ast.Name)}
    for s_ in fi.body:
        if isinstance(s_, ast.Assign) and len(s_.targets) == 1 and isinstance(s_.targets[0], ast.Tuple) and isinstance(s_.value, ast.Tuple):
            for t_, v_ in zip(s_.targets[0].elts, s_.value.elts):
                if isinstance(t_, ast.Name):
                    inits[t_.id] = v_
    dom = [k for k, v in inits.items() if T(v) == 'self.domain'] + ['self.domain']
    work0 = T(inits[WORK]) if WORK in inits else ''
    FULL = ['list(%s.attrs)' % d for d in dom] + ['list(%s)' % d for d in dom] + ['[*%s.attrs]' % d for d in dom]
    full = work0 in FULL
    if not full:
        # a copy of a list the constructor keeps: `self.X = list(domain.attrs)` stored once, in __init__
        import re
        m_ = re.fullmatch(r'(?:list|tuple)\(self\.(\w+)\)|self\.(\w+)\[:\]|self\.(\w+)\.copy\(\)', work0)
        init_ = ctx.repo.nfunc(JT, 'JunctionTree.__init__')
        if m_:
            attr = next(g for g in m_.groups() if g)
            stores = [(f_, a_) for q_, f_ in fi.module.funcs.items() if f_.cls is fi.cls for a_ in ast.walk(f_.node)
                      if isinstance(a_, (ast.Assign, ast.AugAssign)) and any(T(t_) == 'self.' + attr for t_ in (a_.targets if isinstance(a_, ast.Assign) else [a_.target]))]
            dparam = [p_ for p_ in init_.params if any(isinstance(a_, ast.Assign) and T(a_.targets[0]) == 'self.domain' and T(a_.value) == p_
                                                       for a_ in init_.body)]
            if len(stores) == 1 and stores[0][0].name == '__init__' and isinstance(stores[0][1], ast.Assign):
                v_ = T(stores[0][1].value)
                full = v_ in FULL + ['list(%s.attrs)' % d for d in dparam] + ['list(%s)' % d for d in dparam]
        if not full and re.fullmatch(r'self\.\w+', work0) and not work0.startswith('self.domain'):
            ctx.ob('order-complete', fi, lp, False,
                   'the work list `%s` IS the list `%s` stored on the object (no copy): the rounds remove its entries, so the first run of the search '
                   'empties it and every later run on the same object starts with no attributes and returns an empty order' % (WORK, work0),
                   construct='work list of the greedy search')
            return
        if not full:
            raise AnalysisError('_greedy_order: the work list starts as `%s`, which is in no recognised form' % work0)
    if isinstance(lp, ast.For):
        trips = T(lp.iter) in ['range(len(%s))' % d for d in dom] + ['range(len(%s.attrs))' % d for d in dom] + ['range(len(%s))' % WORK]
    else:
        trips = T(lp.test) in (WORK, 'len(%s)>0' % WORK, 'len(%s)!=0' % WORK, 'len(%s)' % WORK, '0<len(%s)' % WORK)
    ctx.ob('order-complete', fi, lp, full and trips,
           'the greedy search starts from all attributes of the domain (`%s = %s`) and runs one round per attribute (`%s`), each round moving one '
           'attribute to the order' % (WORK, work0, T(lp.iter) if isinstance(lp, ast.For) else T(lp.test)), construct='rounds of the greedy search')

    def exits(block, guards):
        for i, s_ in enumerate(block):
            if isinstance(s_, (ast.Break, ast.Return)):
                moved = None
                for p_ in block[:i]:
                    if isinstance(p_, ast.Expr) and isinstance(p_.value, ast.Call) and isinstance(p_.value.func, ast.Attribute) \
                            and p_.value.func.attr == 'extend' and T(p_.value.func.value) == ORDER and len(p_.value.args) == 1:
                        moved = p_.value.args[0]
                    if isinstance(p_, ast.AugAssign) and isinstance(p_.op, ast.Add) and T(p_.target) == ORDER:
                        moved = p_.value
                empty = any(T(g_) in ('not' + WORK, 'len(%s)==0' % WORK, 'not%s' % WORK) for g_ in guards)
                if moved is not None:
                    m_ = moved
                    while isinstance(m_, ast.Call) and T(m_.func) in ('list', 'tuple') and len(m_.args) == 1:
                        m_ = m_.args[0]
                    # a local that is a plain filter of the work list
                    if isinstance(m_, ast.Name) and m_.id != WORK:
                        defs_ = [x.value for x in block[:i] if isinstance(x, ast.Assign) and len(x.targets) == 1 and T(x.targets[0]) == m_.id]
                        if len(defs_) == 1:
                            m_ = defs_[0]
                    whole = isinstance(m_, ast.Name) and m_.id == WORK
                    part = isinstance(m_, (ast.ListComp, ast.GeneratorExp)) and T(m_.generators[0].iter) == WORK and bool(m_.generators[0].ifs)
                    if not whole and not part:
                        raise AnalysisError('_greedy_order: early exit after moving `%s`, which is in no recognised form' % U(moved)[:60])
                    ctx.ob('order-complete', fi, s_, whole,
                           'the search stops early after moving `%s` to the order: %s' % (U(moved)[:70], 'the whole remaining work list' if whole else
                           'only the attributes that pass the filter - the others are in no elimination order, and synthetic_data never generates their columns'),
                           construct='early exit of the greedy search')
                elif not empty and pruned_exit(ctx, fi, lp, block, i, guards, WORK) is not None:
                    okp, whyp = pruned_exit(ctx, fi, lp, block, i, guards, WORK)
                    ctx.ob('order-complete', fi, s_, okp, 'a candidate order may be abandoned once it cannot beat a bound handed in by the caller: ' + whyp,
                           construct='early exit of the greedy search')
                else:
                    ctx.ob('order-complete', fi, s_, empty,
                           'the search stops early %s' % ('when no attribute is left' if empty else 'although attributes may be left in `%s`: they are in no '
                                                         'elimination order, and synthetic_data never generates their columns' % WORK),
                           construct='early exit of the greedy search')
            elif isinstance(s_, ast.If):
                exits(s_.body, guards + [s_.test])
                exits(s_.orelse, guards)
            elif isinstance(s_, (ast.With, ast.Try)):
                exits(s_.body, guards)
    exits(lp.body, [])


def pruned_exit(ctx, fi, lp, block, i, guards, WORK):
    """`if B is not None and COST >= B: break` with B an optional parameter (default None) and COST the accumulated cost the function returns next
    to the order: sound when (a) the test reads the cost AFTER this round's cost was added - what is returned is then >= B - and (b) every caller
    that hands a bound in accepts the result only under a STRICT `cost < bound` test against that very bound.  -> (ok, why) or None (another shape)"""
    defaults = fi.defaults()
    gs = []
    for g in guards:
        gs.extend(g.values if isinstance(g, ast.BoolOp) and isinstance(g.op, ast.And) else [g])
    B = next((T(g.left) for g in gs if isinstance(g, ast.Compare) and len(g.ops) == 1 and isinstance(g.ops[0], ast.IsNot) and T(g.comparators[0]) == 'None'
              and T(g.left) in fi.params and isinstance(defaults.get(T(g.left)), ast.Constant) and defaults[T(g.left)].value is None), None)
    if B is None:
        return None
    rets = [r for r in ast.walk(fi.node) if isinstance(r, ast.Return) and isinstance(r.value, ast.Tuple) and len(r.value.elts) == 2]
    if not rets:
        return None
    COST = T(rets[-1].value.elts[1])
    cmp_ = [g for g in gs if isinstance(g, ast.Compare) and len(g.ops) == 1 and isinstance(g.ops[0], (ast.GtE, ast.Gt)) and T(g.comparators[0]) == B]
    if len(cmp_) != 1:
        return None
    lhs = T(cmp_[0].left)
    # position of the guarded exit among the statements of the round
    top = [st for st in lp.body if any(x is block[i] for x in ast.walk(st))]
    k = lp.body.index(top[0]) if top else -1
    added_before = any(isinstance(st, ast.AugAssign) and T(st.target) == COST and isinstance(st.op, ast.Add) for st in lp.body[:k])
    if lhs != COST:
        return False, ('the test reads `%s`, not the accumulated cost `%s` that is returned: the abandoned candidate comes back with a cost BELOW the bound '
                       'and a truncated order, which a caller comparing costs accepts' % (U(cmp_[0].left), COST))
    if not added_before:
        return False, 'the test runs before this round\'s cost is added to `%s`: the candidate is abandoned although the returned cost may still be below the bound' % COST
    # callers that pass the bound
    pos = fi.params.index(B) - 1
    for q_, f_ in fi.module.funcs.items():
        for c in ast.walk(f_.node):
            if isinstance(c, ast.Call) and T(c.func) == 'self.' + fi.name:
                given = c.args[pos] if len(c.args) > pos else next((kw.value for kw in c.keywords if kw.arg == B), None)
                if given is None or T(given) == 'None':
                    continue
                tgt = [a.targets[0].id for a in ast.walk(f_.node) if isinstance(a, ast.Assign) and a.value is c and len(a.targets) == 1 and isinstance(a.targets[0], ast.Name)]
                if len(tgt) != 1:
                    raise AnalysisError('%s: result of a bounded search in `%s` is not bound to a name' % (fi.qualname, q_))
                strict = any(isinstance(t_, ast.If) and T(t_.test) in ('%s[1]<%s' % (tgt[0], T(given)), '%s>%s[1]' % (T(given), tgt[0])) for t_ in ast.walk(f_.node))
                reads = [n for n in ast.walk(f_.node) if isinstance(n, ast.Name) and n.id == tgt[0] and isinstance(n.ctx, ast.Load)]
                guarded = all(any(isinstance(t_, ast.If) and T(t_.test) in ('%s[1]<%s' % (tgt[0], T(given)), '%s>%s[1]' % (T(given), tgt[0])) and
                                  any(x is n for b_ in t_.body for x in ast.walk(b_)) or any(x is n for x in ast.walk(t_.test)) for t_ in ast.walk(f_.node) if isinstance(t_, ast.If))
                              for n in reads)
                if not (strict and guarded):
                    return False, 'the caller `%s` uses the result of a bounded search without the strict test `%s[1] < %s`' % (q_, tgt[0], U(given))
    return True, 'the returned cost is then at least the bound, and every caller that passes a bound accepts a candidate only when its cost is strictly below it'


def strip_order(t):
    """text of a sequence expression with the wrappers removed that only fix the order of its members (same members, same length)"""
    import re
    t = t.replace(' ', '')
    while True:
        m = re.fullmatch(r'(?:self\.domain\.canonical|sorted|list|tuple)\((.*)\)', t)
        if not m or m.group(1).count('(') != m.group(1).count(')'):
            return t
        t = m.group(1)


def all_empty_before(axes, pc):
    """a site whose marginal has leading axes `*P` is fine when it only runs with P empty (`len(P) >= 1` false)"""
    if not (len(axes) == 2 and axes[0].startswith('*')):
        return False
    P = axes[0][1:]
    for c, pol in pc:
        neg = False
        while isinstance(c, ast.UnaryOp) and isinstance(c.op, ast.Not):
            c, neg = c.operand, not neg
        truth = pol != neg
        if isinstance(c, ast.Compare) and len(c.ops) == 1 and isinstance(c.left, ast.Call) and U(c.left.func) == 'len' \
                and len(c.left.args) == 1 and strip_order(T(c.left.args[0])) == strip_order(P) and isinstance(c.comparators[0], ast.Constant):
            k, op = c.comparators[0].value, type(c.ops[0])
            nonempty = (op is ast.GtE and k == 1) or (op is ast.Gt and k == 0) or (op is ast.NotEq and k == 0)
            empty = (op is ast.Eq and k == 0) or (op is ast.Lt and k == 1)
            if (nonempty and not truth) or (empty and truth):
                return True
        if strip_order(T(c)) == strip_order(P) and not truth:
            return True
    return False


def sym_tuple(e, rank, env):
    """symbolic value of a shape / stride expression for a table of `rank` leading axes plus one last axis: a tuple of monomials
    (each a sorted tuple of size symbols, () = 1); None if outside the dialect"""
    def ev(x):
        if isinstance(x, ast.Name) and x.id in env:
            return ev(env[x.id])
        if isinstance(x, ast.Attribute) and x.attr == 'shape':
            return tuple((('n%d' % i),) for i in range(rank + 1))
        if isinstance(x, ast.Constant) and isinstance(x.value, int) and x.value == 1:
            return ('scalar', ())
        if isinstance(x, (ast.Tuple, ast.List)):
            out = []
            for el in x.elts:
                v = ev(el)
                if v is None:
                    return None
                if isinstance(v, tuple) and v and v[0] == 'scalar':
                    out.append(v[1])
                else:
                    return None
            return tuple(out)
        if isinstance(x, ast.BinOp) and isinstance(x.op, ast.Add):
            a, b = ev(x.left), ev(x.right)
            if a is None or b is None or (a and a[0] == 'scalar') or (b and b[0] == 'scalar'):
                return None
            return tuple(a) + tuple(b)
        if isinstance(x, ast.Subscript) and isinstance(x.slice, ast.Slice):
            v = ev(x.value)
            if v is None or (v and v[0] == 'scalar'):
                return None

            def c(n):
                if n is None:
                    return None
                if isinstance(n, ast.Constant) and isinstance(n.value, int):
                    return n.value
                if isinstance(n, ast.UnaryOp) and isinstance(n.op, ast.USub) and isinstance(n.operand, ast.Constant):
                    return -n.operand.value
                raise ValueError
            try:
                return tuple(v[slice(c(x.slice.lower), c(x.slice.upper), c(x.slice.step))])
            except ValueError:
                return None
        if isinstance(x, ast.Call):
            f = U(x.func).split('.')[-1]
            if f in ('tuple', 'list', 'array', 'asarray') and len(x.args) == 1:
                return ev(x.args[0])
            if f == 'cumprod' and len(x.args) == 1:
                v = ev(x.args[0])
                if v is None or (v and v[0] == 'scalar'):
                    return None
                out, acc = [], ()
                for m_ in v:
                    acc = tuple(sorted(acc + tuple(m_)))
                    out.append(acc)
                return tuple(out)
        return None
    return ev(e)


def flat_row_lookup(c_arg, g, be):
    """counts = TABLE[<key . STRIDES>] with TABLE = MARG.reshape(-1, MARG.shape[-1])  ->  (strides are row-major?, why, MARG[g.name]) or None"""
    env = {}
    for lp, entry, body_env, pc_ in be.loops_done:
        env.update(body_env)
    for k, v in be.env.items():
        env.setdefault(k, v)
    if not isinstance(c_arg, ast.Subscript):
        return None
    tab = c_arg.value
    tab_e = env.get(tab.id) if isinstance(tab, ast.Name) else tab
    idx = c_arg.slice
    if isinstance(idx, ast.Name) and idx.id in env:
        idx = env[idx.id]
    if not (isinstance(idx, ast.Call) and U(idx.func).split('.')[-1] == 'dot' and len(idx.args) == 2):
        return None
    key, strides = idx.args
    if g + '.name' not in T(key):
        key, strides = strides, key
    if g + '.name' not in T(key):
        return None
    # the table: a 2-d reshape of the marginal that keeps the last axis
    t = tab_e
    if not (isinstance(t, ast.Call) and isinstance(t.func, ast.Attribute) and t.func.attr == 'reshape' and len(t.args) == 2
            and T(t.args[0]) == '-1'):
        raise AnalysisError('synthetic_data: row lookup into `%s`, which is not `<marginal>.reshape(-1, <last size>)`' % U(tab_e)[:80] if tab_e is not None else 'synthetic_data: unknown table')
    src = t.func.value
    while isinstance(src, ast.Call) and U(src.func).split('.')[-1] in ('ascontiguousarray', 'array', 'asarray', 'copy') and src.args:
        src = src.args[0]
    last_ok = T(t.args[1]).replace(' ', '') in ('%s.shape[-1]' % T(src), )
    marg_name = None
    for k, v in env.items():
        if T(v) == T(src) and not k.startswith('__'):
            marg_name = k
    if isinstance(src, ast.Name):
        marg_name = src.id
    if marg_name is None or not last_ok:
        raise AnalysisError('synthetic_data: the flattened table `%s` cannot be related to the marginal' % U(tab_e)[:80])
    bad = None
    for rank in (1, 2, 3, 4):
        got = sym_tuple(strides, rank, env)
        if got is None:
            raise AnalysisError('synthetic_data: stride expression `%s` is outside the symbolic dialect' % U(strides)[:80])
        want = tuple(tuple('n%d' % j for j in range(i + 1, rank)) for i in range(rank))
        if tuple(tuple(m_) for m_ in got) != want:
            bad = (rank, got, want)
            break
    fmt = lambda tup: '(' + ', '.join('*'.join(m_) if m_ else '1' for m_ in tup) + ')'
    why = 'they are' if bad is None else 'for %d leading axes of sizes n0..n%d the code computes %s, row-major is %s: rows of other parent configurations ' \
        '(or beyond the table) are read whenever the parents have different sizes' % (bad[0], bad[0] - 1, fmt(bad[1]), fmt(bad[2]))
    equiv = ast.Subscript(value=ast.Name(id=marg_name, ctx=ast.Load()), slice=ast.parse(g + '.name', mode='eval').body, ctx=ast.Load())
    return bad is None, why, equiv


def marginal_axes(e):
    """e = self.project(AXES).datavector(flatten=False)  ->  (True, tuple of axis texts; '*X' for a spliced tuple X)"""
    if not (isinstance(e, ast.Call) and isinstance(e.func, ast.Attribute) and e.func.attr == 'datavector'):
        return False, None
    fl = kwarg(e, 'flatten', 0)
    if not (fl is not None and isinstance(fl, ast.Constant) and fl.value is False):
        return False, None
    p = e.func.value
    if not (isinstance(p, ast.Call) and U(p.func) == 'self.project' and len(p.args) == 1):
        return False, None
    a = p.args[0]
    if isinstance(a, (ast.List, ast.Tuple)):
        return True, tuple(T(x) for x in a.elts)
    if isinstance(a, ast.BinOp) and isinstance(a.op, ast.Add) and isinstance(a.right, (ast.Tuple, ast.List)) and len(a.right.elts) == 1:
        return True, ('*' + T(strip_seq(a.left)), T(a.right.elts[0]))
    return True, None


def strip_seq(k):
    while isinstance(k, ast.Call) and U(k.func) in ('list', 'tuple') and len(k.args) == 1:
        k = k.args[0]
    return k


def size_of(e, allowed):
    """e is `X.size` / `len(X)` / `X.shape[0]` for an X whose text is in allowed"""
    if isinstance(e, ast.Attribute) and e.attr == 'size':
        return T(e.value) in allowed
    if isinstance(e, ast.Call) and U(e.func) == 'len' and len(e.args) == 1:
        return T(e.args[0]) in allowed
    if isinstance(e, ast.Subscript) and isinstance(e.value, ast.Attribute) and e.value.attr == 'shape' and T(e.slice) == '0':
        return T(e.value.value) in allowed
    return False


def groupby_keys(apply_call):
    g = apply_call.func.value
    if isinstance(g, ast.Call) and isinstance(g.func, ast.Attribute) and g.func.attr == 'groupby' and g.args:
        return T(strip_seq(g.args[0]))
    return None


def scatter_adds(stmts):
    """np.add.at(A, I, V)  ->  A[I] += V.  The unbuffered form counts a repeated index as often as it occurs, the buffered one once: the two
    agree exactly when the indices are distinct - which the rule on the draw (replace=False) demands anyway."""
    from ..srcmodel import clone
    stmts = clone(stmts)
    for owner in [x for st in stmts for x in ast.walk(st)] + [None]:
        for fld in ('body', 'orelse'):
            blk = stmts if owner is None else getattr(owner, fld, None)
            if owner is None and fld == 'orelse':
                continue
            if not isinstance(blk, list):
                continue
            for k, x in enumerate(blk):
                if isinstance(x, ast.Expr) and isinstance(x.value, ast.Call) and U(x.value.func) in ('np.add.at', 'numpy.add.at') and len(x.value.args) == 3:
                    A, I_, V = x.value.args
                    new = ast.AugAssign(target=ast.Subscript(value=A, slice=I_, ctx=ast.Store()), op=ast.Add(), value=V)
                    blk[k] = ast.fix_missing_locations(ast.copy_location(new, x))
    return stmts


def check_generator(ctx, fi, G, counts, rows, method_p):
    be = walk(scatter_adds(G.body))
    R = be.env.get('__ret__')
    if R is None:
        raise AnalysisError('synthetic_data: the column generator returns nothing')
    sample = rnd = None
    for e, path in leaves_of(R):
        modes = [(c, pol) for c, pol in path if method_p in c]
        is_sample = any((c in ("%s=='sample'" % method_p,) and pol) or (c in ("%s=='round'" % method_p, "%s!='sample'" % method_p) and not pol)
                        for c, pol in modes)
        if is_sample:
            sample = e
        else:
            rnd = e
    if sample is None or rnd is None:
        raise AnalysisError('synthetic_data: the generator\'s sampling / rounding results were not both found: `%s`' % U(R)[:120])
    # ---- sampling mode ---------------------------------------------------------------------------------------------------------
    ok = False
    if is_choice(sample):
        a = call_args(sample, ['a', 'size', 'replace', 'p'])
        okp = 'p' in a and prop_to(a['p'], counts)
        ok = 'a' in a and size_of(a['a'], (counts,)) and T(a.get('size')) == rows and okp and \
            ('replace' not in a or (isinstance(a['replace'], ast.Constant) and a['replace'].value is True))
    note = ''
    if not ok:
        # second construction of n i.i.d. draws: multinomial cell counts laid out in a uniformly random order.  Without the random order the
        # values come out SORTED: their position then depends on the value, i.e. on nothing but the rank inside the frame / group, and the
        # column is no longer independent of the columns generated earlier given its parents.
        inner, permuted = sample, False
        if isinstance(inner, ast.Call) and U(inner.func).split('.')[-1] == 'permutation' and len(inner.args) == 1 and not inner.keywords:
            inner, permuted = inner.args[0], True
        if isinstance(inner, ast.Call) and U(inner.func).split('.')[-1] == 'repeat' and len(inner.args) == 2 and not inner.keywords:
            vals, reps = inner.args
            okv = isinstance(vals, ast.Call) and U(vals.func).split('.')[-1] == 'arange' and len(vals.args) == 1 and size_of(vals.args[0], (counts,))
            okm = isinstance(reps, ast.Call) and U(reps.func).split('.')[-1] == 'multinomial' and len(reps.args) == 2 and not reps.keywords \
                and T(reps.args[0]) == rows and prop_to(reps.args[1], counts)
            if okv and okm:
                ok = permuted
                if not permuted:
                    note = ' - multinomial cell counts repeated in cell order: the values are sorted, not in random order'
    ctx.ob('count-conservation', fi, G, ok,
           'sampling mode must draw exactly `%s` values from range(len(counts)) with probability proportional to the counts '
           '(zero-count cells get probability 0), in random order; draws `%s`%s' % (rows, U(sample)[:140], note), construct='sampling mode of the column generator')
    # ---- rounding mode -------------------------------------------------------------------------------------------------------------
    if isinstance(rnd, ast.Call) and U(rnd.func) in ('np.searchsorted', 'numpy.searchsorted') and len(rnd.args) == 2 and isinstance(rnd.args[0], ast.Call) \
            and U(rnd.args[0].func) in ('np.cumsum', 'numpy.cumsum') and len(rnd.args[0].args) == 1:
        # the shuffled repeat(arange(n), I) without materialising it: position s of a random permutation of range(sum I) holds the value v with
        # cum[v-1] <= s < cum[v], which is searchsorted(cumsum(I), s, side='right')
        slots = rnd.args[1]
        if not (isinstance(slots, ast.Call) and U(slots.func).split('.')[-1] == 'permutation' and len(slots.args) == 1 and T(slots.args[0]) == rows):
            raise AnalysisError('synthetic_data: rounding mode buckets `%s`, which is not a random permutation of range(%s)' % (U(slots)[:60], rows))
        side = next((k.value for k in rnd.keywords if k.arg == 'side'), None)
        ok_side = isinstance(side, ast.Constant) and side.value == 'right'
        ctx.ob('count-conservation', fi, G, ok_side,
               'rounding mode: position s holds the value v with cumsum[v-1] <= s < cumsum[v], i.e. searchsorted(cumsum, s, side=\'right\'); with the '
               'default side=\'left\' position cumsum[v] - the first of cell v+1 - still counts for cell v, and position 0 goes to cell 0 even when its '
               'count is 0: every cell boundary is off by one record; the source passes side=%s' % (U(side) if side is not None else '<default \'left\'>'),
               construct='bucketing of the permuted positions')
        I_ = rnd.args[0].args[0]
        rnd = ast.parse('np.repeat(np.arange(%s.size), 0)' % counts, mode='eval').body
        rnd.args[1] = I_
    if not (isinstance(rnd, ast.Call) and U(rnd.func) in ('np.repeat', 'numpy.repeat') and len(rnd.args) == 2):
        raise AnalysisError('synthetic_data: rounding mode does not return repeat(arange(n), integer counts): `%s`' % U(rnd)[:120])
    rng, I = rnd.args
    # I = modf(C)[1].astype(int)
    C = None
    Ibase = I
    if isinstance(I, ast.Call) and isinstance(I.func, ast.Attribute) and I.func.attr == 'astype' and T(I.args[0]) == 'int':
        m = I.func.value
        if isinstance(m, ast.Subscript) and isinstance(m.value, ast.Call) and U(m.value.func) in ('np.modf', 'numpy.modf') \
                and isinstance(m.slice, ast.Constant) and m.slice.value == 1:
            C = m.value.args[0]
    if C is None:
        raise AnalysisError('synthetic_data: the repeated counts are not the integer parts of the scaled counts: `%s`' % U(I)[:120])
    scaled = False
    try:
        cv = counts_alg(C, counts)
        scaled = cv.eq(sym(counts) * sym(rows) / sym('S'))
    except AnalysisError:
        scaled = False
    ctx.ob('count-conservation', fi, G, scaled,
           'before rounding, the counts must be scaled to sum to the number of values requested (counts * %s / counts.sum()); '
           'rounds `%s`' % (rows, U(C)[:100]), construct='scaling in the column generator')
    n_ok = isinstance(rng, ast.Call) and U(rng.func) in ('np.arange', 'numpy.arange', 'range') and len(rng.args) == 1 and size_of(rng.args[0], (counts, T(C)))
    ups = [ev for ev in be.events if ev.kind == 'update' and T(getattr(ev, 'base', None)) == T(Ibase)]
    others = [ev for ev in be.events if ev not in ups]
    ok = False
    detail = '%d in-place update(s) of the integer parts' % len(ups)
    if len(ups) == 1:
        idx, op, rhs = ups[0].value
        extra = '%s-%s.sum()' % (rows, T(Ibase))
        F = 'np.modf(%s)[0]' % T(C)
        okc = False
        SUP = 'np.flatnonzero(%s)' % F
        if isinstance(idx, ast.Subscript) and T(idx.value) == SUP and is_choice(idx.slice):
            # the draw restricted to the cells WITH a fractional part, mapped back to cell numbers: S = flatnonzero(F); S[choice(S.size, extra, False, F[S] / F.sum())]
            a = call_args(idx.slice, ['a', 'size', 'replace', 'p'])
            okc = 'a' in a and size_of(a['a'], (SUP,)) and T(a.get('size')) == extra and \
                isinstance(a.get('replace'), ast.Constant) and a['replace'].value is False and \
                T(a.get('p')) in ('%s[%s]/%s.sum()' % (F, SUP, F), '%s[%s]/%s[%s].sum()' % (F, SUP, F, SUP), '%s[%s]/np.sum(%s)' % (F, SUP, F))
        elif is_choice(idx) and size_of(call_args(idx, ['a', 'size', 'replace', 'p']).get('a'), (SUP,)):
            detail_extra = ' - the draw is over POSITIONS within the cells that have a fractional part (`%s`), which are used as cell numbers without mapping them back' % SUP
            okc = False
            ctx.note('synthetic_data: ' + detail_extra)
        elif is_choice(idx):
            a = call_args(idx, ['a', 'size', 'replace', 'p'])
            okc = 'a' in a and size_of(a['a'], (counts, T(C))) and T(a.get('size')) == extra and \
                isinstance(a.get('replace'), ast.Constant) and a['replace'].value is False and \
                T(a.get('p')) in ('%s/%s.sum()' % (F, F), '%s/np.sum(%s)' % (F, F))
        guard = any(T(c) in ('%s>0' % extra, '0<%s' % extra, '%s>=1' % extra) and pol for c, pol in ups[0].pc)
        ok = okc and isinstance(op, ast.Add) and T(rhs) == '1' and guard
        detail = 'cells `%s` get `+= %s` when `%s`' % (U(idx)[:150], U(rhs), ' and '.join(('' if pol else 'not ') + U(c) for c, pol in ups[0].pc))
    ctx.ob('count-conservation', fi, ups[0].stmt if ups else G, ok and n_ok,
           'rounding mode: values = repeat(arange(n), I\') with I\' = integer parts + one unit on exactly `%s - I.sum()` distinct cells drawn '
           'with probability proportional to the fractional parts, so that len(values) == %s and zero-count cells stay empty; %s'
           % (rows, rows, detail), construct='rounding mode of the column generator')
    ctx.ob('support', fi, G, n_ok, 'values range over arange(len(counts)): `%s`' % U(rng), construct='value range of the column generator')


def prop_to(p, counts):
    t = T(p)
    return t in ('%s/%s.sum()' % (counts, counts), '%s/np.sum(%s)' % (counts, counts))


def check_conditioning(ctx, fi, be):
    """proj = tuple(used & union of the cliques containing col); used grows by the column afterwards"""
    loops = [l for l in be.loops_done if isinstance(l[0], ast.For)]
    if not loops:
        raise AnalysisError('synthetic_data: loop over the remaining columns not found')
    loop, entry, body_env, pc = loops[0]
    col = U(loop.target)
    used = None
    for s, c, pc_, lp in be.calls:
        if isinstance(c.func, ast.Attribute) and c.func.attr == 'add' and lp and T(c.args[0]) == col:
            used = U(c.func.value)
    ctx.ob('conditioning', fi, loop, used is not None, 'every generated column must be recorded as generated (`<used>.add(%s)`)' % col,
           construct='bookkeeping of generated columns')
    # the loop generates EVERY remaining column: it walks the whole order except its first entry (generated before the loop)
    it_ = loop.iter
    if isinstance(it_, ast.Subscript) and isinstance(it_.slice, ast.Slice):
        sl = it_.slice
        lo_ok = sl.lower is not None and T(sl.lower) == '1' and sl.step is None
        ctx.ob('conditioning', fi, loop, lo_ok and sl.upper is None,
               'the column loop walks the whole (reversed) elimination order after its first entry: `%s`%s' % (U(it_), '' if sl.upper is None else
               ' stops before the end of the walk - the attribute eliminated first is never generated and its column keeps the placeholder value'),
               construct='columns generated by the loop')
    if used is None:
        return
    # the projection used inside the loop
    P = None
    for k, v in body_env.items():
        okc, axes = marginal_axes(v)
        if okc and axes is not None and len(axes) == 2 and axes[0].startswith('*'):
            P = axes[0][1:]
        elif okc and isinstance(v, ast.Call):
            # (col,) + P : the axis order is judged by site-pairing; the conditioning set is still P
            a = v.func.value.args[0]
            if isinstance(a, ast.BinOp) and isinstance(a.op, ast.Add) and isinstance(a.left, (ast.Tuple, ast.List)) and len(a.left.elts) == 1:
                P = T(strip_seq(a.right))
    if P is None:
        raise AnalysisError('synthetic_data: conditional marginal `self.project(P + (col,))` not found in the column loop')
    import re
    # the conditioning SET: wrappers that only fix the order of its members (domain order, sorted, list / tuple) are looked through here; that the
    # group keys and the axes of the marginal use the SAME sequence is judged by site-pairing
    while True:
        m_w = re.fullmatch(r'(?:self\.domain\.canonical|sorted|list|tuple)\((.*)\)', P.replace(' ', ''))
        if not m_w or m_w.group(1).count('(') != m_w.group(1).count(')'):
            break
        P = m_w.group(1)
    Pn0 = P.replace(' ', '')
    # `self.cliques` IS `self.junction_tree.maximal_cliques()` when the constructor binds both from one tree object (a deterministic walk of
    # an immutable tree) and nothing re-binds either afterwards
    same_list = None
    init_ = ctx.repo.nfunc(GM, 'GraphicalModel.__init__') if ctx.repo.has_func(GM, 'GraphicalModel.__init__') else None
    if init_ is not None:
        tr_ = [U(s_.value) for s_ in ast.walk(init_.node) if isinstance(s_, ast.Assign) and len(s_.targets) == 1 and U(s_.targets[0]) == 'self.junction_tree'
               and isinstance(s_.value, ast.Name)]
        cq_ = [U(s_.value) for s_ in ast.walk(init_.node) if isinstance(s_, ast.Assign) and len(s_.targets) == 1 and U(s_.targets[0]) == 'self.cliques']
        rebinds = [m_ for m_, f_ in ctx.repo.nmethods(GM, 'GraphicalModel').items() if m_ != '__init__' and any(
            isinstance(s_, (ast.Assign, ast.AugAssign)) and any(U(t_) in ('self.cliques', 'self.junction_tree') for t_ in (s_.targets if isinstance(s_, ast.Assign) else [s_.target]))
            for s_ in ast.walk(f_.node))]
        if len(tr_) == 1 and len(cq_) == 1 and cq_[0] == tr_[0] + '.maximal_cliques()' and not rebinds:
            same_list = 'self.junction_tree.maximal_cliques()'
    if same_list:
        Pn0 = Pn0.replace(same_list, 'self.cliques')
        for k_, v_ in list(entry.items()):
            if isinstance(v_, ast.AST) and same_list in U(v_).replace(' ', ''):
                v2_ = clone(v_)
                for n_ in ast.walk(v2_):
                    for fld_, ch_ in ast.iter_fields(n_):
                        if isinstance(ch_, ast.Call) and U(ch_).replace(' ', '') == same_list:
                            setattr(n_, fld_, ast.parse('self.cliques', mode='eval').body)
                entry[k_] = v2_
    # spellings of the same union: set().union(*X) for set.union(*X) (equal whenever X is non-empty - every attribute lies in some clique), a
    # generator for a list comprehension as the starred argument
    Pn0 = Pn0.replace('set().union(*', 'set.union(*')
    mg_ = re.search(r'set\.union\(\*\((\w+)for\1in(.+)if%sin\1\)\)' % re.escape(col), Pn0)
    if mg_:
        Pn0 = Pn0.replace(mg_.group(0), 'set.union(*[%sfor%sin%sif%sin%s])' % (mg_.group(1), mg_.group(1), mg_.group(2), col, mg_.group(1)))
    Pn0 = re.sub(r'(?:tuple|list)\(\((set\((\w+)\)for\2inself\.cliques)\)\)', r'[\1]', Pn0)          # a materialised generator is that list
    if re.search(r'in\(set\((\w+)\)for\1inself\.cliques\)if', Pn0):
        gen_names = [k for k, v in entry.items() if isinstance(v, ast.GeneratorExp)]
        ctx.ob('conditioning', fi, loop, False, 'the clique sets%s are a one-shot generator built before the column loop: the first column consumes it, every later column '
               'finds no clique and is generated independently of the others' % (' `%s`' % gen_names[0] if gen_names else ''), construct='clique sets of the column loop')
        return
    P = Pn0
    # the list of clique sets the union ranges over, read off the (expanded) conditioning set itself - whatever the locals are called
    mm = re.fullmatch(r'(?:%s\.intersection\(|%s&)set\.union\(\*\[(\w+)for\1in(.+)if%sin\1\]\)\)?' % (re.escape(used), re.escape(used), re.escape(col)), Pn0)
    cl_t = 'cliques'
    if mm:
        lst = mm.group(2)
        if re.fullmatch(r'\w+', lst) and entry.get(lst) is not None:
            if isinstance(entry[lst], ast.GeneratorExp):
                ctx.ob('conditioning', fi, loop, False, 'the clique sets `%s = %s` are a one-shot generator built before the column loop: the first column consumes it, '
                       'every later column finds no clique and is generated independently of the others' % (lst, U(entry[lst])[:60]), construct='clique sets of the column loop')
                return
            lst = T(entry[lst]).replace(' ', '')
            mt_ = re.fullmatch(r'(?:tuple|list)\(\((.+)\)\)', lst)
            if mt_:
                lst = '[%s]' % mt_.group(1)          # a materialised generator is that list
        if re.fullmatch(r'\[set\((\w+)\)for\1inself\.cliques\]', lst):
            cl_t = '[set(cl)forclinself.cliques]'
            P = re.sub(r'\[(\w+)for\1in.+if%sin\1\]' % re.escape(col), '[clforclin%sif%sincl]' % (cl_t, col), Pn0)
        else:
            cl_t = lst
    want = {'%s.intersection(set.union(*[clforclin%sif%sincl]))' % (used, cl_t, col),
            '%s&set.union(*[clforclin%sif%sincl])' % (used, cl_t, col)}
    # conditioning on MORE generated columns (all of them) is still exact; fewer is not
    ok = (P.replace(' ', '') in want and cl_t in ('[set(cl)forclinself.cliques]', 'cliques')) or P.replace(' ', '') == used
    Pn = P.replace(' ', '')
    if not ok and (Pn.startswith(used + '&') or Pn.startswith(used + '.intersection(')) and 'set.union(' not in Pn:
        # the generated columns intersected with ONE clique picked by some criterion: whether that clique always contains every generated
        # neighbour of the column is a property of the junction tree, not of this code's shape
        import re
        body_ = Pn[len(used) + 1:] if Pn.startswith(used + '&') else Pn[len(used) + len('.intersection('):-1]
        m_ = re.fullmatch(r'(max|min)\(\[(\w+)for\2in(.+?)if%sin\2\],key=lambda(\w+):(.+)\)' % re.escape(col), body_)
        lst_ = m_.group(3) if m_ else ''
        if m_ and re.fullmatch(r'\w+', lst_) and entry.get(lst_) is not None:
            lst_ = T(entry[lst_]).replace(' ', '')
        if m_ and re.fullmatch(r'\[set\((\w+)\)for\1inself\.cliques\]', lst_):
            how, v_, key = m_.group(1), m_.group(4), m_.group(5)
            overlap = key in ('len(%s&%s)' % (v_, used), 'len(%s&%s)' % (used, v_), 'len(%s.intersection(%s))' % (v_, used),
                              'len(%s.intersection(%s))' % (used, v_))
            remainder = key in ('len(%s-%s)' % (v_, used), 'len(%s.difference(%s))' % (v_, used))
            if how == 'max' and overlap:
                # lemma (perfect elimination order, decided for the constructor by elimination-fill-in): the generated neighbours of the
                # column form a clique with it, so some maximal clique K* contains them all; for any clique K containing the column
                # K & used is a subset of those neighbours, hence |K & used| is maximal exactly when K & used is all of them
                ctx.ob('conditioning', fi, loop, True,
                       'the conditioning set is the generated columns within the clique (containing %s) of LARGEST overlap with the generated '
                       'columns: by the elimination-order lemma that overlap is the full set of generated neighbours' % col, construct='conditioning set')
                ok = None
            elif (how == 'min' and remainder) or (how == 'min' and overlap) or (how == 'max' and remainder):
                ctx.ob('conditioning', fi, loop, False,
                       'the conditioning set is the generated columns within ONE clique chosen by `%s(.., key=%s)`: only the clique of largest '
                       'overlap with the generated columns is guaranteed to contain every generated neighbour of %s; a clique with the fewest '
                       'ungenerated attributes can be a small one that misses some of them, so dependencies are dropped' % (how, key, col),
                       construct='conditioning set')
                ok = None
            else:
                raise AnalysisError('synthetic_data: clique chosen by `%s(.., key=%s)`: not a recognised criterion' % (how, key))
        else:
            ok = False
        if ok is False:
            raise AnalysisError('synthetic_data: the conditioning set `%s` is the generated columns within one chosen clique; whether that clique '
                            'covers every generated neighbour of `%s` is neither confirmed nor refuted by this analysis' % (P[:120], col))
    if ok is not None:
        ctx.ob('conditioning', fi, loop, ok,
           'a column is generated conditionally on the already generated columns sharing a model clique with it: expected '
           'tuple(%s & union of the cliques containing %s); conditions on `%s`' % (used, col, P[:160]), construct='conditioning set')
    init = be.inits.get(used)
    first = None
    for cont, c, val, pc_, lp, stmt in be.substores:
        if not lp and not pc_:
            first = c.elts[1] if isinstance(c, ast.Tuple) and len(c.elts) == 2 else c
            break
    ok = init is not None and first is not None and T(init) in ('{%s}' % T(first), 'set([%s])' % T(first), 'set((%s,))' % T(first))
    ctx.ob('conditioning', fi, loop, ok, 'the set of generated columns starts as exactly the first generated column; starts as `%s`'
           % (U(init) if init is not None else None), construct='initial set of generated columns')


def check_model_unchanged(ctx, fi):
    """generating records reads the model; every in-place site of synthetic_data acts on objects of this call (E2 origin analysis): a
    mutation of the model's own state (its elimination order, cliques, cached marginals) changes what the next call generates"""
    from ..engines.alias import Scope
    GM_ = 'src/mbi/graphical_model.py'
    scope = Scope(ctx.repo, [GM_, 'src/mbi/clique_vector.py', 'src/mbi/factor.py', 'src/mbi/domain.py', 'src/mbi/dataset.py'],
                  {'potentials': 'cv', 'marginals': 'cv'})
    scope.solve()
    summ = scope.summaries.get((GM_, 'GraphicalModel.synthetic_data'))
    if summ is None:
        raise AnalysisError('synthetic_data: no origin summary')
    seen = set()
    n = 0
    for site in summ.sites:
        k = (getattr(site.node, 'lineno', 0), getattr(site.node, 'col_offset', 0), site.what)
        if k in seen:
            continue
        seen.add(k)
        n += 1
        bad = sorted(t for t in site.origins if t.startswith(('S:', 'P:', 'Pe:')) and not t.endswith(':self'))
        # memo tables / their stamps on the model are bookkeeping, judged on their own by the memo engine (memo-key)
        from ..engines import memo as _memo
        info_ = _memo.ClassInfo(ctx.repo, fi.module, 'GraphicalModel')
        bad = [t for t in bad if not (t.startswith('S:') and (_memo.is_table(info_, t[2:]) or t[2:].endswith('_stamp')))]
        ctx.ob('model-unchanged', fi, site.node, not bad,
               '%s acts on %s' % (site.what, 'objects of this call' if not bad else
                                  'the model\'s own state (%s): the next call on the same model generates from the modified state' % ', '.join(bad)))
    ctx.floor('in-place sites in synthetic_data', n, 2)


def check_private_counts(ctx, fi, G, counts, sites, group_sites, be):
    """the generator rescales its count vector IN PLACE; every vector it is handed must therefore be private to this call - an array
    that is (a view of) a cached clique marginal would be rewritten, and the next call would sample from the rescaled table"""
    from ..engines.fresh import Freshness, FRESH
    inplace = [n for n in ast.walk(G) if (isinstance(n, ast.AugAssign) and U(n.target) == counts) or
               (isinstance(n, (ast.Assign, ast.AugAssign)) and isinstance(getattr(n, 'target', None) or n.targets[0], ast.Subscript)
                and U((getattr(n, 'target', None) or n.targets[0]).value) == counts)]
    if not inplace:
        ctx.note('the column generator does not modify its count vector in place: no ownership obligation on its callers')
        return
    F = Freshness(ctx.repo)
    todo = [(stmt, val.args[0]) for cont, col, val, pc, stmt, kind in sites if isinstance(val, ast.Call) and val.args]
    for g, col, val, pc, stmt, call, sub in group_sites:
        c_arg = val.args[0]
        if isinstance(c_arg, ast.Subscript) and isinstance(c_arg.value, ast.Name):
            outer = be.env.get(c_arg.value.id)
            for lp, entry, body_env, pc_ in be.loops_done:
                if c_arg.value.id in body_env:
                    outer = body_env[c_arg.value.id]
            if outer is not None:
                c_arg = outer
        todo.append((stmt, c_arg))
    for stmt, arg in todo:
        v = F.expr(arg, {}, 'GraphicalModel', [])
        ctx.ob('private-counts', fi, stmt, v == FRESH,
               'the generator rescales its count vector in place (`%s`), so the vector `%s` must be an array allocated for this call; it is %s'
               % (U(inplace[0])[:50], U(arg)[:90], 'private' if v == FRESH else
                  'possibly (a view of) storage owned by the %s: a cached marginal would be overwritten and later calls would draw from the rescaled table' % v),
               construct='ownership of the counts at ' + U(stmt)[:50])

"""C12 - junction tree construction and message schedule (structural clauses only).

The property as a whole - running intersection for every graph and elimination order - is a graph-theoretic theorem and is NOT
decided.  What is decided are the steps of the construction whose shape is a necessary condition of it:
  graph-from-cliques    the model graph has every domain attribute as a node and an edge for every pair of attributes of every clique
  elimination-fill-in   eliminating a node connects all pairs of its current neighbours *in the working graph* before removing it
                        (later eliminations must see earlier fill-in edges), and the triangulated graph = model graph + fill-in edges
  cliques-of-triangulation   tree nodes are the maximal cliques of the triangulated graph (so no node contains another), in the
                        domain's canonical attribute order
  tree-connected        every pair of maximal cliques gets an edge weighted by minus the size of its intersection and the tree is a
                        minimum spanning tree of that complete graph (a maximum-weight spanning tree of intersections; connected even for
                        attribute-disjoint components)
  order-modes           order None -> deterministic greedy order; an integer -> the cheapest of greedy and that many randomised orders;
                        otherwise the given order is used as is, and the chosen order is what the triangulation eliminates
  schedule              the schedule contains both directions of every tree edge, message (a,b) must precede (b,c) for every c != a
                        (exactly the dependency relation), and the schedule is a topological order of that relation
  separators            the separator of a message is the intersection of its two cliques
Not decided: that these steps yield the running-intersection property for all graphs (chordality + maximum-weight spanning tree theorem).
"""
import ast
import re

from .C01 import check_fill_in, check_tree_connected
from ..srcmodel import AnalysisError, U, calls_in, walk_shallow

JT = 'src/mbi/junction_tree.py'


def run(ctx):
    repo = ctx.repo
    ctx.explanation = ('Ordering / pairing rules on the construction steps of JunctionTree: graph from cliques, elimination loop, '
                       'clique extraction, complete clique graph + spanning tree, order modes, message dependency relation and its '
                       'topological sort. Each is a necessary condition of a valid junction tree; the validity theorem itself is not decided.')
    ctx.rule_text = 'one obligation per construction step'
    ctx.trusted = ['networkx find_cliques / minimum_spanning_tree / topological_sort', 'elimination yields a chordal graph; a maximum-weight '
                   'spanning tree of the clique graph of a chordal graph is a junction tree (theorems, not checked)']
    from ._generic import stale_pivot
    stale_pivot(ctx, ctx.repo.nfunc(JT, 'JunctionTree._make_tree'), 'tree-connected')
    check_graph(ctx)
    check_fill_in(ctx)
    check_tree_connected(ctx)
    check_cliques(ctx)
    check_modes(ctx)
    check_schedule(ctx)
    check_separators(ctx)
    ctx.floor('construction steps checked', len(ctx.obligations), 12)


def check_graph(ctx):
    fi = ctx.repo.nfunc(JT, 'JunctionTree._make_graph')
    ctx.analysed(fi)
    nodes = [c for c in calls_in(fi.node) if isinstance(c.func, ast.Attribute) and c.func.attr == 'add_nodes_from']
    ok = any(U(c.args[0]) in ('self.domain.attrs', 'self.domain') for c in nodes)
    ctx.ob('graph-from-cliques', fi, nodes[0] if nodes else fi.node, ok, 'every attribute of the domain is a node of the model graph (also unmeasured ones)')
    loops = [s for s in fi.body if isinstance(s, ast.For) and U(s.iter) == 'self.cliques']
    ok = False
    if len(loops) == 1:
        cl = U(loops[0].target)
        ok = any(isinstance(c.func, ast.Attribute) and c.func.attr == 'add_edges_from' and c.args and
                 U(c.args[0]).replace(' ', '') in ('itertools.combinations(%s,2)' % cl,) for c in calls_in(loops[0])) and \
            not any(isinstance(n, (ast.If, ast.Continue, ast.Break)) for n in ast.walk(loops[0]))
    if len(loops) == 1 and not ok:
        # the complete graph on the clique through networkx: G.update(nx.complete_graph(cl)) / G.add_edges_from(nx.complete_graph(cl).edges[()]),
        # possibly only for cliques of more than one attribute (a single attribute has no pair; it is a node already).  A cycle or a path
        # through the attributes is the complete graph only up to three of them.
        cl = U(loops[0].target)
        body = loops[0].body
        if len(body) == 1 and isinstance(body[0], ast.If) and not body[0].orelse and U(body[0].test).replace(' ', '') in ('len(%s)>1' % cl, 'len(%s)>=2' % cl, '1<len(%s)' % cl):
            body = body[0].body
        if len(body) == 1 and isinstance(body[0], ast.Expr) and isinstance(body[0].value, ast.Call):
            c = body[0].value
            t = U(c).replace(' ', '')
            G_ = U(c.func.value) if isinstance(c.func, ast.Attribute) else None
            full = {'%s.update(nx.complete_graph(%s))' % (G_, cl), '%s.add_edges_from(nx.complete_graph(%s).edges)' % (G_, cl),
                    '%s.add_edges_from(nx.complete_graph(%s).edges())' % (G_, cl), '%s.update(edges=nx.complete_graph(%s).edges)' % (G_, cl)}
            ring = ('nx.add_cycle(', 'nx.add_path(', 'nx.add_star(', 'nx.cycle_graph(', 'nx.path_graph(', 'nx.star_graph(')
            if t in full:
                ctx.ob('graph-from-cliques', fi, loops[0], True, 'every pair of attributes of every clique is joined by an edge: the complete graph on the clique (`%s`)' % U(c)[:60])
                ok = None
            elif any(r in t for r in ring):
                ctx.ob('graph-from-cliques', fi, loops[0], False, 'the attributes of a clique are joined by `%s` - a cycle / path / star: the complete graph only up to three '
                       'attributes; a larger clique loses its chords and is no longer contained in any node of the tree' % U(c)[:60])
                ok = None
    if ok is None:
        pass
    where = loops[0] if loops else fi.node
    if not loops:
        # the same edges in one call: add_edges_from(e for cl in self.cliques for e in itertools.combinations(cl, 2))
        from ..srcmodel import alpha_text, alpha_of
        from ..normalise import Defs, expand
        for c in calls_in(fi.node):
            if isinstance(c.func, ast.Attribute) and c.func.attr == 'add_edges_from' and len(c.args) == 1:
                a0 = expand(c.args[0], Defs(fi.body), comps=True)
                while isinstance(a0, ast.Call) and isinstance(a0.func, ast.Name) and a0.func.id in ('list', 'tuple', 'set') and len(a0.args) == 1:
                    a0 = a0.args[0]
                if isinstance(a0, (ast.GeneratorExp, ast.ListComp, ast.SetComp)):
                    where = c
                    g_ = ast.GeneratorExp(elt=a0.elt, generators=a0.generators)
                    ok = alpha_text(g_) in (alpha_of('(e for cl in self.cliques for e in itertools.combinations(cl, 2))'),
                                            alpha_of('((a, b) for cl in self.cliques for a, b in itertools.combinations(cl, 2))'))
                elif isinstance(a0, ast.Call) and U(a0.func) in ('itertools.chain.from_iterable', 'chain.from_iterable') and len(a0.args) == 1 \
                        and isinstance(a0.args[0], (ast.GeneratorExp, ast.ListComp)):
                    where = c
                    ok = alpha_text(ast.GeneratorExp(elt=a0.args[0].elt, generators=a0.args[0].generators)) == \
                        alpha_of('(itertools.combinations(cl, 2) for cl in self.cliques)')
    if ok is not None:
        ctx.ob('graph-from-cliques', fi, where, ok, 'every pair of attributes of every clique is joined by an edge (no filter)')
    init = ctx.repo.nfunc(JT, 'JunctionTree.__init__')
    st = {U(s.targets[0]): U(s.value) for s in walk_shallow(init.node) if isinstance(s, ast.Assign) and len(s.targets) == 1}
    ok, why = stored_cliques(init)
    ok = ok and st.get('self.graph') == 'self._make_graph()'
    # the argument may be any iterable (a generator, itertools.combinations(..)): it can be walked ONCE
    param = init.params[2] if len(init.params) > 2 else 'cliques'
    uses = 0
    first_use = None
    for s_ in init.body:
        loads = [n for n in ast.walk(s_) if isinstance(n, ast.Name) and n.id == param and isinstance(n.ctx, ast.Load)]
        uses += len(loads)
        if loads and first_use is None:
            first_use = s_
        if isinstance(s_, ast.Assign) and any(isinstance(t, ast.Name) and t.id == param for t in s_.targets):
            break          # rebound to the materialised list: later reads are of that list
    ctx.ob('graph-from-cliques', init, first_use or init.node, uses <= 1,
           'the `%s` argument is walked %d time(s) before it is materialised; a one-shot iterable (generator, itertools.combinations, map) is '
           'exhausted by the first pass, so the tree would be built from no cliques at all' % (param, uses),
           construct='single pass over the clique argument')
    ctx.ob('graph-from-cliques', init, init.node, ok, 'the tree is built from all the cliques it was given; a clique may only be left out when ONE '
           'retained clique contains it (all its attribute pairs are then still edges): %s' % why, construct='JunctionTree.__init__ stores')


def stored_cliques(init):
    """what JunctionTree.__init__ stores as self.cliques, relative to the cliques it was given -> (ok, explanation)"""
    param = init.params[2] if len(init.params) > 2 else 'cliques'
    BASES = ('[tuple(cl) for cl in %s]' % param, 'list(map(tuple, %s))' % param, '[tuple(c) for c in %s]' % param)
    body = init.body
    assigns = {}
    for s_ in body:
        if isinstance(s_, ast.Assign) and len(s_.targets) == 1 and isinstance(s_.targets[0], ast.Name):
            assigns.setdefault(s_.targets[0].id, []).append(s_)
    stores = [s_ for s_ in body if isinstance(s_, ast.Assign) and any(U(t) == 'self.cliques' for t in s_.targets)]
    if len(stores) != 1:
        raise AnalysisError('JunctionTree.__init__: store to self.cliques not found')

    from ..srcmodel import alpha_text, alpha_of
    ABASES = {alpha_of(b) for b in BASES}

    def is_base(e, depth=0):
        if U(e) in BASES or alpha_text(e) in ABASES:
            return True
        if isinstance(e, ast.Name) and depth < 4:
            ds = assigns.get(e.id, [])
            return len(ds) == 1 and is_base(ds[0].value, depth + 1)
        return False

    def subset_test(t, x):
        """`set(x) REL set(o)` -> (REL, o expression)"""
        if isinstance(t, ast.Compare) and len(t.ops) == 1 and isinstance(t.ops[0], (ast.LtE, ast.Lt)):
            l, r = t.left, t.comparators[0]
            if isinstance(l, ast.Call) and U(l.func) in ('set', 'frozenset') and len(l.args) == 1 and U(l.args[0]) == x:
                if isinstance(r, ast.Call) and U(r.func) in ('set', 'frozenset') and len(r.args) == 1:
                    return ('<' if isinstance(t.ops[0], ast.Lt) else '<='), r.args[0]
                return ('<' if isinstance(t.ops[0], ast.Lt) else '<='), None
        return None
    v = stores[0].value
    while isinstance(v, ast.Name) and len(assigns.get(v.id, [])) == 1 and not is_base(v):
        nxt = assigns[v.id][0].value
        if isinstance(nxt, (ast.List,)) and not nxt.elts:
            break
        v = nxt
    if is_base(v):
        return True, 'stores every given clique'
    # ---- an accumulator filled by a loop over the given cliques ---------------------------------------------------------------
    if isinstance(v, ast.Name):
        acc = v.id
        loops = [s_ for s_ in body if isinstance(s_, ast.For) and any(isinstance(c, ast.Call) and isinstance(c.func, ast.Attribute) and c.func.attr == 'append'
                                                                       and U(c.func.value) == acc for c in ast.walk(s_))]
        if len(loops) != 1 or not isinstance(loops[0].target, ast.Name):
            raise AnalysisError('JunctionTree.__init__: how `%s` is filled is not recognised' % acc)
        lp = loops[0]
        x = lp.target.id
        it = lp.iter
        while isinstance(it, ast.Call) and U(it.func) in ('sorted', 'list', 'reversed', 'tuple') and it.args:
            it = it.args[0]
        if not is_base(it):
            raise AnalysisError('JunctionTree.__init__: `%s` is not filled from the given cliques' % acc)
        if len(lp.body) != 1 or not isinstance(lp.body[0], ast.If) or lp.body[0].orelse:
            raise AnalysisError('JunctionTree.__init__: unrecognised filter loop')
        g = lp.body[0]
        appended = [c for c in ast.walk(g) if isinstance(c, ast.Call) and isinstance(c.func, ast.Attribute) and c.func.attr == 'append' and U(c.func.value) == acc]
        if len(appended) != 1 or U(appended[0].args[0]) != x:
            raise AnalysisError('JunctionTree.__init__: unrecognised filter loop')
        t = g.test
        if not (isinstance(t, ast.UnaryOp) and isinstance(t.op, ast.Not)):
            raise AnalysisError('JunctionTree.__init__: unrecognised retention test `%s`' % U(t)[:60])
        drop = t.operand
        if isinstance(drop, ast.Call) and U(drop.func) == 'any' and len(drop.args) == 1 and isinstance(drop.args[0], (ast.GeneratorExp, ast.ListComp)) \
                and len(drop.args[0].generators) == 1 and not drop.args[0].generators[0].ifs:
            gen = drop.args[0].generators[0]
            st_ = subset_test(drop.args[0].elt, x)
            if st_ is not None and st_[1] is not None and U(st_[1]) == U(gen.target) and U(gen.iter) == acc:
                return True, 'a clique is left out only when it is contained in one already retained (`%s`)' % U(drop)
        st_ = subset_test(drop, x)
        if st_ is not None and st_[1] is None:
            return False, 'a clique is left out when its attributes are a subset of `%s` - a UNION of attributes of several retained cliques, not one clique: ' \
                          'the pairs of its attributes need not be edges of any retained clique, so the edge (and every measurement on it) is lost' \
                          % U(drop.comparators[0])
        raise AnalysisError('JunctionTree.__init__: unrecognised drop condition `%s`' % U(drop)[:80])
    # ---- a comprehension over the given cliques ---------------------------------------------------------------------------------
    if isinstance(v, ast.ListComp) and len(v.generators) == 1:
        gen = v.generators[0]
        it = gen.iter
        idx = None
        if isinstance(it, ast.Call) and U(it.func) == 'enumerate' and len(it.args) == 1 and isinstance(gen.target, ast.Tuple) and len(gen.target.elts) == 2:
            idx, x = U(gen.target.elts[0]), U(gen.target.elts[1])
            it = it.args[0]
        else:
            x = U(gen.target)
        if not is_base(it) or U(v.elt) != x or len(gen.ifs) != 1:
            raise AnalysisError('JunctionTree.__init__: unrecognised clique filter `%s`' % U(v)[:80])
        t = gen.ifs[0]
        if not (isinstance(t, ast.UnaryOp) and isinstance(t.op, ast.Not)):
            raise AnalysisError('JunctionTree.__init__: unrecognised retention test `%s`' % U(t)[:60])
        drop = t.operand
        # a local predicate: look at its body
        if isinstance(drop, ast.Call) and isinstance(drop.func, ast.Name) and len(drop.args) == 1 and drop.func.id not in ('any', 'all'):
            fdef = [n for n in init.node.body if isinstance(n, ast.FunctionDef) and n.name == drop.func.id]
            if len(fdef) == 1 and len(fdef[0].body) == 1 and isinstance(fdef[0].body[0], ast.Return) and len(fdef[0].args.args) == 1:
                p_ = fdef[0].args.args[0].arg
                arg = U(drop.args[0])
                drop = fdef[0].body[0].value
                subject = p_
                by_index = arg == idx
            else:
                raise AnalysisError('JunctionTree.__init__: unrecognised drop predicate `%s`' % U(drop)[:60])
        else:
            subject, by_index = x, False
        if isinstance(drop, ast.Call) and U(drop.func) == 'any' and len(drop.args) == 1 and isinstance(drop.args[0], (ast.GeneratorExp, ast.ListComp)) \
                and len(drop.args[0].generators) == 1:
            g2 = drop.args[0].generators[0]
            xs = '%s[%s]' % (U(it), subject) if by_index else subject
            st_ = subset_test(drop.args[0].elt, xs)
            it2 = g2.iter
            if isinstance(it2, ast.Call) and U(it2.func) == 'enumerate' and len(it2.args) == 1:
                it2 = it2.args[0]
                other = U(g2.target.elts[1]) if isinstance(g2.target, ast.Tuple) and len(g2.target.elts) == 2 else None
            else:
                other = U(g2.target)
            if st_ is not None and st_[1] is not None and U(st_[1]) == other and (is_base(it2) or U(it2) == U(it)):
                if st_[0] == '<' and not g2.ifs:
                    return True, 'a clique is left out only when it is a PROPER subset of another given clique (`%s`): the largest one of every chain stays' % U(drop)
                return False, 'a clique is left out when it is contained in (`<=`) any OTHER given clique (`%s`): two equal cliques each see the other and ' \
                              'both are dropped, and with them the edge and every measurement / zero set on it' % U(drop)
        raise AnalysisError('JunctionTree.__init__: unrecognised drop condition `%s`' % U(drop)[:80])
    raise AnalysisError('JunctionTree.__init__: self.cliques is `%s`, not a recognised selection of the given cliques' % U(v)[:80])


def check_cliques(ctx):
    fi = ctx.repo.nfunc(JT, 'JunctionTree._make_tree')
    defs = {}
    for s in walk_shallow(fi.node):
        if isinstance(s, ast.Assign) and len(s.targets) == 1:
            defs.setdefault(U(s.targets[0]), []).append(s)
    tri = None
    for s in walk_shallow(fi.node):
        if isinstance(s, ast.Assign) and isinstance(s.targets[0], ast.Tuple) and isinstance(s.value, ast.Call) and \
                U(s.value.func) == 'self._triangulated':
            tri = (U(s.targets[0].elts[0]), s)
    # the clique list: the assignment whose value canonicalises something (whatever the local is called)
    cl = [s_ for s_ in walk_shallow(fi.node) if isinstance(s_, ast.Assign) and len(s_.targets) == 1 and isinstance(s_.targets[0], ast.Name)
          and any(isinstance(c_, ast.Call) and isinstance(c_.func, ast.Attribute) and c_.func.attr == 'canonical' for c_ in ast.walk(s_.value))]
    if not cl:
        cl = defs.get('cliques', [])
    ok = False
    if tri and cl:
        v = cl[-1].value
        from ..srcmodel import alpha_text
        t = alpha_text(v).replace('_c0', 'c')
        ok = t in ('sorted([self.domain.canonical(c)forcinnx.find_cliques(%s)])' % tri[0],
                   '[self.domain.canonical(c)forcinnx.find_cliques(%s)]' % tri[0],
                   'sorted((self.domain.canonical(c)forcinnx.find_cliques(%s)))' % tri[0])
    why = ''
    if tri and cl and not ok:
        # second recognised source: the cliques read off the elimination order (the order IS a perfect elimination order of the
        # triangulated graph it produced): C_v = {v} + the neighbours of v eliminated later; the maximal cliques are exactly the C_v not
        # contained in a C_u, and only an EARLIER u can contain it (lemma, trusted like find_cliques)
        import re
        m = re.fullmatch(r'(?:sorted\()?[\[\(]self\.domain\.canonical\((\w+)\)for\1inself\.(\w+)\((\w+),(\w+)\)[\]\)]\)?', U(cl[-1].value).replace(' ', ''))
        if m and m.group(3) == tri[0] and ctx.repo.has_func(JT, 'JunctionTree.' + m.group(2)):
            helper = ctx.repo.func(JT, 'JunctionTree.' + m.group(2))
            order_arg = m.group(4)
            tri_order = U(tri[1].value.args[0]) if tri[1].value.args else None
            ok, why = elimination_cliques(helper)
            if ok and order_arg != tri_order:
                ok, why = False, 'the cliques are read off the order `%s`, the triangulation was produced by `%s`' % (order_arg, tri_order)
            ctx.analysed(helper)
    ctx.ob('cliques-of-triangulation', fi, cl[-1] if cl else fi.node, ok,
           'tree nodes = maximal cliques (nx.find_cliques, or the elimination cliques not contained in an earlier one) of the triangulated graph '
           'returned by _triangulated, each in canonical attribute order%s' % (': ' + why if why else ''))
    ok = tri is not None and len(tri[1].value.args) == 1 and U(tri[1].value.args[0]) == 'order'
    ctx.ob('order-modes', fi, tri[1] if tri else fi.node, ok, 'the triangulation eliminates in the chosen order')
    # triangulated graph = model graph + fill-in edges
    t = ctx.repo.nfunc(JT, 'JunctionTree._triangulated')
    tdefs = {U(s.targets[0]): s for s in walk_shallow(t.node) if isinstance(s, ast.Assign) and len(s.targets) == 1}
    tri_name = None
    rets = [r for r in walk_shallow(t.node) if isinstance(r, ast.Return)]
    if rets and isinstance(rets[-1].value, ast.Tuple):
        tri_name = U(rets[-1].value.elts[0])
    ok = tri_name in tdefs and U(tdefs[tri_name].value) in ('nx.Graph(self.graph)', 'self.graph.copy()') and \
        any(isinstance(c.func, ast.Attribute) and U(c.func.value) == tri_name and c.func.attr == 'add_edges_from' for c in calls_in(t.node))
    ctx.ob('elimination-fill-in', t, tdefs.get(tri_name) or t.node, ok,
           'the triangulated graph is a copy of the model graph plus all collected fill-in edges')


def elimination_cliques(h):
    """for node in order: C = set(G.neighbors(node)) | {node}; keep C unless it is inside ANY clique kept before; G.remove_node(node)"""
    if len(h.params) != 3:
        raise AnalysisError('%s: unrecognised signature' % h.qualname)
    tri, order = h.params[1], h.params[2]
    body = h.body
    loops = [s_ for s_ in body if isinstance(s_, ast.For)]
    rets = [s_ for s_ in body if isinstance(s_, ast.Return)]
    if len(loops) != 1 or len(rets) != 1 or not isinstance(loops[0].target, ast.Name) or U(loops[0].iter) != order:
        raise AnalysisError('%s: not a single pass over the elimination order' % h.qualname)
    lp = loops[0]
    node = lp.target.id
    pre = {U(s_.targets[0]): U(s_.value).replace(' ', '') for s_ in body if isinstance(s_, ast.Assign) and len(s_.targets) == 1}
    G = None
    for k, v in pre.items():
        if v in ('nx.Graph(%s)' % tri, '%s.copy()' % tri, 'networkx.Graph(%s)' % tri):
            G = k
    found = U(rets[0].value)
    if G is None or pre.get(found) not in ('[]', 'list()'):
        raise AnalysisError('%s: working copy of the triangulated graph / result list not found' % h.qualname)
    if len(lp.body) != 3:
        raise AnalysisError('%s: unrecognised elimination pass' % h.qualname)
    a, g, rm = lp.body
    cand = None
    if isinstance(a, ast.Assign) and len(a.targets) == 1 and isinstance(a.targets[0], ast.Name):
        t = U(a.value).replace(' ', '')
        if t in ('set(%s.neighbors(%s))|{%s}' % (G, node, node), '{%s}|set(%s.neighbors(%s))' % (node, G, node),
                 'set(%s.neighbors(%s)).union({%s})' % (G, node, node), 'set(%s[%s])|{%s}' % (G, node, node)):
            cand = a.targets[0].id
    removed = isinstance(rm, ast.Expr) and U(rm.value).replace(' ', '') == '%s.remove_node(%s)' % (G, node)
    if cand is None or not removed or not isinstance(g, ast.If) or g.orelse:
        raise AnalysisError('%s: unrecognised elimination pass' % h.qualname)
    app = len(g.body) == 1 and isinstance(g.body[0], ast.Expr) and U(g.body[0].value).replace(' ', '') == '%s.append(%s)' % (found, cand)
    if not app:
        raise AnalysisError('%s: unrecognised retention step' % h.qualname)
    t = g.test
    if not (isinstance(t, ast.UnaryOp) and isinstance(t.op, ast.Not)):
        raise AnalysisError('%s: unrecognised maximality test `%s`' % (h.qualname, U(t)[:60]))
    d = t.operand
    txt = U(d).replace(' ', '')
    import re
    if re.fullmatch(r'any\(\(?%s<=(\w+)for\1in%s\)?\)' % (cand, found), txt) or re.fullmatch(r'any\(\(?%s\.issubset\((\w+)\)for\1in%s\)?\)' % (cand, found), txt):
        return True, 'elimination cliques, each kept unless contained in one kept earlier'
    if found + '[-1]' in txt:
        return False, 'a candidate is only compared with the clique kept LAST (`%s`); it can be nested in one kept earlier (triangle a-b-c with pendant ' \
                      'd-c under the order a, d, b, c keeps (b,c) next to (a,b,c)), so a tree node contains another' % U(d)
    raise AnalysisError('%s: unrecognised maximality test `%s`' % (h.qualname, U(d)[:60]))


def check_modes(ctx):
    """decided on the expanded value of the order that reaches the triangulation: a conditional term with three leaves"""
    import re
    from ..engines.blockeval import T
    fi = ctx.repo.nfunc(JT, 'JunctionTree._make_tree')
    be = walk_function(fi)
    tri = [n for v in list(be.env.values()) + [c for _, c, _, _ in be.calls] for n in ast.walk(v)
           if isinstance(n, ast.Call) and U(n.func) == 'self._triangulated' and len(n.args) == 1]
    if not tri:
        raise AnalysisError('_make_tree: triangulation call not found')
    used_raw = tri[0].args[0]
    used = used_raw
    while isinstance(used, ast.Call) and U(used.func) in ('list', 'tuple') and len(used.args) == 1:
        used = used.args[0]           # the order materialised as a list: the same sequence
    leaves = []

    def walk(e, path):
        if isinstance(e, ast.IfExp):
            walk(e.body, path + [(T(e.test), True)])
            walk(e.orelse, path + [(T(e.test), False)])
        else:
            leaves.append((e, path))
    walk(used, [])
    p = fi.params[1] if len(fi.params) > 1 else 'order'
    NONE = ('%sisNone' % p, '%s==None' % p)
    INT = ('type(%s)isint' % p, 'isinstance(%s,int)' % p, 'type(%s)==int' % p)
    greedy = 'self._greedy_order(False)'                  # keyword arguments of in-module callees are positional after parsing
    stoch = '[self._greedy_order(True)for_inrange(%s)]' % p
    comp_var = re.compile(r'\[self\._greedy_order\(True\)for\w+inrange\(')
    key = r'(lambdax:x\[1\]|itemgetter\(1\)|operator\.itemgetter\(1\))'
    pat = re.compile(r'min\((\[%s\]\+%s|%s\+\[%s\]),key=%s\)\[0\]' % (re.escape(greedy), re.escape(stoch), re.escape(stoch), re.escape(greedy), key))
    ok_none = ok_int = ok_given = False
    for e, path in leaves:
        t = T(e)
        conds = {(c, pol) for c, pol in path}
        if any(c in NONE and pol for c, pol in conds):
            ok_none = t == greedy + '[0]'
        elif any(c in INT and pol for c, pol in conds):
            ok_int = pat.fullmatch(comp_var.sub('[self._greedy_order(True)for_inrange(', t)) is not None
            if not ok_int:
                rb = running_best(fi, p)
                if rb is not None:
                    ok_int = rb
        else:
            ok_given = t == p
    undecided_modes = None
    if isinstance(used, ast.Name) and len(leaves) == 1 and not (ok_none and ok_int and ok_given) and \
            any(isinstance(n, (ast.For, ast.While)) and any(isinstance(x, ast.Name) and x.id == used.id and isinstance(x.ctx, ast.Store) for x in ast.walk(n))
                for n in ast.walk(fi.node)):
        # the order is settled by a loop (e.g. a running best over restarts): its three modes are not read off a closed term here
        undecided_modes = 'the elimination order `%s` is settled by a loop; its modes (None / integer / given) are neither confirmed nor refuted' % used.id
        ok_none = ok_int = ok_given = None
    if undecided_modes is None:
        ctx.ob('order-modes', fi, fi.node, ok_none, 'order None selects the deterministic greedy order; the triangulation eliminates `%s`' % U(used)[:200],
               construct='order None')
    if undecided_modes is None:
        ctx.ob('order-modes', fi, fi.node, ok_int,
               'an integer selects the cheapest among the greedy order and that many randomised orders', construct='integer order mode')
        ctx.ob('order-modes', fi, fi.node, ok_given, 'any other value is used as the elimination order as given', construct='given order')
    store = [(v, s_) for t_, v, s_ in be.stores if t_ == 'self.elimination_order']
    def same_seq(v):
        # the very same value (one evaluation): a given order may be a one-shot iterable, `list(order)` next to a second use of
        # `order` itself would leave the second consumer with nothing
        return T(v) == T(used_raw)
    ctx.ob('order-modes', fi, store[0][1] if store else fi.node, bool(store) and all(same_seq(v) for v, _ in store),
           'the order actually used is recorded as elimination_order (synthetic data generation walks it backwards) - the same value, evaluated once: a given order may be a one-shot iterable',
           construct='recorded elimination order')
    if undecided_modes is not None:
        raise AnalysisError('_make_tree: ' + undecided_modes)


def peeled_schedule(fi):
    """G = nx.Graph(self.tree); root = <a node>; C = []
       while len(G) > 1:  L = [i for i in G.nodes() if G.degree(i) == 1 and i != root];  C += [(i, j) for i in L for j in G.neighbors(i)];  G.remove_nodes_from(L)
       return C + [(j, i) for i, j in reversed(C)]
    Every round removes the current leaves, each sending to its one remaining neighbour: a clique reports after all its other neighbours have.
    The root must be EXCLUDED from the leaves: when only two cliques are left both have degree one, and without the exclusion each sends to
    the other in the collect sweep - and again in the distribute sweep: those two messages are absorbed twice.  -> (ok, why, node) or None"""
    from ..engines.blockeval import T
    src = getattr(fi, 'original', fi)
    whiles = [w for w in src.node.body if isinstance(w, ast.While)]
    if len(whiles) != 1:
        return None
    w = whiles[0]
    m = re.fullmatch(r'len\((\w+)\)>1', T(w.test))
    if not m:
        return None
    G = m.group(1)
    gdef = [a.value for a in src.node.body if isinstance(a, ast.Assign) and len(a.targets) == 1 and U(a.targets[0]) == G]
    if len(gdef) != 1 or T(gdef[0]) not in ('nx.Graph(self.tree)', 'self.tree.copy()', 'nx.Graph(self.tree.edges())'):
        return None
    leaves = [a for a in w.body if isinstance(a, ast.Assign) and len(a.targets) == 1 and isinstance(a.value, ast.ListComp)]
    adds = [a for a in w.body if isinstance(a, ast.AugAssign) and isinstance(a.op, ast.Add) and isinstance(a.value, ast.ListComp)]
    rem = [a for a in w.body if isinstance(a, ast.Expr) and T(a.value).startswith('%s.remove_nodes_from(' % G)]
    if len(leaves) != 1 or len(adds) != 1 or len(rem) != 1 or len(w.body) != 3:
        return None
    L = U(leaves[0].targets[0])
    lc = leaves[0].value
    i = U(lc.generators[0].target)
    conds = [T(c) for g in lc.generators for c in g.ifs]
    conds = [x for c in conds for x in c.split('and')] if len(conds) == 1 else conds
    if T(lc.elt) != i or T(lc.generators[0].iter) not in ('%s.nodes()' % G, '%s.nodes' % G, G, 'list(%s.nodes())' % G, 'list(%s)' % G) \
            or '%s.degree(%s)==1' % (G, i) not in conds or T(rem[0].value) != '%s.remove_nodes_from(%s)' % (G, L):
        return None
    C = U(adds[0].target)
    ac = adds[0].value
    if not (len(ac.generators) == 2 and T(ac.generators[0].iter) == L and T(ac.generators[1].iter) == '%s.neighbors(%s)' % (G, U(ac.generators[0].target))
            and T(ac.elt) == '(%s,%s)' % (U(ac.generators[0].target), U(ac.generators[1].target)) and not ac.generators[0].ifs and not ac.generators[1].ifs):
        return None
    rets = [r for r in src.node.body if isinstance(r, ast.Return)]
    if len(rets) != 1 or not re.fullmatch(r'%s\+\[\((\w+),(\w+)\)for\2,\1inreversed\(%s\)\]' % (C, C), T(rets[0].value)):
        return None
    others = [c for c in conds if c != '%s.degree(%s)==1' % (G, i)]
    roots = [mm.group(1) for c in others for mm in [re.fullmatch(r'%s!=(\w+)' % i, c) or re.fullmatch(r'(\w+)!=%s' % i, c)] if mm]
    fixed = [r_ for r_ in roots if any(isinstance(a, ast.Assign) and U(a.targets[0]) == r_ and a.lineno < w.lineno for a in src.node.body)
             and not any(isinstance(n, ast.Name) and n.id == r_ and isinstance(n.ctx, ast.Store) for n in ast.walk(w))]
    if len(others) == 1 and fixed:
        return True, 'the leaves never include the fixed root `%s`, so the last edge is emitted in one direction only' % fixed[0], w
    if not others:
        return False, ('no clique is kept as the root: when two cliques are left both are leaves, each sends to the other in the collect sweep and again in the '
                       'distribute sweep - belief propagation absorbs those two messages twice'), leaves[0]
    return None


def running_best(fi, p):
    """the integer mode written as a running best:
           best = self._greedy_order(False);  for _ in range(p): cand = self._greedy_order(True[, best[1]]);  if cand[1] < best[1]: best = cand;  order = best[0]
    the cheapest of the deterministic order and p randomised ones (what `min(.., key=cost)` selects; a third argument only lets a candidate give up
    early, which C11 judges).  -> True / False (a wrong comparison) / None (not this shape)"""
    from ..engines.blockeval import T
    for lp in [n for n in ast.walk(fi.node) if isinstance(n, ast.For)]:
        if T(lp.iter) != 'range(%s)' % p:
            continue
        cands = [a for a in lp.body if isinstance(a, ast.Assign) and len(a.targets) == 1 and isinstance(a.targets[0], ast.Name) and isinstance(a.value, ast.Call)
                 and U(a.value.func) == 'self._greedy_order' and a.value.args and T(a.value.args[0]) == 'True']
        tests = [i_ for i_ in lp.body if isinstance(i_, ast.If) and not i_.orelse and len(i_.body) == 1 and isinstance(i_.body[0], ast.Assign)]
        if len(cands) != 1 or len(tests) != 1 or len(lp.body) != 2:
            continue
        cand = cands[0].targets[0].id
        upd = tests[0].body[0]
        if not (len(upd.targets) == 1 and isinstance(upd.targets[0], ast.Name) and T(upd.value) == cand):
            continue
        best = upd.targets[0].id
        inits = [a for a in ast.walk(fi.node) if isinstance(a, ast.Assign) and len(a.targets) == 1 and T(a.targets[0]) == best and a is not upd]
        if len(inits) != 1 or T(inits[0].value) != 'self._greedy_order(False)':
            continue
        uses = [a for a in ast.walk(fi.node) if isinstance(a, ast.Assign) and T(a.value) == best + '[0]']
        if not uses:
            continue
        t = T(tests[0].test)
        if t in ('%s[1]<%s[1]' % (cand, best), '%s[1]>%s[1]' % (best, cand), '%s[1]<=%s[1]' % (cand, best), '%s[1]>=%s[1]' % (best, cand)):
            return True
        if t in ('%s[1]>%s[1]' % (cand, best), '%s[1]<%s[1]' % (best, cand), '%s[1]>=%s[1]' % (cand, best), '%s[1]<=%s[1]' % (best, cand)):
            return False
        return None
    return None


def walk_function(fi):
    """the function walked once with every local replaced by its definition (engines/blockeval.py)"""
    from ..engines.blockeval import BlockEval
    from ..normalise import single_exit
    from ..srcmodel import clone
    stmts, _ = single_exit(clone(fi.body), '__ret__')
    stmts = explicit_reversals(stmts)
    be = BlockEval(fi.qualname, loop_ok=lambda s: True)
    be.run(stmts)
    return be


def explicit_reversals(stmts):
    """`L.reverse()` on a local list (top level of the function) reverses the ONE list every alias `A = L` made before also names: written out
    as `L = L[::-1]; A = L` so that what each name denotes afterwards is visible to a reader of values."""
    out = []
    aliases = {}          # list name -> names bound to the same object so far
    for st in stmts:
        if isinstance(st, ast.Assign) and len(st.targets) == 1 and isinstance(st.targets[0], ast.Name):
            t = st.targets[0].id
            for k in list(aliases):
                aliases[k].discard(t)
            aliases.pop(t, None)
            if isinstance(st.value, ast.Name):
                src = st.value.id
                root = next((k for k, v in aliases.items() if src == k or src in v), src)
                aliases.setdefault(root, set()).add(t)
        if isinstance(st, ast.Expr) and isinstance(st.value, ast.Call) and isinstance(st.value.func, ast.Attribute) and st.value.func.attr == 'reverse' \
                and isinstance(st.value.func.value, ast.Name) and not st.value.args:
            L = st.value.func.value.id
            root = next((k for k, v in aliases.items() if L == k or L in v), L)
            group = {root} | aliases.get(root, set())
            new = ast.parse('%s = %s[::-1]' % (L, L)).body[0]
            out.append(ast.copy_location(new, st))
            for a in sorted(group - {L}):
                out.append(ast.copy_location(ast.parse('%s = %s' % (a, L)).body[0], st))
            for x in out[-len(group):]:
                ast.fix_missing_locations(x)
            continue
        out.append(st)
    return out


NODE_SEQUENCES = ('self.maximal_cliques()', 'self.tree.nodes()', 'self.tree.nodes', 'list(self.tree.nodes())', 'list(self.tree.nodes)', 'list(self.tree)',
                  'sorted(self.tree.nodes())', 'sorted(self.tree.nodes)', 'sorted(self.tree)')


def unlabelled(fi):
    """the cliques NUMBERED for the duration of the function:  index = {cl: k for k, cl in enumerate(S)} ... [(S[i], S[j]) for i, j in R].
    Numbering by position in a duplicate-free sequence S and decoding through the same S is a bijective relabelling of the nodes, under
    which the dependency graph and its topological orders correspond one to one; the function is judged with the labels removed.  Returns
    (statements, mismatch): mismatch = (encoded over, decoded over) when the two sequences are different enumerations of the cliques."""
    from ..srcmodel import clone
    from ..engines.blockeval import T
    body = clone(fi.body)
    root = ast.Module(body=body, type_ignores=[])
    assigns = {}
    for st in ast.walk(root):
        if isinstance(st, ast.Assign) and len(st.targets) == 1 and isinstance(st.targets[0], ast.Name):
            assigns.setdefault(st.targets[0].id, []).append(st)

    def resolve(e):
        while isinstance(e, ast.Name) and len(assigns.get(e.id, ())) == 1:
            e = assigns[e.id][0].value
        return e
    tables = []
    for nm, sts in assigns.items():
        v = sts[0].value
        if len(sts) == 1 and isinstance(v, ast.DictComp) and len(v.generators) == 1 and not v.generators[0].ifs:
            g = v.generators[0]
            if isinstance(g.iter, ast.Call) and U(g.iter.func) == 'enumerate' and len(g.iter.args) == 1 and isinstance(g.target, ast.Tuple) and \
                    len(g.target.elts) == 2 and all(isinstance(x, ast.Name) for x in g.target.elts) and \
                    isinstance(v.key, ast.Name) and isinstance(v.value, ast.Name) and (v.value.id, v.key.id) == tuple(x.id for x in g.target.elts):
                tables.append((nm, sts[0], g.iter.args[0]))
    if len(tables) != 1:
        return None
    nm, st_tbl, src = tables[0]
    loads = [n for n in ast.walk(root) if isinstance(n, ast.Name) and n.id == nm and isinstance(n.ctx, ast.Load)]
    subs = [n for n in ast.walk(root) if isinstance(n, ast.Subscript) and isinstance(n.value, ast.Name) and n.value.id == nm and isinstance(n.ctx, ast.Load)]
    if len(loads) != len(subs) or not subs:
        return None
    decs = []
    for n in ast.walk(root):
        if isinstance(n, ast.ListComp) and len(n.generators) == 1 and not n.generators[0].ifs and isinstance(n.elt, ast.Tuple) and len(n.elt.elts) == 2 \
                and isinstance(n.generators[0].target, ast.Tuple) and len(n.generators[0].target.elts) == 2:
            tg = [U(x) for x in n.generators[0].target.elts]
            if all(isinstance(x, ast.Subscript) for x in n.elt.elts) and [U(x.slice) for x in n.elt.elts] == tg and len({U(x.value) for x in n.elt.elts}) == 1 and U(n.elt.elts[0].value) != nm:
                decs.append(n)
    if len(decs) != 1:
        raise AnalysisError('mp_order: cliques numbered through `%s` but the schedule is not decoded by one `[(S[i], S[j]) for i, j in ..]`' % nm)
    dec = decs[0]
    enc_t, dec_t = T(resolve(src)), T(resolve(dec.elt.elts[0].value))
    for t_ in (enc_t, dec_t):
        if t_ not in NODE_SEQUENCES:
            raise AnalysisError('mp_order: cliques numbered by position in `%s`, which is no recognised enumeration of the tree nodes' % t_)

    class Strip(ast.NodeTransformer):
        def visit_Subscript(self, n):
            self.generic_visit(n)
            if isinstance(n.value, ast.Name) and n.value.id == nm and isinstance(n.ctx, ast.Load):
                return n.slice
            return n

        def visit_ListComp(self, n):
            if n is dec:
                return ast.Call(func=ast.Name(id='list', ctx=ast.Load()), args=[n.generators[0].iter], keywords=[])
            self.generic_visit(n)
            return n

        def visit_Assign(self, n):
            if n is st_tbl:
                return None
            self.generic_visit(n)
            return n
    root = ast.fix_missing_locations(Strip().visit(root))
    return root.body, (None if enc_t == dec_t else (enc_t, dec_t)), st_tbl


def check_schedule(ctx):
    """stated on set-builder terms (engines/builders.py): comprehension and loop-nest spellings, locals and extracted helpers
    denote the same collections"""
    from ..engines.builders import Builder, grown, method_calls, strip_wrappers
    from ..engines.blockeval import T
    fi = ctx.repo.nfunc(JT, 'JunctionTree.mp_order')
    ctx.analysed(fi)
    un = unlabelled(fi)
    if un is not None:
        stmts_, mismatch, where_ = un
        ctx.ob('schedule', fi, where_, mismatch is None,
               'cliques numbered for the dependency graph must be decoded through the SAME enumeration they were numbered by (a bijective '
               'relabelling); here they are %s' % ('numbered and decoded by position in one sequence' if mismatch is None else
                                                  'numbered by position in `%s` but decoded by position in `%s`: every message names other cliques' % mismatch),
               construct='clique numbering of the schedule')
        import types
        be = walk_function(types.SimpleNamespace(body=stmts_, qualname=fi.qualname))
    else:
        be = walk_function(fi)
    # the dependency graph: the object that is topologically sorted
    R = be.env.get('__ret__')
    R0 = strip_wrappers(R) if R is not None else None
    # other spellings of "these are the nodes / edges of the dependency graph": G.update(edges=E, nodes=M); nx.DiGraph(E) (edges only)
    extra = []
    for s_, c, pc, loops in be.calls:
        if isinstance(c.func, ast.Attribute) and c.func.attr == 'update' and isinstance(c.func.value, ast.Name):
            kw = {k.arg: k.value for k in c.keywords}
            for key, meth in (('nodes', 'add_nodes_from'), ('edges', 'add_edges_from')):
                if key in kw:
                    extra.append((s_, ast.Call(func=ast.Attribute(value=c.func.value, attr=meth, ctx=ast.Load()), args=[kw[key]], keywords=[]), pc, loops))
    for nm, v, st_ in be.assign_log:
        if isinstance(v, ast.Call) and U(v.func).split('.')[-1] in ('DiGraph',) and len(v.args) == 1 and not v.keywords:
            extra.append((st_, ast.Call(func=ast.Attribute(value=ast.Name(id=nm, ctx=ast.Load()), attr='add_edges_from', ctx=ast.Load()),
                                        args=[v.args[0]], keywords=[]), [], []))
    be.calls.extend(extra)
    graphs = sorted({U(c.func.value) for s_, c, pc, loops in be.calls if isinstance(c.func, ast.Attribute) and c.func.attr == 'add_edges_from'})
    if not graphs and R is not None:
        # no dependency graph at all: the two-sweep schedule  collect + distribute  over a rooted traversal D of the tree:
        #   [(b, a) for a, b in reversed(D)] + D        (children report before their parent does, then parents inform children)
        if isinstance(R, ast.BinOp) and isinstance(R.op, ast.Add):
            def nf(e):
                """(flipped, reversed, traversal text) of a sweep expression, or None"""
                e = strip_wrappers(e)
                if isinstance(e, ast.Call) and U(e.func).split('.')[-1] in ('dfs_edges', 'bfs_edges') and e.args and T(e.args[0]) == 'self.tree':
                    return False, False, T(e)
                if isinstance(e, ast.Call) and U(e.func) == 'reversed' and len(e.args) == 1:
                    r_ = nf(e.args[0])
                    return None if r_ is None else (r_[0], not r_[1], r_[2])
                if isinstance(e, ast.Subscript) and T(e.slice) == '::-1':
                    r_ = nf(e.value)
                    return None if r_ is None else (r_[0], not r_[1], r_[2])
                b_ = Builder.of_comprehension(e)
                if b_ is not None and len(b_.gens) == 1 and not b_.conds:
                    elt_, gens_, conds_ = b_.canon()
                    r_ = nf(b_.gens[0][1])
                    if r_ is None:
                        return None
                    if elt_ == '(_g0_1,_g0_0)':
                        return not r_[0], r_[1], r_[2]
                    if elt_ == '(_g0_0,_g0_1)':
                        return r_
                return None
            up, down = nf(R.left), nf(R.right)
            if up is not None and down is not None and up[2] == down[2]:
                both = up[0] != down[0]
                ctx.ob('schedule', fi, fi.node, both, 'one message per direction of every tree edge: the two sweeps run over one rooted traversal `%s`, one of '
                       'them with every edge turned round; here %s' % (up[2][:60], 'they do' if both else 'both sweeps send in the same direction'),
                       construct='message set of the schedule')
                if both:
                    # the sweep against the traversal (child -> parent) is the collect sweep and must come first, deepest edges first
                    col, dis = (up, down) if up[0] else (down, up)
                    first = up[0]
                    ok = first and col[1] and not dis[1]
                    why = []
                    if not first:
                        why.append('the sweep towards the root must come first')
                    if not col[1]:
                        why.append('the collect sweep must run over the traversal in REVERSE (every clique hears from its children before it reports to its parent)')
                    if dis[1]:
                        why.append('the distribute sweep must run in traversal order (a clique hears from its parent before it informs its children); it runs in reverse')
                    ctx.ob('schedule', fi, fi.node, ok, 'two-sweep schedule over the traversal `%s`: collect in reverse, then distribute in traversal order%s'
                           % (up[2][:60], '' if ok else ': ' + '; '.join(why)), construct='collect / distribute schedule')
                return
    if not graphs:
        pl = peeled_schedule(fi)
        if pl is not None:
            okp, whyp, wherep = pl
            ctx.ob('schedule', fi, wherep, okp, 'schedule by peeling the leaves off a copy of the tree (collect), then the same messages reversed and turned round '
                   '(distribute): ' + whyp, construct='leaf-peeling schedule')
            ctx.ob('schedule', fi, fi.node, True, 'one message per direction of every tree edge (each edge is emitted when its leaf end is peeled, and once more turned round)',
                   construct='message set of the schedule')
            return
    if len(graphs) != 1:
        raise AnalysisError('mp_order: expected one dependency graph (receiver of add_edges_from), found %s' % graphs)
    G = graphs[0]
    sorted_ok = isinstance(R0, ast.Call) and U(R0.func).endswith('topological_sort') and len(R0.args) == 1 and U(R0.args[0]) == G
    nodes = method_calls(be, G, 'add_nodes_from')
    edges = method_calls(be, G, 'add_edges_from')
    if len(edges) != 1 or edges[0][3] or len(nodes) > 1 or (nodes and nodes[0][3]):
        raise AnalysisError('mp_order: expected one add_edges_from (and one add_nodes_from) on `%s`, outside loops' % G)
    if nodes:
        M = nodes[0][1].args[0]                 # the expanded message collection
    else:
        # no node set: take the message collection from the dependency relation's generators
        D0 = edges[0][1].args[0]
        b0 = (grown(be, D0.id) if isinstance(D0, ast.Name) else [Builder.of_comprehension(D0)])
        if not b0 or b0[0] is None or not b0[0].gens:
            raise AnalysisError('mp_order: message collection not found')
        M = b0[0].gens[0][1]
    rank_note = ''
    if not sorted_ok and isinstance(R0, ast.Call) and U(R0.func) == 'sorted' and len(R0.args) == 1 and nodes:
        # all messages sorted by a rank: a topological order when the rank strictly grows along every dependency.  The number of ANCESTORS
        # does (u -> v gives anc(u) + {u} inside anc(v)); the number of direct predecessors does not.
        key = next((k.value for k in R0.keywords if k.arg == 'key'), None)
        over_all = T(strip_wrappers(R0.args[0])) == T(strip_wrappers(M)) or T(R0.args[0]) in ('%s.nodes()' % G, '%s.nodes' % G, G)
        rank = None
        if isinstance(key, ast.Lambda) and len(key.args.args) == 1:
            rank = (key.args.args[0].arg, key.body)
        elif isinstance(key, ast.Attribute) and key.attr in ('get', '__getitem__') and isinstance(key.value, (ast.Name, ast.DictComp)):
            tbl = key.value if isinstance(key.value, ast.DictComp) else (be.env.get(key.value.id) or be.inits.get(key.value.id))
            if isinstance(tbl, ast.DictComp) and len(tbl.generators) == 1 and isinstance(tbl.generators[0].target, ast.Name) \
                    and T(tbl.key) == tbl.generators[0].target.id and not tbl.generators[0].ifs:
                rank = (tbl.generators[0].target.id, tbl.value)
        if rank is not None and over_all:
            v_, body_ = rank
            rt_ = T(body_)
            if rt_ in ('len(nx.ancestors(%s,%s))' % (G, v_), 'len(networkx.ancestors(%s,%s))' % (G, v_)):
                sorted_ok = True
            elif rt_ in ('len(%s.pred[%s])' % (G, v_), '%s.in_degree(%s)' % (G, v_), '%s.in_degree[%s]' % (G, v_), 'len(list(%s.predecessors(%s)))' % (G, v_),
                         'len(%s.in_edges(%s))' % (G, v_)):
                rank_note = ('; the messages are ranked by the number of DIRECT prerequisites `%s`, which does not grow along a chain of dependencies: a '
                             'message with one prerequisite that itself waits for two is scheduled before them' % U(body_))
            else:
                raise AnalysisError('mp_order: schedule sorted by the rank `%s`, which is in no recognised form' % U(body_)[:80])
    ctx.ob('schedule', fi, fi.node, sorted_ok and bool(nodes),
           'the schedule is a topological order of the dependency graph `%s` whose nodes are ALL messages (isolated messages included); '
           'result `%s`, node set %s%s' % (G, U(R)[:80] if R is not None else None, 'given' if nodes else 'NOT given (messages without dependencies vanish)',
                                          rank_note),
           construct='topological order over all messages')
    # ---- messages: both directions of every tree edge ---------------------------------------------------------
    ok = False
    if isinstance(M, ast.BinOp) and isinstance(M.op, ast.Add):
        b1, b2 = Builder.of_comprehension(M.left), Builder.of_comprehension(M.right)
        if b1 is not None and b2 is not None:
            b1, b2 = b1.composed(), b2.composed()
            c1, c2 = b1.canon(), b2.canon()
            E = ('self.tree.edges()', 'self.tree.edges')
            fwd, bwd = '(_g0_0,_g0_1)', '(_g0_1,_g0_0)'
            ok = c1[1] == c2[1] and len(c1[1]) == 1 and c1[1][0][0] == 2 and c1[1][0][1] in E and not c1[2] and not c2[2] \
                and {c1[0], c2[0]} == {fwd, bwd}
    ctx.ob('schedule', fi, nodes[0][0] if nodes else edges[0][0], ok, 'one message per direction of every tree edge; the message set is `%s`' % U(M)[:160],
           construct='message set of the schedule')
    # ---- dependency relation -------------------------------------------------------------------------------------------
    D = edges[0][1].args[0]
    bs = []
    if isinstance(D, ast.Name):
        bs = grown(be, D.id)
        init = be.inits.get(D.id)
        if init is None or T(init) not in ('set()', '[]', 'list()'):
            bs = []
    else:
        b = Builder.of_comprehension(D)
        bs = [b] if b is not None else []
    ok = False
    got = None
    if len(bs) == 1:
        elt, gens, conds = bs[0].canon()
        got = bs[0].show()
        m = T(strip_wrappers(M))
        ok = elt == '(_g0,_g1)' and [g for g in gens] == [(0, m), (0, m)] and \
            sorted(conds) == sorted(['_g0[1]==_g1[0]', '_g0[0]!=_g1[1]'])
        if not ok and sorted(conds) in (sorted(['_g1[0]==_g0[1]', '_g0[0]!=_g1[1]']), sorted(['_g0[1]==_g1[0]', '_g1[1]!=_g0[0]']),
                                         sorted(['_g1[0]==_g0[1]', '_g1[1]!=_g0[0]'])):
            ok = elt == '(_g0,_g1)' and [g for g in gens] == [(0, m), (0, m)]
    elif not bs:
        raise AnalysisError('mp_order: the dependency relation handed to add_edges_from is not a recognisable collection: `%s`' % U(D)[:100])
    if len(bs) == 1 and not ok:
        elt, gens, conds = bs[0].canon()
        m = T(strip_wrappers(M))
        # second spelling of the same relation: successors looked up through the tree adjacency
        if elt == '((_g0_0,_g0_1),(_g0_1,_g1))' and gens == [(2, m), (0, 'self.tree.neighbors(_g0_1)')] and \
                conds in (['_g1!=_g0_0'], ['_g0_0!=_g1']):
            ok = True
        elif len(gens) == 2 and gens[0][0] == 0 and gens[0][1] in ('self.tree.nodes()', 'self.tree.nodes', 'self.tree', 'self.tree.nodes') and \
                gens[1][0] == 2 and re.fullmatch(r'(itertools\.)?(permutations|combinations)\(self\.tree\.neighbors\(_g0\),2\)', gens[1][1]) and \
                elt in ('((_g1_1,_g0),(_g0,_g1_0))', '((_g1_0,_g0),(_g0,_g1_1))') and not conds:
            # third spelling, clique by clique: for every ORDERED pair (k, j) of distinct neighbours of i, k->i precedes i->j
            if 'permutations' in gens[1][1]:
                ok = True
            else:
                got = got + '  (combinations yields each pair of neighbours once: only one of "k->i before i->j" and "j->i before i->k" is ' \
                            'recorded, so at a clique with three or more neighbours a message can leave before all its inputs have arrived)'
        elif gens == [(0, m), (0, m)] and elt == '(_g0,_g1)':
            pass          # the all-pairs form with other conditions: wrong relation, reported below
        elif any(isinstance(it, ast.Call) and isinstance(it.func, ast.Attribute) and it.func.attr == 'items' and
                 isinstance(it.func.value, (ast.DictComp, ast.Dict)) for t_, it in bs[0].gens):
            got = got + '  (a MAPPING keyed by one message: it keeps a single partner per key, all other prerequisites are lost)'
        elif elt == '((_g0_0,_g0_1),(_g0_1,_g1))' and gens and gens[0] == (2, m):
            pass          # the adjacency form with other conditions / another neighbour source: reported below
        else:
            raise AnalysisError('mp_order: dependency relation %s is in no recognised form (neither confirmed nor refuted)' % got)
    ctx.ob('schedule', fi, edges[0][0], ok,
           'message (a,b) must precede every (b,c) with c != a - and nothing else - : edge m1 -> m2 iff m1[1] == m2[0] and m1[0] != m2[1], '
           'for m1, m2 ranging over all messages; the source builds %s' % (got or '%d collections' % len(bs)),
           construct='dependency relation of the schedule')


def merged_intersection(ctx, fi, value):
    """{(i, j): self.H(i, j) for i, j in self.mp_order()} with H a merge sweep over two tuples:
           a = b = 0; while a < len(c1) and b < len(c2):  equal -> collect, advance both;  KEY(c1[a]) < KEY(c2[b]) -> advance a;  else advance b
    It collects exactly the common elements when both tuples are strictly increasing under KEY.  The maximal cliques are kept in the DOMAIN's
    attribute order (`domain.canonical`), so KEY must be the position in the domain (`domain.attrs.index`); comparing the names themselves
    assumes that order is alphabetical and skips shared attributes when it is not.  -> (ok, why, node) or None"""
    from ..engines.blockeval import T
    if not (isinstance(value, ast.DictComp) and len(value.generators) == 1 and T(value.generators[0].iter) == 'self.mp_order()'
            and isinstance(value.value, ast.Call) and U(value.value.func).startswith('self.') and len(value.value.args) == 2):
        return None
    tg = [T(x) for x in value.generators[0].target.elts] if isinstance(value.generators[0].target, ast.Tuple) else []
    if [T(a) for a in value.value.args] != tg or T(value.key) != '(%s,%s)' % tuple(tg):
        return None
    h = fi.module.funcs.get('%s.%s' % (fi.cls.name, U(value.value.func)[5:]))
    if h is None or len(h.params) != 3:
        return None
    c1, c2 = h.params[1], h.params[2]
    loops = [n for n in ast.walk(h.node) if isinstance(n, ast.While)]
    if len(loops) != 1:
        return None
    lp = loops[0]
    m = re.fullmatch(r'(\w+)<len\(%s\)and(\w+)<len\(%s\)' % (c1, c2), T(lp.test))
    if not m or len(lp.body) != 1 or not isinstance(lp.body[0], ast.If):
        return None
    a, b = m.group(1), m.group(2)
    top = lp.body[0]
    if T(top.test) not in ('%s[%s]==%s[%s]' % (c1, a, c2, b), '%s[%s]==%s[%s]' % (c2, b, c1, a)) or len(top.orelse) != 1 or not isinstance(top.orelse[0], ast.If):
        return None
    eqb = [T(x) for x in top.body]
    coll = [x for x in eqb if re.fullmatch(r'\w+\.append\(%s\[%s\]\)' % (c1, a), x) or re.fullmatch(r'\w+\.append\(%s\[%s\]\)' % (c2, b), x)]
    both = {'%s+=1' % a, '%s+=1' % b} <= set(eqb) or any(x in ('%s,%s=(%s+1,%s+1)' % (a, b, a, b), '(%s,%s)=(%s+1,%s+1)' % (a, b, a, b),
                                                                   '%s,%s=%s+1,%s+1' % (a, b, a, b)) for x in eqb)
    if len(coll) != 1 or not both:
        return None
    acc = coll[0].split('.')[0]
    inner = top.orelse[0]
    if [T(x) for x in inner.body] != ['%s+=1' % a] or [T(x) for x in inner.orelse] != ['%s+=1' % b]:
        return None
    rets = [r for r in ast.walk(h.node) if isinstance(r, ast.Return) and r.value is not None]
    if len(rets) != 1 or T(rets[0].value) not in ('tuple(%s)' % acc, acc):
        return None
    t = T(inner.test)
    aliases = {x.targets[0].id: T(x.value) for x in ast.walk(h.node) if isinstance(x, ast.Assign) and len(x.targets) == 1 and isinstance(x.targets[0], ast.Name)}
    mk = re.fullmatch(r'(.+)\(%s\[%s\]\)<\1\(%s\[%s\]\)' % (c1, a, c2, b), t)
    if mk:
        key = aliases.get(mk.group(1), mk.group(1))
        if key in ('self.domain.attrs.index',):
            return True, 'positions in the domain decide which side advances - the order the maximal cliques are kept in (domain.canonical)', inner
        raise AnalysisError('%s: merge sweep ordered by `%s`, which is not known to be the order the cliques are kept in' % (h.qualname, key))
    if t == '%s[%s]<%s[%s]' % (c1, a, c2, b):
        return False, ('the attribute NAMES decide which side advances, but the cliques are kept in the domain\'s attribute order: on a domain that is '
                       'not listed alphabetically a shared attribute is stepped over and the separator loses it'), inner
    return None


def check_separators(ctx):
    sep = ctx.repo.nfunc(JT, 'JunctionTree.separator_axes')
    rets = [r for r in walk_shallow(sep.node) if isinstance(r, ast.Return)]
    from ..srcmodel import alpha_text, alpha_of
    ok = bool(rets) and alpha_text(rets[-1].value) == alpha_of('{(i, j): tuple(set(i) & set(j)) for i, j in self.mp_order()}')
    if not ok:
        src = ctx.repo.func(JT, 'JunctionTree.separator_axes')
        sr = [r for r in walk_shallow(src.node) if isinstance(r, ast.Return)]
        ms = merged_intersection(ctx, src, sr[-1].value) if sr else None
        if ms is not None:
            okm, whym, where_ = ms
            ctx.ob('separators', sep, where_, okm, 'the separator of message (i,j) is the intersection of cliques i and j, here by a merge sweep over the two '
                   'clique tuples: ' + whym, construct='merge sweep of two cliques')
            ok = None
    if ok is not None:
        ctx.ob('separators', sep, rets[-1] if rets else sep.node, ok, 'the separator of message (i,j) is the intersection of cliques i and j')
    mc = ctx.repo.nfunc(JT, 'JunctionTree.maximal_cliques')
    nb = ctx.repo.nfunc(JT, 'JunctionTree.neighbors')
    r1 = [r for r in walk_shallow(mc.node) if isinstance(r, ast.Return)]
    from ..normalise import Defs, expand
    import re
    rt = U(expand(r1[-1].value, Defs(mc.body))).replace(' ', '') if r1 else ''
    # a view of the tree kept on the object: `self.X = <expr of self.tree>` stored once, in the constructor, after self.tree
    m_ = re.fullmatch(r'list\(self\.(\w+)((?:\.nodes(?:\(\))?)?)\)', rt)
    bare_ = re.fullmatch(r'self\.(\w+)', rt)
    if bare_ and bare_.group(1) != 'tree':
        # the stored list itself is handed out: GraphicalModel keeps it as `cliques`, callers may use it as a work list - every change to it
        # changes what the next maximal_cliques() / neighbors() call reports
        ctx.ob('cliques-of-triangulation', mc, r1[-1], False,
               'maximal_cliques returns `%s`, a list kept on the tree, without copying it: a caller that modifies the list it was given (pops it as a '
               'work list, appends to model.cliques) changes the tree\'s own record of its cliques' % rt, construct='ownership of the list of maximal cliques')
        m_ = re.fullmatch(r'list\(self\.(\w+)((?:\.nodes(?:\(\))?)?)\)', 'list(%s)' % rt)
    if m_ and m_.group(1) != 'tree':
        stores = []
        for q_, f_ in mc.module.funcs.items():
            if f_.cls is mc.cls:
                for a_ in ast.walk(f_.node):
                    if isinstance(a_, (ast.Assign, ast.AugAssign)):
                        for t_ in (a_.targets if isinstance(a_, ast.Assign) else [a_.target]):
                            for el_ in (t_.elts if isinstance(t_, (ast.Tuple, ast.List)) else [t_]):
                                if U(el_) == 'self.' + m_.group(1):
                                    stores.append((f_, a_))
        init_ = ctx.repo.nfunc(JT, 'JunctionTree.__init__')
        tree_store = [i_ for i_, s_ in enumerate(init_.body) if isinstance(s_, ast.Assign) and 'self.tree' in [U(e_) for t_ in s_.targets
                      for e_ in (t_.elts if isinstance(t_, (ast.Tuple, ast.List)) else [t_])]]
        if len(stores) == 1 and stores[0][0].name == '__init__' and isinstance(stores[0][1], ast.Assign) and len(stores[0][1].targets) == 1 \
                and stores[0][1] in stores[0][0].node.body and tree_store:
            pos_ = [i_ for i_, s_ in enumerate(init_.body) if U(s_) == U(stores[0][1])]
            if pos_ and pos_[0] > tree_store[-1]:
                rt = 'list(%s%s)' % (U(stores[0][1].value).replace(' ', ''), m_.group(2))
                while re.fullmatch(r'list\(list\(.*\)\)', rt):
                    rt = rt[5:-1]                  # list(list(X)) is list(X)
    # a depth-first PREORDER of the tree: every clique is listed after its tree parent (GraphicalModel.mle divides a clique's marginal by
    # the separator marginal shared with a clique listed earlier).  dfs_tree without a source adds all nodes first: insertion order.
    pre = re.fullmatch(r'list\(nx\.dfs_preorder_nodes\(self\.tree(,.+)?\)\)', rt) is not None or \
        re.fullmatch(r'list\(nx\.dfs_tree\(self\.tree,(?:source=)?.+\)(\.nodes(\(\))?)?\)', rt) is not None
    unordered = rt in ('list(self.tree.nodes())', 'list(self.tree.nodes)', 'list(self.tree)', 'list(nx.dfs_tree(self.tree).nodes())', 'list(nx.dfs_tree(self.tree).nodes)',
                       'list(nx.dfs_tree(self.tree))')
    if not pre and not unordered:
        raise AnalysisError('maximal_cliques: `%s` is in no recognised form' % rt[:80])
    ctx.ob('cliques-of-triangulation', mc, r1[-1] if r1 else mc.node, pre,
           'maximal_cliques enumerates the nodes of the tree in depth-first preorder (parents before children: GraphicalModel.mle relies on it)%s'
           % ('' if pre else '; `%s` lists them in insertion order' % rt))
    # ---- neighbors(): one entry for EVERY maximal clique (a one-clique tree has no edge, but its clique still has an - empty - entry) -------------
    nsrc = ctx.repo.func(JT, 'JunctionTree.neighbors')
    nrets = [r for r in walk_shallow(nsrc.node) if isinstance(r, ast.Return) and r.value is not None]
    if len(nrets) != 1:
        raise AnalysisError('JunctionTree.neighbors: expected one return')
    v = nrets[0].value
    if isinstance(v, ast.Name):
        vd = [a.value for a in walk_shallow(nsrc.node) if isinstance(a, ast.Assign) and len(a.targets) == 1 and U(a.targets[0]) == v.id]
        if len(vd) == 1 and isinstance(vd[0], ast.DictComp) and not any(isinstance(l_, ast.For) for l_ in walk_shallow(nsrc.node)):
            v = vd[0]              # the comprehension returned through a local
    ALL = ('self.maximal_cliques()', 'self.tree.nodes()', 'self.tree.nodes', 'self.tree')
    per_clique = isinstance(v, ast.DictComp) and len(v.generators) == 1 and not v.generators[0].ifs and U(v.generators[0].iter) in ALL \
        and U(v.key) == U(v.generators[0].target) and U(v.value).replace(' ', '') in ('set(self.tree.neighbors(%s))' % U(v.key), 'set(self.tree[%s])' % U(v.key),
                                                                                     'set(self.tree.adj[%s])' % U(v.key))
    if per_clique:
        ctx.ob('neighbors-complete', nb, nrets[0], True, 'neighbors() has one entry per maximal clique, holding its tree neighbours')
    elif isinstance(v, ast.Name):
        inits = [a.value for a in walk_shallow(nsrc.node) if isinstance(a, ast.Assign) and len(a.targets) == 1 and U(a.targets[0]) == v.id]
        edge_loops = [l for l in walk_shallow(nsrc.node) if isinstance(l, ast.For) and U(l.iter) in ('self.tree.edges()', 'self.tree.edges')]
        if len(inits) != 1 or len(edge_loops) != 1:
            raise AnalysisError('JunctionTree.neighbors: table `%s` built in no recognised form' % v.id)
        i0 = inits[0]
        seeded = isinstance(i0, ast.DictComp) and len(i0.generators) == 1 and not i0.generators[0].ifs and U(i0.generators[0].iter) in ALL \
            and U(i0.key) == U(i0.generators[0].target) and U(i0.value) == 'set()'
        empty = U(i0).replace(' ', '') in ('{}', 'dict()', 'defaultdict(set)', 'collections.defaultdict(set)')
        if not seeded and not empty:
            raise AnalysisError('JunctionTree.neighbors: table starts as `%s`, which is in no recognised form' % U(i0)[:60])
        a_, b_ = [U(x) for x in edge_loops[0].target.elts] if isinstance(edge_loops[0].target, ast.Tuple) and len(edge_loops[0].target.elts) == 2 else (None, None)
        body_t = {U(x).replace(' ', '') for x in edge_loops[0].body}
        fills = a_ is not None and (({'%s[%s].add(%s)' % (v.id, a_, b_), '%s[%s].add(%s)' % (v.id, b_, a_)} <= body_t) or
                                    ({'%s.setdefault(%s,set()).add(%s)' % (v.id, a_, b_), '%s.setdefault(%s,set()).add(%s)' % (v.id, b_, a_)} <= body_t))
        if not fills:
            raise AnalysisError('JunctionTree.neighbors: the loop over the tree edges fills `%s` in no recognised form' % v.id)
        ctx.ob('neighbors-complete', nb, nrets[0], seeded, 'neighbors() has one entry per maximal clique; the table %s' % (
            'is pre-seeded over `%s` and filled from the tree edges' % U(i0.generators[0].iter) if seeded else
            'grows from the tree EDGES only: a tree of one clique has no edge, its clique gets no entry at all (models over one complete clique: a '
            'single attribute, one clique covering the domain, nested cliques)'), construct='entries of neighbors()')
    else:
        raise AnalysisError('JunctionTree.neighbors: returns `%s`, which is in no recognised form' % U(v)[:60])

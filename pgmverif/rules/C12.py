"""C12 - junction tree construction and message schedule (structural clauses only).

The property as a whole - running intersection for every graph and elimination order - is a graph-theoretic theorem and is NOT
decided.  What is decided are the steps of the construction whose shape is a necessary condition of it:
  graph-from-cliques    the model graph has every domain attribute as a node and an edge for every pair of attributes of every clique
  elimination-fill-in   eliminating a node connects all pairs of its current neighbours *in the working graph* before removing it
                        (later eliminations must see earlier fill-in edges), and the triangulated graph = model graph + fill-in edges
  cliques-of-triangulation   tree nodes are the maximal cliques of the triangulated graph (so no node contains another), in the
                        domain's canonical attribute order
  tree-connected        every pair of maximal cliques gets an edge weighted by minus the size of its intersection and the tree is a
                        minimum spanning tree of that complete graph (a maximum-weight spanning tree of intersections; connected even for
                        attribute-disjoint components)
  order-modes           order None -> deterministic greedy order; an integer -> the cheapest of greedy and that many randomised orders;
                        otherwise the given order is used as is, and the chosen order is what the triangulation eliminates
  schedule              the schedule contains both directions of every tree edge, message (a,b) must precede (b,c) for every c != a
                        (exactly the dependency relation), and the schedule is a topological order of that relation
  separators            the separator of a message is the intersection of its two cliques
Not decided: that these steps yield the running-intersection property for all graphs (chordality + maximum-weight spanning tree theorem).
"""
import ast

from .C01 import check_fill_in, check_tree_connected
from ..srcmodel import AnalysisError, U, calls_in, walk_shallow

JT = 'src/mbi/junction_tree.py'


def run(ctx):
    repo = ctx.repo
    ctx.explanation = ('Ordering / pairing rules on the construction steps of JunctionTree: graph from cliques, elimination loop, '
                       'clique extraction, complete clique graph + spanning tree, order modes, message dependency relation and its '
                       'topological sort. Each is a necessary condition of a valid junction tree; the validity theorem itself is not decided.')
    ctx.rule_text = 'one obligation per construction step'
    ctx.trusted = ['networkx find_cliques / minimum_spanning_tree / topological_sort', 'elimination yields a chordal graph; a maximum-weight '
                   'spanning tree of the clique graph of a chordal graph is a junction tree (theorems, not checked)']
    check_graph(ctx)
    check_fill_in(ctx)
    check_tree_connected(ctx)
    check_cliques(ctx)
    check_modes(ctx)
    check_schedule(ctx)
    ctx.floor('construction steps checked', len(ctx.obligations), 12)


def check_graph(ctx):
    fi = ctx.repo.nfunc(JT, 'JunctionTree._make_graph')
    ctx.analysed(fi)
    nodes = [c for c in calls_in(fi.node) if isinstance(c.func, ast.Attribute) and c.func.attr == 'add_nodes_from']
    ok = any(U(c.args[0]) in ('self.domain.attrs', 'self.domain') for c in nodes)
    ctx.ob('graph-from-cliques', fi, nodes[0] if nodes else fi.node, ok, 'every attribute of the domain is a node of the model graph (also unmeasured ones)')
    loops = [s for s in fi.body if isinstance(s, ast.For) and U(s.iter) == 'self.cliques']
    ok = False
    if len(loops) == 1:
        cl = U(loops[0].target)
        ok = any(isinstance(c.func, ast.Attribute) and c.func.attr == 'add_edges_from' and c.args and
                 U(c.args[0]).replace(' ', '') in ('itertools.combinations(%s,2)' % cl,) for c in calls_in(loops[0])) and \
            not any(isinstance(n, (ast.If, ast.Continue, ast.Break)) for n in ast.walk(loops[0]))
    ctx.ob('graph-from-cliques', fi, loops[0] if loops else fi.node, ok, 'every pair of attributes of every clique is joined by an edge (no filter)')
    init = ctx.repo.nfunc(JT, 'JunctionTree.__init__')
    st = {U(s.targets[0]): U(s.value) for s in walk_shallow(init.node) if isinstance(s, ast.Assign) and len(s.targets) == 1}
    ok = st.get('self.cliques') in ('[tuple(cl) for cl in cliques]', 'list(map(tuple, cliques))') and st.get('self.graph') == 'self._make_graph()'
    ctx.ob('graph-from-cliques', init, init.node, ok, 'the tree is built from all the cliques it was given', construct='JunctionTree.__init__ stores')


def check_cliques(ctx):
    fi = ctx.repo.nfunc(JT, 'JunctionTree._make_tree')
    defs = {}
    for s in walk_shallow(fi.node):
        if isinstance(s, ast.Assign) and len(s.targets) == 1:
            defs.setdefault(U(s.targets[0]), []).append(s)
    tri = None
    for s in walk_shallow(fi.node):
        if isinstance(s, ast.Assign) and isinstance(s.targets[0], ast.Tuple) and isinstance(s.value, ast.Call) and \
                U(s.value.func) == 'self._triangulated':
            tri = (U(s.targets[0].elts[0]), s)
    cl = defs.get('cliques', [])
    ok = False
    if tri and cl:
        v = cl[-1].value
        t = U(v).replace(' ', '')
        ok = t in ('sorted([self.domain.canonical(c)forcinnx.find_cliques(%s)])' % tri[0],
                   '[self.domain.canonical(c)forcinnx.find_cliques(%s)]' % tri[0],
                   'sorted((self.domain.canonical(c)forcinnx.find_cliques(%s)))' % tri[0])
    ctx.ob('cliques-of-triangulation', fi, cl[-1] if cl else fi.node, ok,
           'tree nodes = maximal cliques (nx.find_cliques) of the triangulated graph returned by _triangulated, each in canonical attribute order')
    ok = tri is not None and len(tri[1].value.args) == 1 and U(tri[1].value.args[0]) == 'order'
    ctx.ob('order-modes', fi, tri[1] if tri else fi.node, ok, 'the triangulation eliminates in the chosen order')
    # triangulated graph = model graph + fill-in edges
    t = ctx.repo.nfunc(JT, 'JunctionTree._triangulated')
    tdefs = {U(s.targets[0]): s for s in walk_shallow(t.node) if isinstance(s, ast.Assign) and len(s.targets) == 1}
    tri_name = None
    rets = [r for r in walk_shallow(t.node) if isinstance(r, ast.Return)]
    if rets and isinstance(rets[-1].value, ast.Tuple):
        tri_name = U(rets[-1].value.elts[0])
    ok = tri_name in tdefs and U(tdefs[tri_name].value) in ('nx.Graph(self.graph)', 'self.graph.copy()') and \
        any(isinstance(c.func, ast.Attribute) and U(c.func.value) == tri_name and c.func.attr == 'add_edges_from' for c in calls_in(t.node))
    ctx.ob('elimination-fill-in', t, tdefs.get(tri_name) or t.node, ok,
           'the triangulated graph is a copy of the model graph plus all collected fill-in edges')


def check_modes(ctx):
    fi = ctx.repo.nfunc(JT, 'JunctionTree._make_tree')
    ifs = [s for s in fi.body if isinstance(s, ast.If)]
    ok_none = ok_int = False
    if ifs:
        top = ifs[0]
        if U(top.test) == 'order is None':
            ok_none = any(isinstance(s, ast.Assign) and U(s.targets[0]) == 'order' and
                          U(s.value).replace(' ', '') == 'self._greedy_order(stochastic=False)[0]' for s in top.body)
            for s in top.orelse:
                if isinstance(s, ast.If) and U(s.test).replace(' ', '') in ('type(order)isint', 'isinstance(order,int)'):
                    t = ' ; '.join(U(x) for x in s.body).replace(' ', '')
                    ok_int = 'self._greedy_order(stochastic=False)' in t and 'self._greedy_order(stochastic=True)for_inrange(order)' in t \
                        and 'min(orders,key=lambdax:x[1])[0]' in t
    ctx.ob('order-modes', fi, ifs[0] if ifs else fi.node, ok_none, 'order None selects the deterministic greedy order')
    ctx.ob('order-modes', fi, ifs[0] if ifs else fi.node, ok_int,
           'an integer selects the cheapest among the greedy order and that many randomised orders', construct='integer order mode')
    store = [s for s in fi.body if isinstance(s, ast.Assign) and U(s.targets[0]) == 'self.elimination_order']
    ctx.ob('order-modes', fi, store[0] if store else fi.node, bool(store) and U(store[0].value) == 'order',
           'the order actually used is recorded as elimination_order (synthetic data generation walks it backwards)')


def check_schedule(ctx):
    fi = ctx.repo.nfunc(JT, 'JunctionTree.mp_order')
    ctx.analysed(fi)
    defs = {U(s.targets[0]): s for s in walk_shallow(fi.node) if isinstance(s, ast.Assign) and len(s.targets) == 1}
    m = defs.get('messages')
    ok = m is not None and U(m.value).replace(' ', '') in (
        '[(a,b)for(a,b)inself.tree.edges()]+[(b,a)for(a,b)inself.tree.edges()]',
        '[(a,b)for(a,b)inself.tree.edges()]+[(b,a)for(a,b)inself.tree.edges()]'.replace('(a,b)in', 'a,bin'))
    ctx.ob('schedule', fi, m or fi.node, ok, 'one message per direction of every tree edge')
    # dependency relation
    loops = [s for s in fi.body if isinstance(s, ast.For) and U(s.iter) == 'messages']
    ok = False
    where = fi.node
    if loops:
        inner = [s for s in loops[0].body if isinstance(s, ast.For) and U(s.iter) == 'messages']
        if inner:
            m1, m2 = U(loops[0].target), U(inner[0].target)
            ifs = [s for s in inner[0].body if isinstance(s, ast.If)]
            if ifs:
                where = ifs[0]
                t = U(ifs[0].test).replace(' ', '')
                cond = t in ('%s[1]==%s[0]and%s[0]!=%s[1]' % (m1, m2, m1, m2), '%s[0]!=%s[1]and%s[1]==%s[0]' % (m1, m2, m1, m2))
                add = any(isinstance(c.func, ast.Attribute) and c.func.attr == 'add' and U(c.args[0]).replace(' ', '') == '(%s,%s)' % (m1, m2)
                          for c in calls_in(ifs[0]))
                ok = cond and add
    ctx.ob('schedule', fi, where, ok,
           'message (a,b) must precede every (b,c) with c != a - and nothing else - : edge m1 -> m2 iff m1[1] == m2[0] and m1[0] != m2[1]')
    rets = [r for r in walk_shallow(fi.node) if isinstance(r, ast.Return)]
    g = None
    for c in calls_in(fi.node):
        if U(c.func) in ('nx.DiGraph',):
            par = getattr(c, '_parent', None)
            if isinstance(par, ast.Assign):
                g = U(par.targets[0])
    nodes = any(isinstance(c.func, ast.Attribute) and U(c.func.value) == g and c.func.attr == 'add_nodes_from' and U(c.args[0]) == 'messages'
                for c in calls_in(fi.node))
    edges = any(isinstance(c.func, ast.Attribute) and U(c.func.value) == g and c.func.attr == 'add_edges_from' and U(c.args[0]) == 'edges'
                for c in calls_in(fi.node))
    ok = bool(rets) and g is not None and nodes and edges and U(rets[-1].value).replace(' ', '') == 'list(nx.topological_sort(%s))' % g
    ctx.ob('schedule', fi, rets[-1] if rets else fi.node, ok,
           'the schedule is a topological order of the dependency graph over ALL messages (isolated messages included)')
    sep = ctx.repo.nfunc(JT, 'JunctionTree.separator_axes')
    rets = [r for r in walk_shallow(sep.node) if isinstance(r, ast.Return)]
    ok = bool(rets) and U(rets[-1].value).replace(' ', '') in ('{(i,j):tuple(set(i)&set(j))for(i,j)inself.mp_order()}',
                                                                '{(i,j):tuple(set(i)&set(j))fori,jinself.mp_order()}')
    ctx.ob('separators', sep, rets[-1] if rets else sep.node, ok, 'the separator of message (i,j) is the intersection of cliques i and j')
    mc = ctx.repo.nfunc(JT, 'JunctionTree.maximal_cliques')
    nb = ctx.repo.nfunc(JT, 'JunctionTree.neighbors')
    r1 = [r for r in walk_shallow(mc.node) if isinstance(r, ast.Return)]
    ok = bool(r1) and U(r1[-1].value).replace(' ', '') in ('list(nx.dfs_preorder_nodes(self.tree))', 'list(self.tree.nodes())', 'list(self.tree.nodes)')
    ctx.ob('cliques-of-triangulation', mc, r1[-1] if r1 else mc.node, ok, 'maximal_cliques enumerates exactly the nodes of the tree')

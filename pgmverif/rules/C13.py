"""C13 - estimation is history-free; returned models are immutable snapshots (structural clauses).

  A1 no-foreign-mutation   every in-place write reachable from a public method of FactoredInference (through resolved calls
                           into graphical_model / clique_vector / factor / junction_tree) acts on an object allocated in the
                           same activation: never on a caller input, on an object found in a self attribute on entry
                           (persistent state, possibly the model returned by the previous call) or on a shared default object
  A2 per-call-state        attributes assigned outside __init__ (today: model, groups) are written before they are read within
                           one activation, on every path - unless the read is under a test that has self.warm_start as a conjunct
  A2b warm-start-use       the previous model may only be used as the argument of `<new potentials>.combine(...)`
  A3 config-read-only      attributes assigned by __init__ are never assigned elsewhere
  A4 mutable-default       a parameter whose default is a mutable display is written only through constant keys, each written
                           unconditionally before the parameter's first read in that call
  A5 rng-guard             random draws reachable from estimate happen only in the integer-elimination-order mode
Not decided: numerical identity with a fresh estimator; that warm start converges to the cold-start optimum.
"""
import ast
import re

from ..absint import Structured
from ..engines.alias import Scope, FuncAlias
from ..engines.solvers import find_setup
from ..srcmodel import AnalysisError, U, calls_in, walk_shallow, header, target_names

INF = 'src/mbi/inference.py'
UNITS = ['src/mbi/inference.py', 'src/mbi/graphical_model.py', 'src/mbi/clique_vector.py', 'src/mbi/factor.py',
         'src/mbi/junction_tree.py', 'src/mbi/domain.py']
PARAM_KINDS = {'measurements': 'list', 'options': 'dict', 'potentials': 'cv', 'marginals': 'cv', 'structural_zeros': 'dict'}
ENGINE_DOMAIN = {'engine': ['MD', 'RDA', 'IG']}       # the documented options; other strings are outside the quantifier
EXCEPTIONS = {
    # (function, token) -> reason.  Single named constructs only.
    ('FactoredInference.estimate', 'P:options'): 'the only write is the constant key "callback", governed by rule A4',
    ('FactoredInference.infer', 'P:options'): 'forwards options to estimate (rule A4 applies there)',
}


def run(ctx):
    repo = ctx.repo
    ctx.explanation = (
        'Origin / mutation analysis (E2): every value carries may-sets of origin tokens (fresh, parameter, persistent self '
        'attribute, shared default); per-function mutation summaries are iterated to a fixpoint over inference.py, '
        'graphical_model.py, clique_vector.py, factor.py, junction_tree.py, domain.py with name/kind based call resolution; '
        'every in-place write must hit a fresh object. Plus definite assignment of per-call attributes through self.* calls, '
        'read-only configuration, mutable-default discipline and a guard rule for random draws.')
    ctx.rule_text = ('one obligation per mutation site in scope, per read of a per-call attribute on a public path, per '
                     'configuration attribute, per mutable-default parameter, per random draw')
    ctx.trusted = ['call resolution by receiver kind / method name over the scope; library calls allocate unless tabled as views',
                   'callbacks supplied by the user are outside the check',
                   'a remembered construction keyed by frozenset / tuple of a collection (engines/memo.py keyed_snapshot) depends on that collection '
                   'only through the key: a model\'s structure is a function of its set of cliques']
    scope = Scope(repo, UNITS, PARAM_KINDS)
    scope.solve()
    methods = repo.nmethods(INF, 'FactoredInference')
    public = [m for n, m in methods.items() if not n.startswith('_') or n == '__init__']
    check_A1(ctx, scope, methods, public)
    percall, config = attr_classes(methods)
    # memo tables that are valid across calls (memo-validity) and their snapshots are caches, not per-call state
    for name, m in repo.methods(INF, 'FactoredInference').items():
        for X, verdict in cross_call_memos(m).items():
            if verdict[0]:
                percall.discard(X)
                for sn in (verdict[2] if len(verdict) > 2 else []):
                    percall.discard(sn)
    from ..engines.memo import keyed_snapshots_of
    for name, m in repo.methods(INF, 'FactoredInference').items():
        for vattr, kattr, valid, why, node_ in keyed_snapshots_of(repo, m):
            ctx.ob('memo-validity', m, m.node, valid, 'remembered construction self.%s keyed by self.%s: %s' % (vattr, kattr, why),
                   construct='keyed snapshot self.%s in %s' % (vattr, m.name))
            if valid:
                percall.discard(vattr)
                percall.discard(kattr)
    # values computed once per OBJECT (functools.cached_property): only sound when they read nothing that can change after construction
    from ..engines.memo import ClassInfo, self_attr
    info_ = ClassInfo(repo, repo.module(INF), 'FactoredInference')
    for name, m in repo.methods(INF, 'FactoredInference').items():
        decs = [U(d.func if isinstance(d, ast.Call) else d) for d in getattr(m.node, 'decorator_list', [])]
        if any(d in ('cached_property', 'functools.cached_property') for d in decs):
            ctx.analysed(m)
            reads = sorted({self_attr(n) for n in ast.walk(m.node) if isinstance(n, ast.Attribute) and isinstance(n.ctx, ast.Load)} - {None})
            unstable = [a for a in reads if not info_.stable(a) and a not in info_.methods]
            ctx.ob('A3-config-read-only', m, m.node, not unstable,
                   '`%s` is computed once per object (cached_property); it reads %s%s' % (name, ['self.' + a for a in reads], '' if not unstable else
                   ' - of which %s can be re-bound after construction (%s): the value of the first use is kept, later changes are silently ignored, and what a '
                   'call computes then depends on the calls before it' % (['self.' + a for a in unstable],
                                                                          'from outside the object, as the mechanisms do' if any(a in info_.foreign for a in unstable) else 'by methods of the class')),
                   construct='cached property ' + name)
    ctx.count('per-call attributes', len(percall))
    ctx.count('configuration attributes', len(config))
    if not percall:
        raise AnalysisError('no per-call attribute found (setup method vanished?)')
    check_A2(ctx, repo, methods, public, percall)
    check_A2b(ctx, repo, methods)
    check_A3(ctx, methods, config)
    check_A4(ctx, methods)
    check_A5(ctx, repo, scope)


# ------------------------------------------------------------------------------------------------ A1
def describe(tok):
    if tok.startswith('P:'):
        return 'the caller\'s `%s`' % tok[2:]
    if tok.startswith('Pe:'):
        return 'an object held by the caller\'s `%s`' % tok[3:]
    if tok.startswith('S:'):
        return 'the object found in self.%s on entry (persistent state / previously returned model)' % tok[2:]
    if tok == 'G':
        return 'a shared default-argument or module-level object'
    return 'an object of unknown origin'


from ..normalise import cross_call_memos


def check_A1(ctx, scope, methods, public):
    entry = {m.qualname for m in public}
    n = 0
    memos = {}
    for name, m in ctx.repo.methods(INF, 'FactoredInference').items():      # the source methods, helpers included
        for X, verdict in cross_call_memos(m).items():
            memos[X] = verdict
            ctx.ob('memo-validity', m, m.node, verdict[0], 'cross-call memo table self.%s: %s' % (X, verdict[1]),
                   construct='memo table self.%s in %s' % (X, m.name))
    keyed_state = set()
    try:
        from ..engines.solvers import find_setup
        from ..normalise import normalised
        from .C04 import per_key_reset
        setup_ = normalised(ctx.repo, find_setup(ctx.repo, INF, 'FactoredInference'))
        pk = per_key_reset(ctx.repo, setup_)
        if pk is not None:
            ctx.ob('A2-per-call-state', setup_, pk[2], pk[0], 'self.groups is kept on the object and emptied key by key: %s' % pk[1],
                   construct='per-key reset of self.groups')
            if pk[0]:
                keyed_state.add('groups')
    except AnalysisError:
        pass
    for key, fi in scope.funcs.items():
        s = scope.summaries[key]
        in_engine = fi.cls is not None and fi.cls.name == 'FactoredInference'
        seen = set()
        for site in s.sites:
            node = site.node
            k = (getattr(node, 'lineno', 0), getattr(node, 'col_offset', 0), site.what)
            if k in seen:
                continue
            seen.add(k)
            n += 1
            foreign = sorted(t for t in site.origins if t != 'F')
            bad = []
            for t in foreign:
                if t.startswith(('P:', 'Pe:')):
                    if fi.qualname in entry and not (t.split(':')[1] == 'self'):
                        if (fi.qualname, 'P:' + t.split(':')[1]) in EXCEPTIONS:
                            continue
                        bad.append(t)
                    # otherwise: the obligation transfers to the callers through the summary
                elif t.startswith('S:'):
                    if in_engine:
                        bad.append(t)
                elif in_engine:
                    bad.append(t)
            ok = not bad
            # a memo table is judged by memo-validity above (and reported there if it is not valid)
            bad = [t for t in bad if not (t.startswith('S:') and t[2:] in memos)]
            # a container emptied key by key for every key of the current call (rules/C04 per_key_reset) behaves like per-call state
            bad = [t for t in bad if not (t.startswith('S:') and t[2:] in keyed_state)]
            ok = not bad
            if ok and foreign:
                detail = '%s: writes to %s - obligation transferred to the call sites (summary)' % (site.what, ', '.join(foreign))
            elif ok:
                detail = '%s: target allocated in this activation' % site.what
            else:
                detail = '%s modifies %s' % (site.what, '; '.join(describe(t) for t in bad))
            ctx.ob('A1-no-foreign-mutation', fi, node, ok, detail)
    ctx.floor('mutation sites classified', n, 30)
    for (fn, tok), why in EXCEPTIONS.items():
        ctx.note('exception to A1: %s %s - %s' % (fn, tok, why))


# ------------------------------------------------------------------------------------------------ attribute classes
def attr_classes(methods):
    init_attrs, other_attrs = set(), set()
    for name, fi in methods.items():
        for s in walk_shallow(fi.node):
            tg = s.targets if isinstance(s, ast.Assign) else ([s.target] if isinstance(s, (ast.AugAssign, ast.AnnAssign)) else [])
            for t in tg:
                for el in (t.elts if isinstance(t, (ast.Tuple, ast.List)) else [t]):
                    if isinstance(el, ast.Attribute) and U(el.value) == 'self':
                        (init_attrs if name == '__init__' else other_attrs).add(el.attr)
    # a slot the constructor only marks as "nothing yet" (`self.x = None`) and a method fills in is per-call state, not configuration: its
    # reads are judged like those of any other attribute written during a call (A2: no read before this activation's write, except under
    # the warm-start flag)
    unset = set()
    init = methods.get('__init__')
    if init is not None:
        for s in walk_shallow(init.node):
            if isinstance(s, ast.Assign) and isinstance(s.value, ast.Constant) and s.value.value is None:
                for t in s.targets:
                    if isinstance(t, ast.Attribute) and U(t.value) == 'self' and t.attr in other_attrs:
                        unset.add(t.attr)
    return (other_attrs - init_attrs) | unset, init_attrs - unset


# ------------------------------------------------------------------------------------------------ A2
class DefUse(Structured):
    """must-set of per-call attributes written so far in this activation; reads outside the set are 'exposed'"""

    def __init__(self, methods, percall, fi, stack, cache, flag_domains):
        super().__init__()
        self.methods, self.percall, self.fi, self.stack, self.cache = methods, percall, fi, stack, cache
        self.exposed = []      # (attr, node, fi)
        self.flag_domains = flag_domains
        self.warm = 0

    def copy(self, st):
        return (set(st[0]), dict(st[1]))

    def join(self, a, b):
        return (a[0] & b[0], {k: a[1][k] | b[1].get(k, set()) for k in a[1] if k in b[1]})

    def reads(self, e, st):
        if e is None:
            return
        for n in ast.walk(e):
            if isinstance(n, ast.Call) and isinstance(n.func, ast.Attribute) and U(n.func.value) == 'self' \
                    and n.func.attr in self.methods and n.func.attr not in self.stack:
                ex, wr = summary_A2(self.methods, self.percall, self.methods[n.func.attr], self.stack + (n.func.attr,),
                                    self.cache, self.flag_domains)
                for attr, node, fi in ex:
                    if attr not in st[0] and not self.warm:
                        self.exposed.append((attr, node, fi))
                st[0].update(wr)
        for n in ast.walk(e):
            if isinstance(n, ast.Attribute) and isinstance(n.ctx, ast.Load) and U(n.value) == 'self' and n.attr in self.percall:
                if n.attr not in st[0] and not self.warm:
                    self.exposed.append((n.attr, n, self.fi))

    def on_assign(self, st, s):
        self.reads(s.value, st)
        for t in (s.targets if isinstance(s, ast.Assign) else [s.target]):
            for el in (t.elts if isinstance(t, (ast.Tuple, ast.List)) else [t]):
                if isinstance(el, ast.Attribute) and U(el.value) == 'self' and el.attr in self.percall:
                    st[0].add(el.attr)
                elif isinstance(el, (ast.Subscript, ast.Attribute)):
                    self.reads(el.value, st)
        return st

    def on_augassign(self, st, s):
        self.reads(s.value, st)
        self.reads(s.target, st)
        return st

    def on_expr(self, st, e, s):
        if isinstance(s, ast.If) and self.is_warm(e):
            # the test itself may read per-call state only after the warm_start conjunct
            return st
        self.reads(e, st)
        return st

    def on_return(self, st, s):
        self.reads(s.value, st)
        return st

    def on_bind(self, st, target, it, s):
        return st

    @staticmethod
    def is_warm(test):
        if U(test) == 'self.warm_start':
            return True
        if isinstance(test, ast.BoolOp) and isinstance(test.op, ast.And):
            return any(U(v) == 'self.warm_start' for v in test.values)
        return False

    def stmt(self, s, st):
        if isinstance(s, ast.If) and self.is_warm(s.test):
            # reads in the true branch are history-dependent by design (warm start)
            self.warm += 1
            t = self.block(s.body, self.copy(st))
            self.warm -= 1
            f = self.block(s.orelse, self.copy(st))
            return self._join(t, f)
        return super().stmt(s, st)

    def refine(self, st, test, truth):
        # flag domains: `engine == 'MD'` etc.
        if isinstance(test, ast.Compare) and len(test.ops) == 1 and isinstance(test.ops[0], ast.Eq) and \
                isinstance(test.left, ast.Name) and test.left.id in self.flag_domains and isinstance(test.comparators[0], ast.Constant):
            dom = st[1].setdefault(test.left.id, set(self.flag_domains[test.left.id]))
            c = test.comparators[0].value
            new = (dom & {c}) if truth else (dom - {c})
            if not new:
                return None
            st[1][test.left.id] = new
        return st

    def on_funcdef(self, st, node):
        # a nested function (or a lambda bound to a name) reads what its body reads - when it is called, which is within this activation:
        # its reads are taken where it is defined
        for b in node.body:
            self.reads(b, st)
        return st

    def unsupported(self, st, stmt):
        return st


def summary_A2(methods, percall, fi, stack, cache, flag_domains):
    key = fi.qualname
    if key in cache:
        return cache[key]
    an = DefUse(methods, percall, fi, stack, cache, flag_domains)
    exits = an.exits(fi.body, (set(), {}))
    writes = None
    for stmt, st in exits:
        writes = set(st[0]) if writes is None else (writes & st[0])
    cache[key] = (an.exposed, writes or set())
    return cache[key]


def check_A2(ctx, repo, methods, public, percall):
    cache = {}
    n = 0
    reported = set()
    for fi in public:
        if fi.name == '__init__':
            continue
        exposed, writes = summary_A2(methods, percall, fi, (fi.name,), cache, ENGINE_DOMAIN)
        seen = set()
        for attr, node, where in exposed:
            k = (attr, node.lineno, node.col_offset)
            if k in seen or k in reported:
                continue
            seen.add(k)
            reported.add(k)
            n += 1
            ctx.ob('A2-per-call-state', where, node, False,
                   'self.%s is read on a path from the public method %s before this activation has written it: the value '
                   'comes from an earlier call (history dependence)' % (attr, fi.name),
                   construct='read of self.%s in `%s`' % (attr, header(getattr(node, '_parent', node)) if not isinstance(node, ast.stmt) else header(node)))
        ctx.ob('A2-per-call-state', fi, fi.node, not exposed,
               'public method %s: every read of %s is preceded by a write in the same activation (writes on all paths: %s)'
               % (fi.name, sorted(percall), sorted(writes)), construct='def ' + fi.name)


def check_A2b(ctx, repo, methods):
    setup = find_setup(repo, INF, 'FactoredInference')
    n = 0
    for node in ast.walk(setup.node):
        if isinstance(node, ast.Attribute) and isinstance(node.ctx, ast.Load) and U(node) == 'self.model':
            # find the enclosing expression statement / call
            par = getattr(node, '_parent', None)
            top = node
            while par is not None and not isinstance(par, ast.stmt):
                top = par
                par = getattr(par, '_parent', None)
            # reads after `self.model = ...` in the same activation refer to the new model
            assigned_before = any(isinstance(s, ast.Assign) and any(U(t) == 'self.model' for t in s.targets)
                                  and s.lineno < node.lineno for s in walk_shallow(setup.node))
            if assigned_before:
                continue
            n += 1
            ok = isinstance(top, ast.Call) and isinstance(top.func, ast.Attribute) and top.func.attr == 'combine' \
                and len(top.args) == 1 and U(top.args[0]) == 'self.model.potentials'
            ctx.ob('A2b-warm-start-use', setup, par or node, ok,
                   'the previous model may only contribute its potentials, added into the new ones by combine(); found `%s`'
                   % U(top)[:80])
    ctx.count('uses of the previous model in setup', n)


# ------------------------------------------------------------------------------------------------ A3
def check_A3(ctx, methods, config):
    bad = {}
    for name, fi in methods.items():
        if name == '__init__':
            continue
        for s in walk_shallow(fi.node):
            tg = s.targets if isinstance(s, ast.Assign) else ([s.target] if isinstance(s, (ast.AugAssign, ast.AnnAssign)) else [])
            for t in tg:
                for el in (t.elts if isinstance(t, (ast.Tuple, ast.List)) else [t]):
                    if isinstance(el, ast.Attribute) and U(el.value) == 'self' and el.attr in config:
                        bad.setdefault(el.attr, []).append((fi, s))
    loaded = {n.attr for fi in methods.values() for n in ast.walk(fi.node)
              if isinstance(n, ast.Attribute) and isinstance(n.ctx, ast.Load) and U(n.value) == 'self'}
    for a in sorted(config):
        if a in bad and a not in loaded:
            # written (by the constructor and later) but never read by any method of the engine: a record kept for the caller, which no
            # computation of a later call can depend on
            for fi, s in bad[a]:
                ctx.ob('A3-config-read-only', fi, s, True,
                       'self.%s is re-assigned during %s, but no method of the engine ever reads it (a write-only record for the caller)' % (a, fi.name))
            continue
        if a in bad:
            for fi, s in bad[a]:
                ctx.ob('A3-config-read-only', fi, s, False,
                       'configuration attribute self.%s (set by the constructor) is re-assigned during %s: later calls see a '
                       'different configuration' % (a, fi.name))
        else:
            ctx.ob('A3-config-read-only', (INF, 'FactoredInference'), a, True,
                   'self.%s is assigned by __init__ only' % a, construct='self.' + a)


# ------------------------------------------------------------------------------------------------ A4
def is_mutable_default(d):
    if isinstance(d, (ast.Dict, ast.List, ast.Set)):
        return True
    return isinstance(d, ast.Call) and isinstance(d.func, ast.Name) and d.func.id in ('dict', 'list', 'set', 'defaultdict')


def check_A4(ctx, methods):
    n = 0
    for name, fi in methods.items():
        for p, d in fi.defaults().items():
            if not is_mutable_default(d):
                continue
            n += 1
            top = fi.body
            events = []      # (lineno, kind, key, unconditional, node)
            for s in walk_shallow(fi.node):
                if isinstance(s, (ast.Assign, ast.AugAssign)):
                    tg = s.targets if isinstance(s, ast.Assign) else [s.target]
                    for t in tg:
                        if isinstance(t, ast.Subscript) and U(t.value) == p:
                            const = isinstance(t.slice, ast.Constant)
                            kind = 'store' if (const and isinstance(s, ast.Assign)) else 'bad-write'
                            events.append((s.lineno, kind, U(t.slice), s in top, s))
                if isinstance(s, ast.Call) and isinstance(s.func, ast.Attribute) and U(s.func.value) == p:
                    if s.func.attr in ('update', 'pop', 'setdefault', 'clear', 'popitem', 'append', 'extend', 'insert', 'remove'):
                        events.append((s.lineno, 'bad-write', s.func.attr, False, s))
                    else:
                        events.append((s.lineno, 'read', None, False, s))
                if isinstance(s, ast.keyword) and s.arg is None and U(s.value) == p:
                    events.append((s.value.lineno, 'read', None, False, s.value))
                if isinstance(s, ast.Subscript) and isinstance(s.ctx, ast.Load) and U(s.value) == p:
                    events.append((s.lineno, 'read', U(s.slice), False, s))
                if isinstance(s, ast.Call) and any(isinstance(a, ast.Name) and a.id == p for a in s.args):
                    events.append((s.lineno, 'forward', None, False, s))
                if isinstance(s, ast.For) and U(s.iter) == p:
                    events.append((s.lineno, 'read', None, False, s))
            events.sort(key=lambda e: e[0])
            first_read = min([e[0] for e in events if e[1] == 'read'] or [10 ** 9])
            problems = []
            keys = {}
            for ln, kind, key, uncond, node in events:
                if kind == 'bad-write':
                    problems.append('`%s` mutates the shared default beyond constant-key stores' % U(node)[:60])
                if kind == 'store':
                    keys.setdefault(key, []).append((ln, uncond))
            for key, occ in keys.items():
                ln, uncond = occ[0]
                if not uncond or ln > first_read:
                    problems.append('key %s is not written unconditionally before the first read: a value stored by an earlier '
                                    'call leaks into this one' % key)
            ctx.ob('A4-mutable-default', fi, fi.node, not problems,
                   'parameter `%s` defaults to a shared mutable object; %s' % (p, '; '.join(problems) if problems else
                                                                                'written only through constant keys %s, each unconditionally before the first read'
                                                                                % sorted(keys) if keys else 'never written'),
                   construct='%s(%s=%s)' % (fi.name, p, U(d)))
    ctx.floor('mutable-default parameters', n, 2)


# ------------------------------------------------------------------------------------------------ A5
def check_A5(ctx, repo, scope):
    """random draws in the scope reachable from estimate: only in the integer-order mode"""
    # call graph over the scope (name based)
    edges = {}
    for key, fi in scope.funcs.items():
        an = FuncAlias(scope, fi)
        st = an.initial()
        outs = set()
        for c in calls_in(fi.node):
            try:
                cands, _, _ = an.resolve(c, st)
            except Exception:
                cands = []
            for m in cands:
                outs.add((m.rel, m.qualname))
        edges[key] = outs
    start = (INF, 'FactoredInference.estimate')
    reach, todo = {start}, [start]
    while todo:
        k = todo.pop()
        for o in edges.get(k, ()):
            if o not in reach:
                reach.add(o)
                todo.append(o)
    n = 0
    for key in sorted(reach):
        fi = scope.funcs[key]
        for c in calls_in(fi.node):
            d = fi.module.dotted(c.func) if isinstance(c.func, (ast.Attribute, ast.Name)) else None
            if d and d.startswith('numpy.random'):
                n += 1
                ok, why = rng_guarded(scope, fi, c)
                ctx.ob('A5-rng-guard', fi, c, ok, why)
    ctx.count('functions reachable from estimate', len(reach))
    ctx.floor('random draws reachable from estimate', n, 1)


def enclosing_tests(node, stop):
    out = []
    child, par = node, getattr(node, '_parent', None)
    while par is not None and par is not stop:
        if isinstance(par, ast.If):
            branch = 'body' if any(child is x or child in list(ast.walk(x)) for x in par.body) else 'orelse'
            out.append((par.test, branch == 'body'))
        child, par = par, getattr(par, '_parent', None)
    return out


def rng_guarded(scope, fi, call):
    def positive(tests_):
        out = []
        for t_, truth_ in tests_:
            while isinstance(t_, ast.UnaryOp) and isinstance(t_.op, ast.Not):
                t_, truth_ = t_.operand, not truth_          # the else branch of `if not flag` runs when the flag is set
            out.append((t_, truth_))
        return out
    tests = positive(enclosing_tests(call, fi.node))
    flag = None
    for t, truth in tests:
        if isinstance(t, ast.Name) and t.id in fi.params and truth:
            flag = t.id
    if flag is None:
        return False, 'random draw `%s` is not under a mode flag of %s' % (U(call)[:50], fi.qualname)
    # every caller that may pass a true flag must sit in the integer-order branch
    bad = []
    n_callers = 0
    for key, g in scope.funcs.items():
        for c in calls_in(g.node):
            if isinstance(c.func, ast.Attribute) and c.func.attr == fi.name or (isinstance(c.func, ast.Name) and c.func.id == fi.name):
                val = None
                for k in c.keywords:
                    if k.arg == flag:
                        val = k.value
                idx = fi.params.index(flag) - (1 if fi.params[0] == 'self' else 0)
                if val is None and len(c.args) > idx:
                    val = c.args[idx]
                if val is None:
                    val = fi.defaults().get(flag)
                if isinstance(val, ast.Constant) and not val.value:
                    continue
                n_callers += 1
                guards = positive(enclosing_tests(c, g.node))
                ok = any(truth and ('is int' in U(t) or 'isinstance' in U(t) and 'int' in U(t)) for t, truth in guards)
                if not ok:
                    # inside `for _ in range(R)` where R is 0 unless the order is an integer: R = 0 | R = <order> or 0 under (order is None or int)
                    par = getattr(c, '_parent', None)
                    loop_ = None
                    while par is not None:
                        if isinstance(par, ast.For) and isinstance(par.iter, ast.Call) and U(par.iter.func) == 'range' and len(par.iter.args) == 1 \
                                and isinstance(par.iter.args[0], ast.Name):
                            loop_ = par
                        par = getattr(par, '_parent', None)
                    if loop_ is not None:
                        R = loop_.iter.args[0].id
                        defs_R = [a_ for a_ in ast.walk(g.node) if isinstance(a_, ast.Assign) and any(isinstance(t_, ast.Name) and t_.id == R for t_ in a_.targets)]
                        def zero_unless_int(a_):
                            v_ = U(a_.value).replace(' ', '')
                            if v_ in ('0',):
                                return True
                            gs = positive(enclosing_tests(a_, g.node))
                            for t_, truth_ in gs:
                                if not truth_:
                                    continue
                                parts = t_.values if isinstance(t_, ast.BoolOp) and isinstance(t_.op, ast.Or) else [t_]
                                kinds = []
                                for p_ in parts:
                                    tt = U(p_).replace(' ', '')
                                    kinds.append('int' if ('isint' in tt or ('isinstance' in tt and 'int' in tt)) else 'none' if tt.endswith(('isNone', '==None')) else '?')
                                if '?' in kinds or 'int' not in kinds:
                                    continue
                                subj = [U(p_.left) if isinstance(p_, ast.Compare) else '' for p_ in parts]
                                if 'none' in kinds:
                                    # None must map to 0: `<order> or 0`
                                    return bool(re.fullmatch(r'(\w+)or0', v_))
                                return bool(re.fullmatch(r'\w+(or0)?', v_))
                            return False
                        ok = bool(defs_R) and all(zero_unless_int(a_) for a_ in defs_R)
                if not ok:
                    bad.append('%s: `%s`' % (g.qualname, U(c)[:50]))
    if bad:
        return False, 'random mode `%s` of %s can be switched on outside the integer-order branch: %s' % (flag, fi.qualname, '; '.join(bad))
    return True, 'draw is under `%s`, which is only passed true inside the `type(order) is int` branch (%d call site(s))' % (flag, n_callers)

"""C14 - factor algebra is addressed by attribute name, never by position.

Decided statically (E1 layout types + structural pairing rules):
  construct      every array handed to Factor(D, .) in factor.py is laid out by D
  axis-by-name   every axis index (reductions, moveaxis, transpose) is a name->position lookup on the
                 operand's own domain; the only positional source accepted is range(len(ax))
  elementwise    elementwise numpy operations combine equally laid out arrays
  inplace        in-place forms add/multiply an array laid out by self.domain
  index-by-name  `condition` indexes with a tuple built by iterating the operand's own domain
  operands       every binary method uses the values of both operands on the non-scalar path
  result-domain  project/transpose answer in the requested order; binary ops answer over the merged domain
  aggregation-mode  project reduces with the reducer the caller asked for (read once per mode, tests on the mode decided)
  scalar-cells        scalar * factor is the product clipped by nan_to_num in every cell (cell-level interpreter)
  log-form            Factor.log is log(values + 1e-100): a shift, not a floor
  difference-cells    factor - factor is a - b in every cell, a subtrahend of -inf left out (cell-level interpreter)
  exp-form            Factor.exp is exp(values); a cap on the exponent only at the largest exponent of a double
  cv-difference       CliqueVector.__sub__ is the sum with the operand negated by scalar multiplication (not Factor's log-domain `-`)
  results-writable    outside expand no read-only broadcast view reaches a returned factor (in-place forms work on derived factors)
  operators-allocate  the non in-place operators / reductions return a table allocated by the call (never an operand or a view of it)
  out-contract   every `x.exp/log/copy(out=y)` call site passes the receiver itself
  axes-primitive Domain.axes is a by-name lookup into the domain's own attribute tuple
  none-test      an `attrs=None` default meaning "aggregate everything" is tested against None, not by truthiness
  cv-keys        CliqueVector arithmetic pairs equal keys;  cv-combine adds each source factor to exactly
                 one containing target clique
Not decided: value-level behaviour of the numpy primitives themselves (trusted).
"""
import ast
import re

from ..engines.layout import LayoutTyper, V, show
from ..srcmodel import AnalysisError, U, calls_in, header

FACTOR = 'src/mbi/factor.py'
CV = 'src/mbi/clique_vector.py'
DOMAIN = 'src/mbi/domain.py'

BINARY = ['__add__', '__sub__', '__mul__', '__truediv__', 'logaddexp', '__iadd__', '__imul__']
# public contract of result domains (names of the public API, not of code fragments)
RESULT = {
    'expand': lambda p: ('param', p[1]),
    'transpose': lambda p: ('project', ('domof', 'self'), ('var', p[1])),
    'sum': lambda p: ('marginalize', ('domof', 'self'), ('var', p[1])),
    'logsumexp': lambda p: ('marginalize', ('domof', 'self'), ('var', p[1])),
    'max': lambda p: ('marginalize', ('domof', 'self'), ('var', p[1])),
    'condition': lambda p: ('marginalize', ('domof', 'self'), ('var', p[1])),
    '__add__': lambda p: ('merge', ('domof', 'self'), ('domof', p[1])),
    '__mul__': lambda p: ('merge', ('domof', 'self'), ('domof', p[1])),
    '__sub__': lambda p: ('merge', ('domof', 'self'), ('domof', p[1])),
    'logaddexp': lambda p: ('merge', ('domof', 'self'), ('domof', p[1])),
    '__truediv__': lambda p: ('domof', 'self'),
    'copy': lambda p: ('domof', 'self'),
    'exp': lambda p: ('domof', 'self'),
    'log': lambda p: ('domof', 'self'),
}


def run(ctx):
    repo = ctx.repo
    ctx.explanation = (
        'Layout type system over src/mbi/factor.py: every ndarray expression carries the symbolic Domain whose '
        'attribute order its axes follow; obligations are discharged by structural equality of domain terms. '
        'Plus operand-use, result-domain, out= contract and CliqueVector key-pairing rules. Exhaustive over all '
        'methods of Factor, CliqueVector and Domain.axes; nothing is executed.')
    ctx.rule_text = ('one obligation per Factor construction, axis-bearing numpy call, elementwise array operation, '
                     'in-place update, binary method, result domain, out= call site and CliqueVector pairing site; '
                     'distinct = distinct (rule, function, construct)')
    ctx.trusted = ['numpy primitives (sum/max/logsumexp/moveaxis/broadcast_to/where) behave as documented',
                   'Factor.__init__ precondition: values is laid out by domain (asserted at run time)']
    from ..normalise import normalised, is_established
    methods = {n: normalised(repo, f) for n, f in repo.methods(FACTOR, 'Factor').items()}
    for need in ['__init__', 'expand', 'transpose', 'project', 'sum', 'logsumexp', 'max', 'condition',
                 'copy', 'exp', 'log'] + BINARY:
        if need not in methods:
            raise AnalysisError('anchor vanished: Factor.%s' % need)

    n_construct = 0
    for name, fi in methods.items():
        ctx.analysed(fi)
        rep_count = [0]

        def report(rule, node, ok, detail, fi=fi):
            ctx.ob(rule, fi, node, ok, detail)
        kinds = {}
        if name == '__init__':
            kinds = {'values': 'array_of', 'domain': 'domain', 'self': None}
        if 'out' in fi.params:
            kinds['out'] = None
        if name in BINARY and len(fi.params) > 1:
            kinds[fi.params[1]] = 'factor'     # by protocol the operand is a Factor on the non-scalar path
        ty = LayoutTyper(fi, report, param_kinds=kinds)
        if 'out' in fi.params:     # contract: out is a factor over self.domain (checked at call sites below)
            ty.env0['out'] = V('fac', ('domof', 'self'), deps={'out'})
        if name == '__init__':
            ty.env0.pop('self', None)
            check_init(ctx, fi, ty)
            continue
        try:
            rets = ty.analyse()
        except AnalysisError as e:
            if is_established(FACTOR, fi.qualname):
                raise
            ctx.note('new helper %s could not be typed on its own (%s); it is typed where it is inlined' % (fi.qualname, e))
            continue
        n_construct += sum(1 for o in ctx.obligations if o.rule == 'construct' and o.function == fi.qualname)
        # ---- operand use ---------------------------------------------------------
        if name in BINARY:
            other = fi.params[1]
            nonscalar = [(s, v, env) for s, v, env in rets if not is_scalar_env(env, other)]
            if name in ('__iadd__', '__imul__'):
                deps = getattr(ty, 'inplace_deps', set())
                ctx.ob('operands', fi, fi.node, {'self', other} <= set(deps),
                       'in-place method must update self.values from the other operand\'s values; value flows: %s'
                       % sorted(deps), construct='def %s' % fi.qualname)
            else:
                if not nonscalar:
                    raise AnalysisError('Factor.%s: no non-scalar return path found' % name)
                for s, v, env in nonscalar:
                    ok = v.kind == 'fac' and {'self', other} <= set(v.deps)
                    ctx.ob('operands', fi, s, ok, 'returned factor depends on the values of %s; needs both self and %s'
                           % (sorted(v.deps) if v.kind == 'fac' else v.kind, other))
        # ---- result domain ---------------------------------------------------------
        if name in RESULT:
            want = RESULT[name](fi.params)
            for s, v, env in rets:
                if v.kind != 'fac':
                    continue          # scalar / aggregate-all paths
                if name in BINARY and is_scalar_env(env, fi.params[1]):
                    want_here = ('domof', 'self')
                else:
                    want_here = want
                got = canon(v.a)
                from ..engines.layout import subst_term
                want_here = subst_term(want_here, env)       # equalities established on this path (`if newdom == self.domain:`)
                ctx.ob('result-domain', fi, s, got == canon(want_here),
                       'returns a factor over %s; the contract is %s' % (show(v.a), show(want_here)))
        if name == 'project':
            for s, v, env in rets:
                ok = v.kind == 'fac' and v.a[0] == 'project' and v.a[2] == ('var', fi.params[1])
                if not ok and v.kind == 'fac':
                    # equalities established on this path (`tuple(attrs) == self.domain.attrs`: the operand already is its own projection)
                    from ..engines.layout import subst_term
                    ok = canon(v.a) == canon(subst_term(('project', ('domof', 'self'), ('var', fi.params[1])), env))
                ctx.ob('result-domain', fi, s, ok,
                       'project must answer in the requested order (outermost reordering by `%s`); got %s'
                       % (fi.params[1], show(v.a) if v.kind == 'fac' else v.kind))
    ctx.floor('Factor constructions typed', sum(1 for o in ctx.obligations if o.rule == 'construct'), 12)
    ctx.floor('axis-bearing calls typed', sum(1 for o in ctx.obligations if o.rule == 'axis-by-name'), 4)
    ctx.floor('binary methods checked for operand use', sum(1 for o in ctx.obligations if o.rule == 'operands'), 7)

    check_out_callsites(ctx)
    check_out_writes(ctx, methods)
    check_aggregation_mode(ctx, methods['project'])
    check_operators_allocate(ctx)
    check_results_writable(ctx)
    check_cv_difference(ctx)
    check_scalar_cells(ctx)
    check_difference_cells(ctx)
    check_log_form(ctx)
    check_exp_form(ctx)
    check_axes_primitive(ctx)
    check_clique_vector(ctx)
    from .C15 import none_tests
    none_tests(ctx, FACTOR, 'Factor')


def canon(t):
    """merge(D, D) = D (merging a domain with itself adds nothing); applied bottom-up"""
    if isinstance(t, tuple):
        t = tuple(canon(x) for x in t)
        if len(t) == 3 and t[0] == 'merge' and t[1] == t[2]:
            return t[1]
    return t


def is_scalar_env(env, name):
    v = env.get(name)
    return v is not None and v.kind == 'scalar'


def check_init(ctx, fi, ty):
    """self.domain = <domain param>; self.values = values.reshape(<same domain>.shape)"""
    dom_src = val_dom = None
    for s in ast.walk(fi.node):
        if isinstance(s, ast.Assign) and len(s.targets) == 1 and isinstance(s.targets[0], ast.Attribute) \
                and U(s.targets[0].value) == 'self':
            if s.targets[0].attr == 'domain':
                dom_src = (s, U(s.value))
            if s.targets[0].attr == 'values':
                v = ty.ev(s.value, dict(ty.env0), quiet=True)
                val_dom = (s, v)
    if dom_src is None or val_dom is None:
        raise AnalysisError('Factor.__init__ no longer assigns self.domain / self.values')
    s, v = val_dom
    ok = v.kind == 'arr' and v.a == ('param', dom_src[1])
    ctx.ob('construct', fi, s, ok, 'stored values laid out by %s, stored domain is `%s`'
           % (show(v.a) if v.kind == 'arr' else 'an untyped expression', dom_src[1]))


ALLOCATING = ('__add__', '__radd__', '__mul__', '__rmul__', '__sub__', '__truediv__', 'logaddexp', 'sum', 'logsumexp', 'max')


def check_operators_allocate(ctx):
    """The (non in-place) operators and reductions of Factor return a table of their own: `c = a + b` followed by `c += d` must leave a
    and b alone, and the library relies on it (`belief = sum(..); belief += ..`; builtin sum starts from `0 + first`).  Ownership
    analysis (engines/fresh.py): the array of the returned factor is allocated by the call on every path."""
    from ..engines.fresh import Freshness, FRESH
    F = Freshness(ctx.repo)
    n = 0
    for name in ALLOCATING:
        if ('Factor', name) not in F.summary:
            continue
        fi = F.methods[('Factor', name)]
        v = F.summary[('Factor', name)]
        n += 1
        ctx.ob('operators-allocate', fi, fi.node, v == FRESH,
               'Factor.%s returns %s' % (name, 'a table allocated by the call' if v == FRESH else
                                         'on some path (a view of) storage of the %s: an in-place update of the result then rewrites the operand' % v),
               construct='ownership of the result of Factor.' + name)
    ctx.floor('operators checked for ownership of their result', n, 8)


def check_scalar_cells(ctx):
    """scalar * factor, cell by cell on the extended reals (engines/cellsem.py): the product clipped by numpy.nan_to_num - finite values scaled,
    +-inf turned into the largest / smallest double, NaN (0 * inf) into 0.  The library relies on it (`-1 * theta` with structural zeros,
    step * gradient).  A test on the WHOLE table (`np.isfinite(values).all()`) is followed both ways from a cell that does not decide it."""
    from ..engines import cellsem as CS
    from ..normalise import normalised
    fi0 = ctx.repo.func(FACTOR, 'Factor.__mul__')
    methods = {q.split('.', 1)[1]: normalised(ctx.repo, f) for q, f in fi0.module.funcs.items() if q.startswith('Factor.') and q.count('.') == 1}
    fi = methods['__mul__']
    ctx.analysed(fi)
    n = 0
    for k in (2, -1, 0):
        for label, cell in (('finite', CS.fin('x')), ('-inf', CS.NINF), ('+inf', CS.PINF), ('NaN', CS.NAN)):
            want = CS.nan_to_num(CS.scale(cell, k))
            ip = CS.Interp(methods)
            try:
                r = ip.call_method('__mul__', CS.Fac(cell), [CS.Num(CS.fin(None, k))])
            except AnalysisError as e:
                raise AnalysisError('Factor.__mul__ [%s * %s]: %s' % (k, label, e))
            if not isinstance(r, CS.Fac):
                raise AnalysisError('Factor.__mul__ [%s * %s]: does not return a factor' % (k, label))
            n += 1
            ctx.ob('scalar-cells', fi, fi.node, CS.same(r.cell, want), '[%s * %s cell] must be %s (the product, clipped by nan_to_num); the code computes %s'
                   % (k, label, CS.show(want), CS.show(r.cell)), construct='%s * (%s cell)' % (k, label))
    ctx.floor('scalar-times-cell cases', n, 12)


def check_difference_cells(ctx):
    """factor - factor, cell by cell on the extended reals (engines/cellsem.py): the library's log-domain difference - a - b, except that a
    subtrahend of -inf (a structural zero) is left out (the cell keeps a).  A subtrahend of +inf gives -inf like any other value."""
    from ..engines import cellsem as CS
    from ..normalise import normalised
    fi0 = ctx.repo.func(FACTOR, 'Factor.__sub__')
    methods = {q.split('.', 1)[1]: normalised(ctx.repo, f) for q, f in fi0.module.funcs.items() if q.startswith('Factor.') and q.count('.') == 1}
    fi = methods['__sub__']
    ctx.analysed(fi)
    n = 0
    for la, a in (('finite', CS.fin('x')), ('-inf', CS.NINF)):
        for lb, b in (('finite', CS.fin('y')), ('-inf', CS.NINF), ('+inf', CS.PINF)):
            want = a if b == CS.NINF else CS.add(a, CS.neg(b))
            try:
                r = CS.Interp(methods).call_method('__sub__', CS.Fac(a), [CS.Fac(b)])
            except AnalysisError as e:
                raise AnalysisError('Factor.__sub__ [%s - %s]: %s' % (la, lb, e))
            if not isinstance(r, CS.Fac):
                raise AnalysisError('Factor.__sub__ [%s - %s]: does not return a factor' % (la, lb))
            n += 1
            ctx.ob('difference-cells', fi, fi.node, CS.same(r.cell, want),
                   '[%s cell - %s cell] must be %s (the difference; a subtrahend of -inf, a structural zero, is left out); the code computes %s'
                   % (la, lb, CS.show(want), CS.show(r.cell)), construct='(%s cell) - (%s cell)' % (la, lb))
    ctx.floor('factor-minus-factor cell cases', n, 6)


def operand_in_block(fi, call):
    """the first argument of `call`; a local name is replaced by what the enclosing block last bound it to before the call"""
    a = call.args[0]
    if not isinstance(a, ast.Name):
        return a
    for owner in ast.walk(fi.node):
        for fld in ('body', 'orelse'):
            blk = getattr(owner, fld, None)
            if not isinstance(blk, list):
                continue
            for k, st in enumerate(blk):
                if any(x is call for x in ast.walk(st)) and not any(isinstance(x, (ast.If, ast.For, ast.While)) and any(y is call for y in ast.walk(x)) and x is not st for x in ast.walk(st)):
                    for prev in reversed(blk[:k]):
                        if isinstance(prev, ast.Assign) and len(prev.targets) == 1 and U(prev.targets[0]) == a.id:
                            return prev.value
    ds = [x.value for x in ast.walk(fi.node) if isinstance(x, ast.Assign) and len(x.targets) == 1 and U(x.targets[0]) == a.id]
    return ds[0] if len(ds) == 1 else a


def check_exp_form(ctx):
    """Factor.exp is exp(values) entry by entry.  Its argument may be capped from above only at (or beyond) the largest exponent a double can
    take, log(finfo(float).max) ~ 709.78 - that changes nothing but results that were +inf; a lower cap (the float32 range, ~88.7) silently
    saturates ordinary cells: belief propagation ends in this very call, so marginals above 3.4e38 are cut off."""
    import math
    fi = ctx.repo.nfunc(FACTOR, 'Factor.exp')
    ctx.analysed(fi)
    exps = [c for c in calls_in(fi.node) if U(c.func) in ('np.exp', 'numpy.exp') and c.args]
    if not exps:
        raise AnalysisError('Factor.exp: no np.exp call')
    local = {a.targets[0].id: a.value for a in ast.walk(fi.node) if isinstance(a, ast.Assign) and len(a.targets) == 1 and isinstance(a.targets[0], ast.Name)}
    consts = {a.targets[0].id: a.value for a in fi.module.tree.body if isinstance(a, ast.Assign) and len(a.targets) == 1 and isinstance(a.targets[0], ast.Name)}
    n = 0
    for c in exps:
        a = operand_in_block(fi, c)
        t = U(a).replace(' ', '')
        n += 1
        if t == 'self.values':
            ctx.ob('exp-form', fi, c, True, 'exp of the stored values, entry by entry', construct='operand of the exponential')
            continue
        m = re.fullmatch(r'np\.minimum\(self\.values,(.+)\)|np\.minimum\((.+),self\.values\)|np\.clip\(self\.values,None,(.+)\)|self\.values\.clip\(max=(.+)\)', t)
        if not m:
            raise AnalysisError('Factor.exp: operand `%s` of the exponential is in no recognised form' % U(a)[:60])
        cap = next(g for g in m.groups() if g)
        if re.fullmatch(r'\w+', cap) and cap in consts:
            cap = U(consts[cap]).replace(' ', '')
        full = cap in ('np.log(np.finfo(float).max)', 'np.log(np.finfo(np.float64).max)', 'np.log(sys.float_info.max)', 'math.log(sys.float_info.max)',
                       'np.log(np.finfo(np.double).max)', 'np.log(np.finfo("float64").max)', "np.log(np.finfo('float64').max)")
        low = re.search(r'float32|float16|np\.single|np\.half', cap) is not None
        try:
            val = float(ast.literal_eval(cap))
            full = full or val >= math.log(1.7976931348623157e308)
            low = low or val < math.log(1.7976931348623157e308)
        except Exception:
            pass
        if not full and not low:
            raise AnalysisError('Factor.exp: the exponent is capped at `%s`, whose value this analysis does not know' % cap[:60])
        ctx.ob('exp-form', fi, c, full, 'exp(values), entry by entry; the exponent is capped at `%s`%s' % (cap[:60], ': the largest exponent of a double - only results that '
               'were +inf change' if full else ' - BELOW the range of a double (log(float32 max) ~ 88.7): ordinary cells saturate; belief propagation ends in this call, so '
               'marginals beyond that are cut off and no longer sum to the total'), construct='operand of the exponential')
    ctx.floor('exponentials in Factor.exp', n, 1)


def check_log_form(ctx):
    """Factor.log is log(values + FLOOR) entry by entry, FLOOR the tiny constant 1e-100 (possibly a parameter with that default): a SHIFT.  A floor by
    `np.maximum(values, FLOOR)` / clip / where agrees at 0 and for ordinary values but not for tiny positive ones, and hides negative entries."""
    fi = ctx.repo.nfunc(FACTOR, 'Factor.log')
    ctx.analysed(fi)
    defaults = fi.defaults()
    logs = [c for c in calls_in(fi.node) if U(c.func) in ('np.log', 'numpy.log') and c.args]
    if not logs:
        raise AnalysisError('Factor.log: no np.log call')
    n = 0
    for c in logs:
        a = operand_in_block(fi, c)
        t = U(a).replace(' ', '')
        if t == 'self.values' and any(k.arg == 'out' for k in c.keywords):
            continue          # the in-place form writes the plain logarithm into the given storage (as it always did)
        if any(k.arg == 'out' for k in c.keywords) and re.fullmatch(r'self\.values\+(.+)|(.+)\+self\.values', t):
            n += 1
            ctx.ob('log-form', fi, c, False, 'the in-place form `log(out=..)` writes the plain logarithm of the values (an empty cell gives -inf: a structural zero survives '
                   'exp(out=) followed by log(out=)); the source takes the log of `%s`' % U(a)[:60], construct='operand of the in-place logarithm')
            continue
        m = re.fullmatch(r'self\.values\+(.+)|(.+)\+self\.values', t)
        floor = None
        if m:
            floor = m.group(1) or m.group(2)
        shift_ok = floor is not None and (floor in ('1e-100',) or (floor in defaults and U(defaults[floor]) == '1e-100'))
        floored = re.fullmatch(r'np\.maximum\(self\.values,.+\)|np\.maximum\(.+,self\.values\)|np\.clip\(self\.values,.+\)|self\.values\.clip\(.+\)|np\.where\(self\.values.+\)', t)
        if not m and not floored:
            raise AnalysisError('Factor.log: operand `%s` of the logarithm is in no recognised form' % U(a)[:60])
        n += 1
        ctx.ob('log-form', fi, c, bool(shift_ok), 'log(values + 1e-100), entry by entry; the source takes the log of `%s`%s' % (U(a)[:60], '' if shift_ok else
               (' - a FLOOR instead of a shift: tiny positive entries (underflowing products) are replaced, negative ones hidden' if floored else
                ' - another floor than the 1e-100 the rest of the library assumes')), construct='operand of the logarithm')
    ctx.floor('logarithms in Factor.log', n, 1)


def check_cv_difference(ctx):
    """CliqueVector.__sub__ is the sum with the NEGATED operand - negation by scalar multiplication, `self + -1*other`, for the whole
    collection or clique by clique.  Factor's own `-` is another operation (the log-domain difference: a subtrahend of -inf is dropped, nothing
    is clipped), so `self[cl] - other[cl]` gives other tables as soon as a table holds -inf / +inf (structural zeros, overflowed gradients)."""
    CV = 'src/mbi/clique_vector.py'
    if not ctx.repo.has_func(CV, 'CliqueVector.__sub__'):
        raise AnalysisError('anchor vanished: CliqueVector.__sub__')
    fi = ctx.repo.func(CV, 'CliqueVector.__sub__')
    ctx.analysed(fi)
    o = fi.params[1]
    NEG = ('-1*%s', '(-1)*%s', '%s*-1', '%s*(-1)', '-1.0*%s', '-%s')
    n = 0
    for r in [x for x in ast.walk(fi.node) if isinstance(x, (ast.Return, ast.Assign))]:
        v = r.value
        if v is None:
            continue
        if isinstance(v, ast.Call) and U(v.func) == 'CliqueVector' and len(v.args) == 1 and isinstance(v.args[0], ast.DictComp):
            v = v.args[0]
        if isinstance(v, ast.BinOp) and U(v.left) == 'self':
            t = U(v.right).replace(' ', '')
            ok = isinstance(v.op, ast.Add) and t in [x % o for x in NEG]
            n += 1
            ctx.ob('cv-difference', fi, r, ok, 'the difference of two collections is `self + -1*%s`; the source computes `%s`' % (o, U(v)[:80]))
        elif isinstance(v, ast.DictComp) and len(v.generators) == 1 and U(v.generators[0].iter) == 'self' and isinstance(v.value, ast.BinOp):
            c = U(v.generators[0].target)
            e = v.value
            lt, rt = U(e.left).replace(' ', ''), U(e.right).replace(' ', '')
            operands = ['%s[%s]' % (o, c), o]
            if lt != 'self[%s]' % c:
                raise AnalysisError('CliqueVector.__sub__: per-clique expression `%s` is in no recognised form' % U(e)[:80])
            n += 1
            if isinstance(e.op, ast.Add) and rt in [x % y for x in NEG for y in operands]:
                ctx.ob('cv-difference', fi, r, True, 'clique by clique: `%s` (negation by scalar multiplication, then the sum)' % U(e)[:80])
            elif isinstance(e.op, ast.Sub) and rt == o:
                ctx.ob('cv-difference', fi, r, True, 'clique by clique minus a scalar: `%s`' % U(e)[:80]) if False else \
                    ctx.ob('cv-difference', fi, r, True, 'a scalar is subtracted from every table: `%s`' % U(e)[:80])
            elif isinstance(e.op, ast.Sub) and rt == '%s[%s]' % (o, c):
                ctx.ob('cv-difference', fi, r, False, 'clique by clique through Factor.__sub__ (`%s`): that is the LOG-DOMAIN difference - a subtrahend of -inf is '
                       'dropped and nothing is clipped - not `self + -1*other`; the two differ as soon as a table holds -inf / +inf' % U(e)[:80])
            else:
                raise AnalysisError('CliqueVector.__sub__: per-clique expression `%s` is in no recognised form' % U(e)[:80])
    ctx.floor('forms of CliqueVector.__sub__ judged', n, 1)


def check_results_writable(ctx):
    """In-place variants agree with their pure counterparts also on DERIVED factors: `t = f.transpose(..)` / `f.project(..)` / `a + b`
    followed by `t += g`, `t *= 2`, `t.exp(out=t)` must work.  `np.broadcast_to` returns a read-only view (also for an unchanged shape), so
    outside `expand` - whose result is a broadcast by definition - no broadcast view may reach the returned factor (engines/fresh.py)."""
    from ..engines.fresh import Writability, READONLY
    W = Writability(ctx.repo)
    n = 0
    for (cls, name), fi in W.methods.items():
        if name in ('expand', '__init__') or name.startswith('_') and not name.startswith('__'):
            continue
        n += 1
        v = W.summary[(cls, name)]
        ctx.ob('results-writable', fi, fi.node, v != READONLY,
               'Factor.%s returns %s' % (name, 'a read-only `np.broadcast_to` view (or a view of one): every in-place update of the result '
                                         '(`+=`, `*=`, `exp(out=)`) raises instead of agreeing with the pure form' if v == READONLY else
                                         'no broadcast view'),
               construct='writability of the result of Factor.' + name)
    ctx.floor('methods checked for a writable result', n, 20)


def check_aggregation_mode(ctx, fi):
    """project(attrs, agg): the attributes that are dropped are reduced with the reducer the caller asked for - self.sum for 'sum',
    self.logsumexp for 'logsumexp'.  The function is read once per mode with the tests on `agg` decided; the reducers reachable in that
    reading must be exactly the requested one (a mode that is not forwarded to a helper falls back to the helper's default)."""
    if len(fi.params) < 3:
        raise AnalysisError('Factor.project: aggregation parameter not found')
    agg = fi.params[2]
    REDUCERS = ('sum', 'logsumexp', 'max', 'min', 'mean', 'prod')
    # locals that hold the mode or a constant (parameters of helpers the front end inlined)
    singles = {}
    for st in ast.walk(fi.node):
        if isinstance(st, ast.Assign) and len(st.targets) == 1 and isinstance(st.targets[0], ast.Name):
            singles.setdefault(st.targets[0].id, []).append(st.value)
    alias = {k for k, v in singles.items() if len(v) == 1 and isinstance(v[0], ast.Name) and v[0].id == agg}
    consts = {k: v[0].value for k, v in singles.items() if len(v) == 1 and isinstance(v[0], ast.Constant) and isinstance(v[0].value, str)}

    def decide(test, mode):
        t = test
        if isinstance(t, ast.Compare) and len(t.ops) == 1 and isinstance(t.left, ast.Constant) and isinstance(t.left.value, str) \
                and not any(isinstance(n, ast.Name) for n in ast.walk(t)):
            return decide(ast.Compare(left=ast.Name(id=agg, ctx=ast.Load()), ops=t.ops, comparators=t.comparators), t.left.value)
        if isinstance(t, ast.Compare) and len(t.ops) == 1 and isinstance(t.left, ast.Name) and t.left.id in consts:
            return decide(ast.Compare(left=ast.Name(id=agg, ctx=ast.Load()), ops=t.ops, comparators=t.comparators), consts[t.left.id])
        if isinstance(t, ast.Compare) and len(t.ops) == 1 and isinstance(t.left, ast.Name) and t.left.id in alias:
            return decide(ast.Compare(left=ast.Name(id=agg, ctx=ast.Load()), ops=t.ops, comparators=t.comparators), mode)
        if isinstance(t, ast.UnaryOp) and isinstance(t.op, ast.Not):
            r = decide(t.operand, mode)
            return None if r is None else ('free' if r == 'free' else not r)
        if isinstance(t, ast.BoolOp):
            rs = [decide(v, mode) for v in t.values]
            if any(r is None for r in rs):
                return None
            if isinstance(t.op, ast.And):
                return False if any(r is False for r in rs) else ('free' if any(r == 'free' for r in rs) else True)
            return True if any(r is True for r in rs) else ('free' if any(r == 'free' for r in rs) else False)
        if isinstance(t, ast.Compare) and len(t.ops) == 1:
            l, r = t.left, t.comparators[0]
            if isinstance(r, ast.Name) and r.id == agg and isinstance(l, ast.Constant):
                l, r = r, l
            if isinstance(l, ast.Name) and l.id == agg:
                if isinstance(r, ast.Constant) and isinstance(t.ops[0], (ast.Eq, ast.NotEq, ast.Is, ast.IsNot)):
                    return (mode == r.value) == isinstance(t.ops[0], (ast.Eq, ast.Is))
                if isinstance(r, (ast.List, ast.Tuple, ast.Set)) and all(isinstance(e, ast.Constant) for e in r.elts) \
                        and isinstance(t.ops[0], (ast.In, ast.NotIn)):
                    return (mode in [e.value for e in r.elts]) == isinstance(t.ops[0], ast.In)
        if any(isinstance(n, ast.Name) and n.id == agg for n in ast.walk(t)):
            return None
        return 'free'

    for mode in ('sum', 'logsumexp'):
        found = []

        def reach(stmts):
            for st in stmts:
                if isinstance(st, ast.Assert):
                    continue
                if isinstance(st, ast.If):
                    d = decide(st.test, mode)
                    if d is None:
                        raise AnalysisError('Factor.project: test `%s` on the aggregation mode is in no recognised form' % U(st.test))
                    if d == 'free':
                        scan(st.test)
                        reach(st.body)
                        reach(st.orelse)
                    else:
                        reach(st.body if d else st.orelse)
                    continue
                if isinstance(st, (ast.For, ast.While, ast.With, ast.Try)):
                    for f in ('body', 'orelse', 'finalbody'):
                        reach(getattr(st, f, []) or [])
                    continue
                scan(st)

        def scan(node):
            for n in ast.walk(node):
                if isinstance(n, ast.IfExp):
                    d = decide(n.test, mode)
                    if d is None:
                        raise AnalysisError('Factor.project: test `%s` on the aggregation mode is in no recognised form' % U(n.test))
                    if d != 'free':
                        # only the selected arm is evaluated
                        dead = n.orelse if d else n.body
                        for x in ast.walk(dead):
                            x._dead_for = mode
                if getattr(n, '_dead_for', None) == mode:
                    continue
                if isinstance(n, ast.Call):
                    f = n.func
                    if isinstance(f, ast.Attribute) and f.attr in REDUCERS and (U(f.value) == 'self' or U(f.value).endswith('.values')
                                                                               or U(f.value) in ('np', 'numpy')):
                        found.append((n, f.attr))
                    elif U(f) in ('logsumexp', 'scipy.special.logsumexp', 'special.logsumexp'):
                        found.append((n, 'logsumexp'))
                    elif isinstance(f, ast.Name) and f.id == 'getattr' and len(n.args) >= 2 and U(n.args[0]) == 'self' and U(n.args[1]) == agg:
                        found.append((n, mode))
                    elif isinstance(f, ast.Subscript) and isinstance(f.value, ast.Dict) and U(f.slice) == agg:
                        for k_, v_ in zip(f.value.keys, f.value.values):
                            if isinstance(k_, ast.Constant) and k_.value == mode and isinstance(v_, ast.Attribute):
                                found.append((n, v_.attr))
        reach(fi.body)
        used = sorted({r for _, r in found})
        if not used:
            raise AnalysisError('Factor.project: no reducer found for agg=%r' % mode)
        ctx.ob('aggregation-mode', fi, found[0][0], used == [mode],
               'project(.., agg=%r) must reduce the dropped attributes with self.%s; the reducers reached in that mode: %s'
               % (mode, mode, used), construct='reducer for agg=%r' % mode)


def check_out_writes(ctx, methods):
    """`out=`: the result is written INTO the storage of the factor handed in.  Rebinding `out.values` makes `out` share (or replace) an
    array instead: the buffer the caller holds is never written, and `out` and the source change together afterwards."""
    n = 0
    for name, fi in methods.items():
        if 'out' not in fi.params:
            continue
        for s_ in ast.walk(fi.node):
            tgts = s_.targets if isinstance(s_, ast.Assign) else [s_.target] if isinstance(s_, (ast.AugAssign, ast.AnnAssign)) else []
            for t in tgts:
                for el in (t.elts if isinstance(t, (ast.Tuple, ast.List)) else [t]):
                    if isinstance(el, ast.Attribute) and U(el.value) == 'out' and el.attr == 'values' and isinstance(s_, ast.Assign):
                        n += 1
                        ctx.ob('out-contract', fi, s_, False,
                               '`%s` rebinds the array of the factor passed as out= instead of writing into it (np.copyto / out.values[...] = / '
                               'np.f(.., out=out.values)): the caller\'s buffer stays as it was and `out` aliases `%s`' % (U(s_)[:60], U(s_.value)[:40]))
                    elif isinstance(el, ast.Subscript) and U(el.value) == 'out.values':
                        n += 1
                        ctx.ob('out-contract', fi, s_, True, 'the result is stored into the array of the factor passed as out=')
    return n


def check_out_callsites(ctx):
    """x.exp(out=y) / x.log(out=y) / x.copy(out=y): y must be a factor over x's domain; accepted evidence:
    y is textually x."""
    from ..srcmodel import MBI_FILES
    n = 0
    for rel in MBI_FILES:
        if rel.endswith('torch_factor.py') or not ctx.repo.exists(rel):
            continue
        m = ctx.repo.module(rel)
        for q, fi in m.funcs.items():
            for c in calls_in(fi.node):
                if isinstance(c.func, ast.Attribute) and c.func.attr in ('exp', 'log', 'copy'):
                    out = [k.value for k in c.keywords if k.arg == 'out']
                    if not out or (isinstance(out[0], ast.Constant) and out[0].value is None):
                        continue
                    if U(c.func.value).split('.')[0] in ('np', 'numpy'):
                        continue
                    n += 1
                    same_dom = U(out[0]) == U(c.func.value) or domains_equal_here(c, U(c.func.value), U(out[0]))
                    ctx.ob('out-contract', fi, c, same_dom,
                           'out= must be a factor over the receiver\'s own domain; receiver `%s`, out `%s`'
                           % (U(c.func.value), U(out[0])))
    ctx.count('out= call sites', n)


def domains_equal_here(node, x, y):
    """is `x.domain == y.domain` established on every path to `node`?  (the else branch of `.. or y.domain != x.domain or ..`, or the
    body of `.. and y.domain == x.domain ..`)"""
    eqs = ('%s.domain==%s.domain' % (x, y), '%s.domain==%s.domain' % (y, x))
    nes = ('%s.domain!=%s.domain' % (x, y), '%s.domain!=%s.domain' % (y, x))

    def parts(t, op):
        return [v for v in t.values] if isinstance(t, ast.BoolOp) and isinstance(t.op, op) else [t]
    child, n = node, getattr(node, '_parent', None)
    while n is not None:
        if isinstance(n, ast.If):
            in_body = any(child is s_ or any(child is z for z in ast.walk(s_)) for s_ in n.body)
            in_else = any(child is s_ or any(child is z for z in ast.walk(s_)) for s_ in n.orelse)
            if in_body and any(U(v).replace(' ', '') in eqs for v in parts(n.test, ast.And)):
                return True
            if in_else and any(U(v).replace(' ', '') in nes for v in parts(n.test, ast.Or)):
                return True
        child, n = n, getattr(n, '_parent', None)
    return False


def check_axes_primitive(ctx):
    fi = ctx.repo.nfunc(DOMAIN, 'Domain.axes')
    rets = [s for s in ast.walk(fi.node) if isinstance(s, ast.Return)]
    if len(rets) != 1 or len(fi.params) != 2:
        raise AnalysisError('Domain.axes: unrecognised form')
    from ..normalise import Defs, expand
    r = expand(rets[0].value, Defs(fi.body), comps=True)
    p = fi.params[1]
    inner = r
    if isinstance(r, ast.Call) and isinstance(r.func, ast.Name) and r.func.id in ('tuple', 'list') and len(r.args) == 1:
        inner = r.args[0]
    ok = False
    if isinstance(inner, (ast.GeneratorExp, ast.ListComp)) and len(inner.generators) == 1:
        g = inner.generators[0]
        e = inner.elt
        it = g.iter
        while isinstance(it, ast.Call) and isinstance(it.func, ast.Name) and it.func.id in ('tuple', 'list') and len(it.args) == 1:
            it = it.args[0]          # an order-preserving copy of the requested sequence
        ok = (not g.ifs and U(it) == p and isinstance(e, ast.Call) and isinstance(e.func, ast.Attribute)
              and e.func.attr == 'index' and U(e.func.value) == 'self.attrs'
              and len(e.args) == 1 and U(e.args[0]) == U(g.target))
    elif any(isinstance(n, (ast.GeneratorExp, ast.ListComp)) for n in ast.walk(inner)) and \
            any(isinstance(n, ast.Call) and isinstance(n.func, ast.Attribute) and n.func.attr == 'index'
                for n in ast.walk(inner)):
        ok = False      # a by-name lookup wrapped in something that may reorder / filter it
    else:
        raise AnalysisError('Domain.axes: unrecognised form `%s`' % U(r))
    ctx.ob('axes-primitive', fi, rets[0], ok,
           'Domain.axes must return, for each requested attribute in order, its position in self.attrs')


def check_clique_vector(ctx):
    repo = ctx.repo
    methods = repo.nmethods(CV, 'CliqueVector')
    for need in ('__add__', '__mul__', 'combine', 'dot', 'exp', 'log'):
        if need not in methods:
            raise AnalysisError('anchor vanished: CliqueVector.%s' % need)
    n = 0
    for name, fi in methods.items():
        if fi.is_static():
            continue
        ctx.analysed(fi)
        for comp in ast.walk(fi.node):
            if not isinstance(comp, (ast.DictComp, ast.ListComp, ast.GeneratorExp, ast.SetComp)):
                continue
            if len(comp.generators) != 1:
                continue
            g = comp.generators[0]
            body = [comp.key, comp.value] if isinstance(comp, ast.DictComp) else [comp.elt]
            subs = [s for b in body for s in ast.walk(b) if isinstance(s, ast.Subscript)
                    and isinstance(s.value, ast.Name) and s.value.id in fi.params]
            uses_params = any(isinstance(x, ast.Name) and x.id in fi.params[:2] for b in body for x in ast.walk(b)) \
                or any(isinstance(x, ast.Name) and x.id in fi.params[:2] for x in ast.walk(g.iter))
            iter_params = any(isinstance(x, ast.Name) and x.id in fi.params[:2] for x in ast.walk(g.iter))
            if not uses_params or not (subs or iter_params):
                continue        # nothing is taken from self/other in this expression
            if not subs and not isinstance(comp, ast.DictComp) and not iter_params:
                continue
            if not subs and not isinstance(comp, ast.DictComp) and isinstance(g.target, ast.Name) and U(body[0]) == g.target.id:
                continue        # a search over the keys themselves (e.g. the argument of next(...)): nothing is paired
            n += 1
            it = U(g.iter)
            if isinstance(g.target, ast.Name) and it in ('self', 'self.keys()'):
                k = g.target.id
            elif isinstance(g.target, ast.Tuple) and len(g.target.elts) == 2 and it == 'self.items()' \
                    and isinstance(g.target.elts[0], ast.Name):
                k = g.target.elts[0].id
            else:
                ctx.ob('cv-keys', fi, comp, False,
                       'a clique-wise expression must range over the keys of self (got `for %s in %s`): pairing '
                       'by position is not pairing by clique' % (U(g.target), it), construct=U(comp))
                continue
            ok = all(U(s.slice) == k for s in subs)
            if isinstance(comp, ast.DictComp):
                ok = ok and U(comp.key) == k
            ok = ok and not g.ifs
            ctx.ob('cv-keys', fi, comp, ok,
                   'every factor taken from self/other inside a clique-wise expression must be indexed by the '
                   'comprehension key `%s` ranging over all of self' % k, construct=U(comp))
    ctx.floor('CliqueVector pairing sites', n, 5)
    check_combine(ctx, methods['combine'])


# ---- two-phase spellings of combine -----------------------------------------------------------------------------------------------------
def _subst(node, mapping):
    from ..srcmodel import clone

    class S(ast.NodeTransformer):
        def visit_Name(self, n):
            return clone(mapping[n.id]) if n.id in mapping else n
    return S().visit(clone(node))


def _names(n):
    return {x.id for x in ast.walk(n) if isinstance(x, ast.Name)}


def inline_pair_lists(body):
    """`N = [(x, f(x)) for x in IT]` ... `for a, b in N:`  ==>  `for a in IT: b = f(a)` -- when IT's keys cannot change in between
    (only `IT[k] op= v` may touch it) and N has no other use."""
    from ..srcmodel import clone
    for st in list(body):
        if not (isinstance(st, ast.Assign) and len(st.targets) == 1 and isinstance(st.targets[0], ast.Name)):
            continue
        N = st.targets[0].id
        comp = st.value
        if isinstance(comp, ast.Call) and isinstance(comp.func, ast.Name) and comp.func.id in ('list', 'tuple') and len(comp.args) == 1:
            comp = comp.args[0]
        if not (isinstance(comp, (ast.ListComp, ast.GeneratorExp)) and len(comp.generators) == 1 and not comp.generators[0].ifs
                and isinstance(comp.elt, ast.Tuple) and isinstance(comp.generators[0].target, ast.Name)):
            continue
        g = comp.generators[0]
        x = g.target.id
        root = U(g.iter).split('.')[0].split('[')[0]
        rest = body[body.index(st) + 1:]
        uses = [n for r in rest for n in ast.walk(r) if isinstance(n, ast.Name) and n.id == N]
        loops = [n for r in rest for n in ast.walk(r) if isinstance(n, ast.For) and isinstance(n.iter, ast.Name) and n.iter.id == N]
        if not loops or len(uses) != len(loops):
            continue
        if any(not (isinstance(l.target, ast.Tuple) and len(l.target.elts) == len(comp.elt.elts)
                    and all(isinstance(e, ast.Name) for e in l.target.elts)) for l in loops):
            continue
        # key set of the iterated collection must be stable: no plain store / deletion / mutating call on it
        stable = True
        for r in rest:
            for n in ast.walk(r):
                if isinstance(n, (ast.Assign, ast.Delete)):
                    for t in n.targets:
                        if U(t).split('.')[0].split('[')[0] == root:
                            stable = False
                if isinstance(n, ast.Call) and isinstance(n.func, ast.Attribute) and U(n.func.value) == root and \
                        n.func.attr in ('pop', 'update', 'clear', 'setdefault', 'popitem', 'append', 'remove', 'add'):
                    stable = False
        if not stable:
            continue
        # the first component must be the generator variable itself (the loop then ranges over IT directly)
        if not (isinstance(comp.elt.elts[0], ast.Name) and comp.elt.elts[0].id == x):
            continue
        for l in loops:
            a = l.target.elts[0]
            pre = []
            for t, e in list(zip(l.target.elts, comp.elt.elts))[1:]:
                new = ast.Assign(targets=[ast.Name(id=t.id, ctx=ast.Store())], value=_subst(e, {x: a}), lineno=l.lineno, col_offset=l.col_offset)
                ast.fix_missing_locations(new)
                pre.append(new)
            l.target = ast.Name(id=a.id, ctx=ast.Store())
            l.iter = clone(g.iter)
            l.body = pre + l.body
        body.remove(st)
    return body


def fuse_two_phase(ctx, fi, body, other):
    """phase 1 `H[KE] = VE` inside the search, phase 2 `for a, b in H.items(): self[..] += ..`  ==>  the phase-2 statement at the store.
    Sound when KE is the phase-1 loop variable (one entry per source, insertion order = iteration order) and phase 2 only accumulates
    into existing entries of self.  A table keyed by anything that two sources can share loses all but the last of them."""
    for st in list(body):
        if not (isinstance(st, ast.Assign) and len(st.targets) == 1 and isinstance(st.targets[0], ast.Name)
                and U(st.value).replace(' ', '') in ('{}', 'dict()')):
            continue
        H = st.targets[0].id
        i = body.index(st)
        tops = [r for r in body[i + 1:] if H in _names(r)]
        if len(tops) != 2 or not all(isinstance(t, ast.For) for t in tops):
            continue
        p1, p2 = tops
        stores = [n for n in ast.walk(p1) if isinstance(n, ast.Assign) and len(n.targets) == 1 and isinstance(n.targets[0], ast.Subscript)
                  and U(n.targets[0].value) == H]
        if len(stores) != 1 or sum(1 for n in ast.walk(p1) if isinstance(n, ast.Name) and n.id == H) != 1:
            raise AnalysisError('CliqueVector.combine: unrecognised use of the table `%s` in the search phase' % H)
        store = stores[0]
        KE, VE = store.targets[0].slice, store.value
        if isinstance(p1.target, ast.Name):
            K = p1.target.id
        elif isinstance(p1.target, ast.Tuple) and isinstance(p1.target.elts[0], ast.Name) and U(p1.iter).endswith('.items()'):
            K = p1.target.elts[0].id
        else:
            raise AnalysisError('CliqueVector.combine: unrecognised search phase `for %s in %s`' % (U(p1.target), U(p1.iter)))
        if U(p1.iter).split('.')[0] != other:
            raise AnalysisError('CliqueVector.combine: search phase does not range over the sources')
        if not (isinstance(KE, ast.Name) and KE.id == K):
            if K not in _names(KE):
                ctx.ob('cv-combine', fi, store, False,
                       'the table `%s` filled by the search is keyed by `%s`, which two source cliques can share: all but the last source '
                       'found for one key are dropped before the accumulation phase (each source with a containing clique must be added once)'
                       % (H, U(KE)), construct='first-match-only of combine')
                return None
            raise AnalysisError('CliqueVector.combine: unrecognised key `%s` of the table `%s`' % (U(KE), H))
        # phase 2: for a, b in H.items(): <accumulations into self>
        if U(p2.iter) == H + '.items()' and isinstance(p2.target, ast.Tuple) and len(p2.target.elts) == 2 \
                and all(isinstance(e, ast.Name) for e in p2.target.elts):
            mapping = {p2.target.elts[0].id: KE, p2.target.elts[1].id: VE}
            sub_h = None
        elif U(p2.iter) in (H, H + '.keys()') and isinstance(p2.target, ast.Name):
            mapping = {p2.target.id: KE}
            sub_h = '%s[%s]' % (H, p2.target.id)
        else:
            raise AnalysisError('CliqueVector.combine: unrecognised accumulation phase `for %s in %s`' % (U(p2.target), U(p2.iter)))
        if p2.orelse or not all(isinstance(b, ast.AugAssign) and isinstance(b.target, ast.Subscript) and U(b.target.value) == 'self'
                                for b in p2.body):
            raise AnalysisError('CliqueVector.combine: unrecognised accumulation phase body')
        if any(isinstance(n, ast.Subscript) and U(n.value) == 'self' for n in ast.walk(p1)):
            raise AnalysisError('CliqueVector.combine: the search phase reads entries of self; cannot reorder the accumulation')
        new = []
        for b in p2.body:
            if sub_h is not None:
                class R(ast.NodeTransformer):
                    def visit_Subscript(self, n):
                        self.generic_visit(n)
                        return ast.Name(id='__hv', ctx=ast.Load()) if U(n) == sub_h else n
                from ..srcmodel import clone
                b = R().visit(clone(b))
                nb = _subst(b, dict(mapping, __hv=VE))
            else:
                nb = _subst(b, mapping)
            if H in _names(nb):
                raise AnalysisError('CliqueVector.combine: accumulation phase uses the table beyond its entries')
            ast.copy_location(nb, store)
            ast.fix_missing_locations(nb)
            new.append(nb)
        # splice at the store
        for n in ast.walk(p1):
            for f in ('body', 'orelse'):
                blk = getattr(n, f, None)
                if isinstance(blk, list) and store in blk:
                    j = blk.index(store)
                    blk[j:j + 1] = new
        body.remove(st)
        body.remove(p2)
    return body


def check_combine(ctx, fi):
    """for K in other: the FIRST K2 of self with set(K) <= set(K2) (if any) receives other[K], exactly once.
    Recognised searches: inner loop with test + break, and `next((K2 for K2 in self if TEST), None)` with a None-test."""
    from ..normalise import Defs, expand
    from ..srcmodel import clone
    other = fi.params[1]
    body = fi.body
    if len([s for s in body if isinstance(s, ast.For)]) != 1 or any(isinstance(s, ast.Assign) for s in body):
        body = inline_pair_lists([clone(s) for s in fi.body])
        body = fuse_two_phase(ctx, fi, body, other)
        if body is None:
            return
        for b in body:
            for n in ast.walk(b):
                for ch in ast.iter_child_nodes(n):
                    ch._parent = n
    outer = [s for s in body if isinstance(s, ast.For)]
    if len(outer) != 1:
        raise AnalysisError('CliqueVector.combine: unrecognised outer loop')
    o = outer[0]
    it = U(o.iter)
    srcval = None
    if it in (other, other + '.keys()') and isinstance(o.target, ast.Name):
        K = o.target.id
    elif it == other + '.items()' and isinstance(o.target, ast.Tuple) and len(o.target.elts) == 2 and \
            all(isinstance(e, ast.Name) for e in o.target.elts):
        K, srcval = o.target.elts[0].id, o.target.elts[1].id
    else:
        raise AnalysisError('CliqueVector.combine: unrecognised outer loop `for %s in %s`' % (U(o.target), it))
    defs = Defs(o.body)
    keep = (K, srcval) if srcval else (K,)

    def source_ok(v, K2):
        t = U(expand(v, defs, keep=keep + (K2,))).replace(' ', '')
        return t == '%s[%s]' % (other, K) or (srcval is not None and t == srcval)

    body_nodes = [n for b in o.body for n in ast.walk(b)]
    inner = [s for s in body_nodes if isinstance(s, ast.For)]
    nexts = [s for s in body_nodes if isinstance(s, ast.Assign) and len(s.targets) == 1 and isinstance(s.targets[0], ast.Name)
             and isinstance(s.value, ast.Call) and U(s.value.func) == 'next' and s.value.args
             and isinstance(s.value.args[0], ast.GeneratorExp)]
    # adds outside the search: only an exact-key fast path (`if K in self: self[K] += other[K]`) is recognised
    searched = {id(n) for s_ in inner + nexts for n in ast.walk(s_)}
    for n in body_nodes:
        if isinstance(n, ast.Assign) and len(n.targets) == 1 and isinstance(n.targets[0], ast.Subscript) and U(n.targets[0].value) == 'self':
            ctx.ob('cv-combine', fi, n, False, 'combine ADDS the source factor to what the target already holds; `%s` overwrites it - whatever was there (the -inf '
                   'masks of structural zeros, an earlier source for the same target) is lost' % U(n)[:70], construct='store in combine')
        if isinstance(n, ast.AugAssign) and id(n) not in searched:
            par = getattr(n, '_parent', None)
            if any(isinstance(x, ast.Assign) and x in nexts for x in body_nodes) and isinstance(par, ast.If) and \
                    U(par.test).replace(' ', '').endswith(('isnotNone', '!=None')):
                continue        # the add of the next(...) form, judged below
            pos = ('%sinself' % K, '%sinself.keys()' % K)
            negs = ('not%sinself' % K, '%snotinself' % K, 'not(%sinself)' % K)
            tt = U(par.test).replace(' ', '') if isinstance(par, ast.If) else ''
            fast = isinstance(par, ast.If) and ((n in par.body and tt in pos) or (n in par.orelse and tt in negs)) \
                and isinstance(n.op, ast.Add) and U(n.target) == 'self[%s]' % K and source_ok(n.value, K)
            if not fast:
                raise AnalysisError('CliqueVector.combine: accumulation outside the containing-clique search: `%s`' % U(n))
            ctx.ob('cv-combine', fi, n, True, 'exact-key fast path: self[%s] receives other[%s]' % (K, K), construct='exact-key path of combine')
    if len(inner) == 1 and not nexts:
        lp = inner[0]
        if U(lp.iter) not in ('self', 'self.keys()') or not isinstance(lp.target, ast.Name):
            raise AnalysisError('CliqueVector.combine: unrecognised inner loop')
        K2 = lp.target.id
        ifs = [s for s in lp.body if isinstance(s, ast.If)]
        lead = [s for s in lp.body if not isinstance(s, ast.If)]
        pure = all(isinstance(s, ast.Assign) and len(s.targets) == 1 and isinstance(s.targets[0], ast.Name)
                   and not any(isinstance(n, ast.Call) and not (isinstance(n.func, ast.Name) and n.func.id in ('set', 'frozenset', 'tuple', 'len'))
                               for n in ast.walk(s.value)) for s in lead)
        if len(ifs) != 1 or lp.body[-1] is not ifs[0] or not pure:
            raise AnalysisError('CliqueVector.combine: unrecognised search body')
        test = expand(ifs[0].test, defs, keep=keep + (K2,))
        where_test = ifs[0]
        body = ifs[0].body
        adds = [s for s in body if isinstance(s, ast.AugAssign)]
        ok_once = bool(body) and isinstance(body[-1], ast.Break) and not ifs[0].orelse
        once_node = body[-1] if body else ifs[0]
        tgt = K2
    elif len(nexts) == 1 and not inner:
        nx_ = nexts[0]
        gen = nx_.value.args[0]
        g = gen.generators[0]
        if len(gen.generators) != 1 or U(g.iter) not in ('self', 'self.keys()') or not isinstance(g.target, ast.Name) \
                or U(gen.elt) != g.target.id or len(g.ifs) != 1:
            raise AnalysisError('CliqueVector.combine: unrecognised next(...) search')
        K2 = g.target.id
        test = expand(g.ifs[0], defs, keep=keep + (K2,))
        where_test = nx_
        tgt = nx_.targets[0].id
        default = nx_.value.args[1] if len(nx_.value.args) > 1 else None
        guards = [s for s in body_nodes if isinstance(s, ast.If) and U(s.test).replace(' ', '') in
                  ('%sisnotNone' % tgt, '%s!=None' % tgt)]
        ok_default = default is not None and isinstance(default, ast.Constant) and default.value is None and len(guards) == 1 \
            and not guards[0].orelse
        adds = [s for s in (guards[0].body if guards else []) if isinstance(s, ast.AugAssign)]
        # next() takes the first match by construction; the add must sit under the found-test and nowhere else
        all_adds = [s for s in ast.walk(o) if isinstance(s, ast.AugAssign) and not
                    (isinstance(getattr(s, '_parent', None), ast.If) and U(s._parent.test).replace(' ', '') in ('%sinself' % K, '%sinself.keys()' % K))]
        ok_once = ok_default and len(all_adds) == 1
        once_node = guards[0] if guards else nx_
    else:
        raise AnalysisError('CliqueVector.combine: unrecognised inner loop')
    ctx.ob('cv-combine', fi, where_test, is_subset_test(test, K, K2),
           'a source factor may only be added to a target clique that contains its attributes: '
           'test must be set(%s) <= set(%s); is `%s`' % (K, K2, U(test)), construct='containment test of combine')
    ok_add = (len(adds) == 1 and isinstance(adds[0].op, ast.Add) and U(adds[0].target) == 'self[%s]' % tgt
              and source_ok(adds[0].value, K2))
    ctx.ob('cv-combine', fi, adds[0] if adds else where_test, ok_add,
           'the matched target self[%s] must receive exactly other[%s]' % (tgt, K), construct='accumulation of combine')
    ctx.ob('cv-combine', fi, once_node, ok_once,
           'the search must stop at the first containing clique and add once (otherwise the source factor is counted '
           'once per containing clique)', construct='first-match-only of combine')


def is_subset_test(test, small, big):
    def is_set_of(e, n):
        return (isinstance(e, ast.Call) and isinstance(e.func, ast.Name) and e.func.id in ('set', 'frozenset')
                and len(e.args) == 1 and U(e.args[0]) == n)
    if isinstance(test, ast.Compare) and len(test.ops) == 1:
        l, r, op = test.left, test.comparators[0], test.ops[0]
        if isinstance(op, ast.LtE) and is_set_of(l, small) and is_set_of(r, big):
            return True
        if isinstance(op, ast.GtE) and is_set_of(l, big) and is_set_of(r, small):
            return True
    if isinstance(test, ast.Call) and isinstance(test.func, ast.Attribute):
        if test.func.attr == 'issubset' and is_set_of(test.func.value, small) and len(test.args) == 1 \
                and U(test.args[0]) in (big, 'set(%s)' % big):
            return True
        if test.func.attr == 'issuperset' and is_set_of(test.func.value, big) and len(test.args) == 1 \
                and U(test.args[0]) in (small, 'set(%s)' % small):
            return True
    return False

"""C15 - datasets vectorise to their contingency table; projection commutes (structural clauses).

  owner             .df/.domain/.weights of a Dataset are assigned only by Dataset.__init__
  column-order      on every path the constructor stores the frame re-selected in domain order
                    (df.loc[:, domain.attrs] or an equivalent by-name column selection)
  project-consistent   project() selects frame columns and projects the domain with one and the same column list, and
                    forwards self.weights;  drop() delegates to project with the domain's attributes not in the list
  histogram         datavector histograms self.df.values with one more integer edge than the size of each attribute of
                    self.domain, weighted by self.weights
  parallel-domain   every Domain(attrs, shape) built in domain.py builds both arguments by the same recipe over the
                    same sequence (project / merge / fromdict)
  order-filter      marginalize / invert / canonical keep the domain's own attribute order (comprehension over self.attrs
                    filtered by membership)
  none-test         an `attrs=None` default meaning "all attributes" is tested by comparison with None, not by truthiness
                    (an empty attribute list is a legal argument and means the empty product)
  exact-size        the number of cells is the exact (arbitrary-precision) product of the attribute sizes: reduce/math.prod over
                    Python ints, not a fixed-width numpy product (domains beyond 2**63 cells are ordinary here)
Not decided: cell-level histogram counts (numpy.histogramdd trusted).
"""
import ast

from ..absint import Structured
from ..srcmodel import AnalysisError, U, calls_in, walk_shallow, names_in

DS = 'src/mbi/dataset.py'
DOM = 'src/mbi/domain.py'


def strip_list(e):
    while isinstance(e, ast.Call) and isinstance(e.func, ast.Name) and e.func.id in ('list', 'tuple') and len(e.args) == 1:
        e = e.args[0]
    return e


def column_selection(e):
    """If e selects columns of a frame by name: return (frame_expr_text, columns_expr_text)."""
    # X.loc[:, C]
    if isinstance(e, ast.Subscript) and isinstance(e.value, ast.Attribute) and e.value.attr == 'loc' \
            and isinstance(e.slice, ast.Tuple) and len(e.slice.elts) == 2 and U(e.slice.elts[0]) == ':':
        return U(e.value.value), U(strip_list(e.slice.elts[1]))
    # X[C] / X[list(C)]
    if isinstance(e, ast.Subscript) and not isinstance(e.slice, (ast.Tuple, ast.Slice)):
        return U(e.value), U(strip_list(e.slice))
    # X.reindex(columns=C) / X.filter(items=C)
    if isinstance(e, ast.Call) and isinstance(e.func, ast.Attribute) and e.func.attr in ('reindex', 'filter'):
        for k in e.keywords:
            if k.arg in ('columns', 'items'):
                return U(e.func.value), U(strip_list(k.value))
    return None


class DfAssigned(Structured):
    """must-analysis: self.df assigned on every path of __init__"""
    def copy(self, st): return set(st)
    def join(self, a, b): return a & b
    def on_assign(self, st, s):
        for t in (s.targets if isinstance(s, ast.Assign) else [s.target]):
            if U(t) == 'self.df':
                st.add('df')
        return st
    def unsupported(self, st, stmt): return st


def run(ctx):
    repo = ctx.repo
    ctx.explanation = ('Structural rules over src/mbi/dataset.py and src/mbi/domain.py: ownership of the Dataset fields, '
                       'by-name column selection in domain order on every constructor path, one column list for frame and '
                       'domain in project, histogram arguments taken from the dataset\'s own fields, parallel construction '
                       'of Domain arguments, order-preserving filters, None-tests. Exhaustive over both files.')
    ctx.rule_text = 'one obligation per field store, per Dataset/Domain construction, per histogram argument, per filter, per None-test'
    ctx.trusted = ['pandas by-name column selection, numpy.histogramdd']
    methods = repo.nmethods(DS, 'Dataset')
    for need in ('__init__', 'project', 'drop', 'datavector'):
        if need not in methods:
            raise AnalysisError('anchor vanished: Dataset.%s' % need)
    init = methods['__init__']
    p_df, p_dom = init.params[1], init.params[2]
    p_w = init.params[3] if len(init.params) > 3 else None

    # ---- owner -------------------------------------------------------------------------------
    n_owner = 0
    for name, fi in methods.items():
        ctx.analysed(fi)
        for s in ast.walk(fi.node):
            tg = s.targets if isinstance(s, ast.Assign) else ([s.target] if isinstance(s, (ast.AugAssign, ast.AnnAssign)) else [])
            for t in tg:
                for el in (t.elts if isinstance(t, (ast.Tuple, ast.List)) else [t]):
                    if isinstance(el, ast.Attribute) and U(el.value) == 'self' and el.attr in ('df', 'domain', 'weights'):
                        n_owner += 1
                        ctx.ob('owner', fi, s, name == '__init__',
                               'Dataset.%s stores self.%s; only the constructor may (column order is normalised there)' % (name, el.attr))
    ctx.floor('stores to Dataset fields', n_owner, 3)

    # ---- column order on every constructor path ----------------------------------------------------
    stores = [s for s in ast.walk(init.node) if isinstance(s, ast.Assign) and any(U(t) == 'self.df' for t in s.targets)]
    if not stores:
        raise AnalysisError('Dataset.__init__ no longer assigns self.df')
    for s in stores:
        sel = column_selection(s.value)
        ok = sel is not None and sel[0] == p_df and sel[1] in ('%s.attrs' % p_dom, 'self.domain.attrs')
        ctx.ob('column-order', init, s, ok,
               'the stored frame must be the given frame re-selected by name in domain order (`%s.loc[:, %s.attrs]`); stores `%s`'
               % (p_df, p_dom, U(s.value)))
    an = DfAssigned()
    exits = an.exits(init.body, set())
    ok = all('df' in st for _, st in exits)
    ctx.ob('column-order', init, init.node, ok, 'self.df must be assigned on every path of the constructor',
           construct='definite assignment of self.df')
    dom_store = [s for s in ast.walk(init.node) if isinstance(s, ast.Assign) and any(U(t) == 'self.domain' for t in s.targets)]
    ctx.ob('column-order', init, dom_store[0] if dom_store else init.node,
           bool(dom_store) and all(U(s.value) == p_dom for s in dom_store),
           'the stored domain must be the domain whose attribute order the frame was selected by')
    w_store = [s for s in ast.walk(init.node) if isinstance(s, ast.Assign) and any(U(t) == 'self.weights' for t in s.targets)]
    ctx.ob('project-consistent', init, w_store[0] if w_store else init.node,
           bool(w_store) and all(U(s.value) == p_w for s in w_store), 'the constructor must keep the weights it is given')

    # ---- project -----------------------------------------------------------------------------------
    proj = methods['project']
    cols = proj.params[1]
    defs = {}
    for s in walk_shallow(proj.node):
        if isinstance(s, ast.Assign) and len(s.targets) == 1 and isinstance(s.targets[0], ast.Name):
            defs.setdefault(s.targets[0].id, []).append(s.value)
    rets = [r for r in walk_shallow(proj.node) if isinstance(r, ast.Return)]
    n_ds = 0
    for r in rets:
        v = r.value
        if not (isinstance(v, ast.Call) and U(v.func) == 'Dataset'):
            raise AnalysisError('Dataset.project: unrecognised return `%s`' % U(v))
        n_ds += 1
        args = list(v.args) + [None] * 3
        kw = {k.arg: k.value for k in v.keywords}
        a_df, a_dom = args[0], args[1]
        a_w = args[2] if args[2] is not None else kw.get('weights')

        def resolve(e):
            if isinstance(e, ast.Name) and e.id in defs and len(defs[e.id]) == 1 and e.id != cols:
                return defs[e.id][0]
            return e
        e_df, e_dom = resolve(a_df), resolve(a_dom)
        sel = column_selection(e_df)
        ok_df = sel is not None and sel[0] == 'self.df'
        ok_dom = isinstance(e_dom, ast.Call) and U(e_dom.func) == 'self.domain.project' and len(e_dom.args) == 1
        same = ok_df and ok_dom and sel[1] == U(strip_list(e_dom.args[0]))
        ctx.ob('project-consistent', proj, r, same,
               'frame columns selected by `%s`, domain projected by `%s`: must be one and the same column list of self.df / self.domain'
               % (sel[1] if sel else U(e_df), U(e_dom.args[0]) if ok_dom else U(e_dom)))
        ctx.ob('project-consistent', proj, r, a_w is not None and U(a_w) == 'self.weights',
               'the projected dataset must carry self.weights (got `%s`)' % (U(a_w) if a_w is not None else None),
               construct='weights of ' + U(r))
    ctx.floor('Dataset constructions in project', n_ds, 1)
    # cols may only be normalised (str/int -> [cols]), never reordered
    for s in walk_shallow(proj.node):
        if isinstance(s, ast.Assign) and any(U(t) == cols for t in s.targets):
            ok = U(s.value) in ('[%s]' % cols, 'list(%s)' % cols, 'tuple(%s)' % cols, '(%s,)' % cols)
            ctx.ob('project-consistent', proj, s, ok, 'the requested column list may be wrapped but not reordered: `%s`' % U(s))
    drop = methods['drop']
    d_cols = drop.params[1]
    rets = [r for r in walk_shallow(drop.node) if isinstance(r, ast.Return)]
    d_defs = {s.targets[0].id: s.value for s in walk_shallow(drop.node)
              if isinstance(s, ast.Assign) and isinstance(s.targets[0], ast.Name)}
    for r in rets:
        v = r.value
        ok = isinstance(v, ast.Call) and U(v.func) == 'self.project' and len(v.args) == 1
        arg = v.args[0] if ok else None
        if ok and isinstance(arg, ast.Name) and arg.id in d_defs:
            arg = d_defs[arg.id]
        okf = ok and is_order_filter(arg, 'self.domain', d_cols, negate=True)
        ctx.ob('project-consistent', drop, r, okf, 'drop must project onto the domain\'s attributes not in the list, in domain order')

    # ---- histogram -------------------------------------------------------------------------------------
    dv = methods['datavector']
    hcalls = [c for c in calls_in(dv.node) if U(c.func).endswith('histogramdd')]
    if len(hcalls) != 1:
        raise AnalysisError('Dataset.datavector: expected one histogramdd call')
    h = hcalls[0]
    hdefs = {s.targets[0].id: s.value for s in walk_shallow(dv.node)
             if isinstance(s, ast.Assign) and isinstance(s.targets[0], ast.Name)}
    kw = {k.arg: k.value for k in h.keywords}
    sample = h.args[0] if h.args else kw.get('sample')
    bins = h.args[1] if len(h.args) > 1 else kw.get('bins')
    wts = kw.get('weights', h.args[4] if len(h.args) > 4 else None)
    if isinstance(bins, ast.Name) and bins.id in hdefs:
        bins = hdefs[bins.id]
    ctx.ob('histogram', dv, h, sample is not None and U(sample) in ('self.df.values', 'self.df.to_numpy()'),
           'the sample must be the dataset\'s own (domain-ordered) frame values; got `%s`' % (U(sample) if sample is not None else None),
           construct='sample of ' + U(h)[:60])
    ok_bins = False
    if isinstance(bins, ast.ListComp) and len(bins.generators) == 1 and not bins.generators[0].ifs:
        g = bins.generators[0]
        e = bins.elt
        n = U(g.target)
        edge = isinstance(e, ast.Call) and U(e.func) in ('range', 'np.arange', 'numpy.arange') and \
            ((len(e.args) == 1 and U(e.args[0]).replace(' ', '') in (n + '+1', '1+' + n)) or
             (len(e.args) == 2 and U(e.args[0]) == '0' and U(e.args[1]).replace(' ', '') in (n + '+1', '1+' + n)))
        ok_bins = edge and U(g.iter) == 'self.domain.shape'
    ctx.ob('histogram', dv, h, ok_bins,
           'bin edges must be 0..n (n+1 integer edges) for every attribute size n of self.domain.shape, in domain order; got `%s`'
           % (U(bins) if bins is not None else None), construct='bins of ' + U(h)[:60])
    ctx.ob('histogram', dv, h, wts is not None and U(wts) == 'self.weights',
           'the histogram must be weighted by self.weights; got `%s`' % (U(wts) if wts is not None else None),
           construct='weights of ' + U(h)[:60])

    check_domain(ctx)


def is_order_filter(e, dom, param, negate):
    """[a for a in <dom>[.attrs] if (not) a in param]  (list / tuple / generator forms)"""
    e = strip_list(e)
    if not isinstance(e, (ast.ListComp, ast.GeneratorExp)) or len(e.generators) != 1:
        return False
    g = e.generators[0]
    if U(g.iter) not in (dom, dom + '.attrs') or len(g.ifs) != 1 or U(e.elt) != U(g.target):
        return False
    t = g.ifs[0]
    neg = False
    if isinstance(t, ast.UnaryOp) and isinstance(t.op, ast.Not):
        t, neg = t.operand, True
    if not (isinstance(t, ast.Compare) and len(t.ops) == 1 and U(t.left) == U(g.target) and U(t.comparators[0]) == param):
        return False
    if isinstance(t.ops[0], ast.NotIn):
        neg = not neg
    elif not isinstance(t.ops[0], ast.In):
        return False
    return neg == negate


def check_domain(ctx):
    repo = ctx.repo
    methods = repo.nmethods(DOM, 'Domain')
    for need in ('__init__', 'project', 'marginalize', 'merge', 'invert', 'canonical', 'size', 'axes', 'fromdict'):
        if need not in methods:
            raise AnalysisError('anchor vanished: Domain.%s' % need)
    # constructor: attrs/shape stored in parallel, config zips them
    init = methods['__init__']
    a, s_ = init.params[1], init.params[2]
    st = {U(x.targets[0]): U(x.value) for x in ast.walk(init.node) if isinstance(x, ast.Assign)}
    ok = st.get('self.attrs') in ('tuple(%s)' % a, 'list(%s)' % a) and st.get('self.shape') in ('tuple(%s)' % s_, 'list(%s)' % s_) \
        and st.get('self.config') in ('dict(zip(%s, %s))' % (a, s_), 'dict(zip(self.attrs, self.shape))')
    ctx.ob('parallel-domain', init, init.node, ok,
           'constructor must store attrs and shape position by position and map attr -> size by zipping them',
           construct='Domain.__init__ stores')
    n = 0
    for name, fi in methods.items():
        ctx.analysed(fi)
        defs = {x.targets[0].id: x.value for x in walk_shallow(fi.node)
                if isinstance(x, ast.Assign) and len(x.targets) == 1 and isinstance(x.targets[0], ast.Name)}
        for c in calls_in(fi.node):
            if isinstance(c.func, ast.Name) and c.func.id == 'Domain' and len(c.args) == 2:
                n += 1
                A, S = c.args
                if isinstance(S, ast.Name) and S.id in defs:
                    S = defs[S.id]
                ok = parallel(A, S)
                ctx.ob('parallel-domain', fi, c, ok,
                       'attribute list `%s` and shape `%s` must be built by the same recipe over the same sequence' % (U(A), U(S)))
    ctx.floor('Domain constructions in domain.py', n, 3)
    for name, neg in (('marginalize', True), ('invert', True), ('canonical', False)):
        fi = methods[name]
        p = fi.params[1]
        cands = [x.value for x in walk_shallow(fi.node) if isinstance(x, (ast.Assign, ast.Return)) and x.value is not None]
        ok = any(is_order_filter(v, 'self', p, neg) for v in cands)
        ctx.ob('order-filter', fi, fi.node, ok,
               'Domain.%s must keep the domain\'s own attribute order: a comprehension over self.attrs filtered by `%s %s`'
               % (name, 'not in' if neg else 'in', p), construct='def ' + name)
    # marginalize returns the projection onto that filtered list
    fi = methods['marginalize']
    rets = [r for r in walk_shallow(fi.node) if isinstance(r, ast.Return)]
    ok = all(isinstance(r.value, ast.Call) and U(r.value.func) == 'self.project' for r in rets)
    ctx.ob('order-filter', fi, rets[0], ok, 'marginalize must return self.project(<kept attributes>)')
    none_tests(ctx, DOM, 'Domain')
    check_size(ctx, methods['size'])


def parallel(A, S):
    a, s = U(strip_list(A)), U(strip_list(S))
    # (1) same text with attrs->shape / keys->values
    if a.replace('.attrs', '.shape').replace('.keys()', '.values()') == s and a != s:
        return True
    # (2) shape = (self.config[x] for x in A)
    S2 = strip_list(S)
    if isinstance(S2, (ast.GeneratorExp, ast.ListComp)) and len(S2.generators) == 1 and not S2.generators[0].ifs:
        g = S2.generators[0]
        if U(g.iter) == a and isinstance(S2.elt, ast.Subscript) and U(S2.elt.value) in ('self.config', 'self') \
                and U(S2.elt.slice) == U(g.target):
            return True
    return False


def none_tests(ctx, rel, clsname):
    """parameters defaulting to None must be tested by comparison with None, not by truthiness"""
    for name, fi in ctx.repo.nmethods(rel, clsname).items():
        nones = [p for p, d in fi.defaults().items() if isinstance(d, ast.Constant) and d.value is None]
        for p in nones:
            for n in walk_shallow(fi.node):
                tests = []
                if isinstance(n, (ast.If, ast.While, ast.IfExp)):
                    tests = [n.test]
                elif isinstance(n, ast.BoolOp):
                    tests = n.values
                for t in tests:
                    for sub in ([t] if not isinstance(t, ast.BoolOp) else t.values):
                        core = sub.operand if isinstance(sub, ast.UnaryOp) and isinstance(sub.op, ast.Not) else sub
                        if isinstance(core, ast.Name) and core.id == p:
                            ctx.ob('none-test', fi, n, False,
                                   'parameter `%s` defaults to None meaning "all"; testing its truthiness also catches the '
                                   'legal empty list' % p, construct=U(sub))
                        elif isinstance(core, ast.Compare) and isinstance(core.left, ast.Name) and core.left.id == p \
                                and isinstance(core.comparators[0], ast.Constant) and core.comparators[0].value is None:
                            ctx.ob('none-test', fi, n, True, 'None-default of `%s` tested by comparison with None' % p,
                                   construct=U(sub))


def check_size(ctx, fi):
    """full-domain size = exact integer product over self.shape"""
    cands = [r.value for r in walk_shallow(fi.node) if isinstance(r, ast.Return) and r.value is not None and 'self.shape' in U(r.value)]
    if not cands:
        raise AnalysisError('Domain.size: product over self.shape not found')
    for v in cands:
        t = U(v).replace(' ', '')
        exact = t in ('reduce(lambdax,y:x*y,self.shape,1)', 'math.prod(self.shape)', 'reduce(operator.mul,self.shape,1)',
                      'functools.reduce(lambdax,y:x*y,self.shape,1)', 'prod(self.shape)')
        fixed_width = any(isinstance(c, ast.Call) and (U(c.func).startswith(('np.', 'numpy.'))) for c in ast.walk(v))
        if not exact and not fixed_width:
            raise AnalysisError('Domain.size: unrecognised product form `%s`' % U(v))
        ctx.ob('exact-size', fi, v, exact,
               'the size of a domain is the exact product of its attribute sizes; `%s` %s' % (U(v), 'uses Python integers' if exact else
                                                                                              'is a fixed-width numpy reduction that wraps silently at 2**63 cells'))

"""C15 - datasets vectorise to their contingency table; projection commutes (structural clauses).

  owner             .df/.domain/.weights of a Dataset are assigned only by Dataset.__init__
  column-order      on every path the constructor stores the frame re-selected in domain order
                    (df.loc[:, domain.attrs] or an equivalent by-name column selection)
  project-consistent   project() selects frame columns and projects the domain with one and the same column list, and
                    forwards self.weights;  drop() delegates to project with the domain's attributes not in the list
  histogram         datavector histograms self.df.values with one more integer edge than the size of each attribute of
                    self.domain, weighted by self.weights
  parallel-domain   every Domain(attrs, shape) built in domain.py builds both arguments by the same recipe over the
                    same sequence (project / merge / fromdict)
  order-filter      marginalize / invert / canonical keep the domain's own attribute order (comprehension over self.attrs
                    filtered by membership)
  containment       Domain.contains compares attribute names only (not sizes)
  equality          Domain.__eq__ compares the attribute sequences in order, and the sizes
  none-test         an `attrs=None` default meaning "all attributes" is tested by comparison with None, not by truthiness
                    (an empty attribute list is a legal argument and means the empty product)
  exact-size        the number of cells is the exact (arbitrary-precision) product of the attribute sizes: reduce/math.prod over
                    Python ints, not a fixed-width numpy product (domains beyond 2**63 cells are ordinary here)
  (histogram also)  any other value datavector returns is, under an established one-attribute domain, numpy.bincount of the column with
                    self.weights and minlength = the attribute's size; canonical from sorted positions only when the positions form a set
Not decided: cell-level histogram counts (numpy.histogramdd trusted).
"""
import ast
import re

from ..engines.seqval import SeqExec, show
from ..srcmodel import AnalysisError, U, calls_in, walk_shallow, names_in

DS = 'src/mbi/dataset.py'
DOM = 'src/mbi/domain.py'


def check_contains(ctx):
    """Domain.contains(other): every attribute NAME of other is an attribute of self - sizes are not compared (a compressed domain and the
    original, a merge of two domains recording different sizes, still contain each other's attributes; Factor.expand and the model code assert
    exactly this).  Accepted: a subset test between the two attribute sets (sets of attrs, dict KEY views, all(a in ..)).  Reported: a test
    between ITEM views / (name, size) pairs, which also demands equal sizes."""
    if not ctx.repo.has_func(DOM, 'Domain.contains'):
        raise AnalysisError('anchor vanished: Domain.contains')
    fi = ctx.repo.nfunc(DOM, 'Domain.contains')
    ctx.analysed(fi)
    o = fi.params[1]
    rets = [r for r in ast.walk(fi.node) if isinstance(r, ast.Return) and r.value is not None]
    if len(rets) != 1:
        raise AnalysisError('Domain.contains: expected one return')
    t = U(rets[0].value).replace(' ', '')

    def names(w):
        return ['set(%s.attrs)' % w, 'frozenset(%s.attrs)' % w, '%s.config.keys()' % w, 'set(%s)' % w, 'set(%s.config)' % w, '%s.config.keys()' % w]

    def pairs(w):
        return ['%s.config.items()' % w, 'set(%s.config.items())' % w, 'set(zip(%s.attrs,%s.shape))' % (w, w)]
    by_name = ['%s<=%s' % (a, b) for a in names(o) for b in names('self')] + ['%s>=%s' % (b, a) for a in names(o) for b in names('self')] + \
              ['%s.issubset(%s)' % (a, b) for a in names(o) for b in names('self') + ['self.attrs']] + \
              ['all(ainself.attrsforain%s.attrs)' % o, 'all(ainselfforain%s)' % o, 'all(ainself.configforain%s.attrs)' % o,
               'all((ainself.attrsforain%s.attrs))' % o, 'all((ainselfforain%s))' % o]
    by_pair = ['%s<=%s' % (a, b) for a in pairs(o) for b in pairs('self')] + ['%s>=%s' % (b, a) for a in pairs(o) for b in pairs('self')]
    if t not in by_name and t not in by_pair:
        raise AnalysisError('Domain.contains: `%s` is in no recognised form' % U(rets[0].value)[:80])
    ctx.ob('containment', fi, rets[0], t in by_name,
           'contains() compares attribute NAMES only; returns `%s`%s' % (U(rets[0].value)[:80], '' if t in by_name else
           ' - a test between (name, size) pairs: a domain recording another size for a shared attribute (a compressed domain and its original) is '
           'no longer contained'), construct='Domain.contains')


def check_equality(ctx):
    """Domain.__eq__: two domains are equal when they list the same attributes IN THE SAME ORDER with the same sizes (a domain is an ordered
    product: `D.transpose(perm) == D` must be false for a non-trivial permutation, datasets over the two vectorise differently).  Accepted:
    ordered comparison of the attribute sequences and of the size sequences (separately, as a pair, or zipped into a LIST / TUPLE of
    pairs).  Reported: a comparison through a dict / set (or of `config`, which is a dict): order is ignored."""
    if not ctx.repo.has_func(DOM, 'Domain.__eq__'):
        raise AnalysisError('anchor vanished: Domain.__eq__')
    fi = ctx.repo.nfunc(DOM, 'Domain.__eq__')
    ctx.analysed(fi)
    other = fi.params[1]
    rets = [r for r in ast.walk(fi.node) if isinstance(r, ast.Return) and r.value is not None]
    if len(rets) != 1:
        raise AnalysisError('Domain.__eq__: expected one return')
    e = rets[0].value
    conj = e.values if isinstance(e, ast.BoolOp) and isinstance(e.op, ast.And) else [e]
    ordered, unordered, sizes, names = False, None, False, False

    def side(x, who):
        """what one side of a comparison denotes: ('attrs'|'shape'|'pairs-ordered'|'pairs-unordered'|'both'), or None"""
        t = U(x).replace(' ', '')
        if t == who + '.attrs' or t in ('tuple(%s.attrs)' % who, 'list(%s.attrs)' % who):
            return 'attrs'
        if t == who + '.shape' or t in ('tuple(%s.shape)' % who, 'list(%s.shape)' % who):
            return 'shape'
        if t in ('(%s.attrs,%s.shape)' % (who, who), '[%s.attrs,%s.shape]' % (who, who)):
            return 'both'
        z = 'zip(%s.attrs,%s.shape)' % (who, who)
        if t in ('list(%s)' % z, 'tuple(%s)' % z):
            return 'pairs-ordered'
        if t in ('dict(%s)' % z, 'set(%s)' % z, 'frozenset(%s)' % z, who + '.config', 'set(%s.attrs)' % who, 'frozenset(%s.attrs)' % who,
                 'sorted(%s)' % z, 'sorted(%s.attrs)' % who, 'set(%s.config.items())' % who, 'sorted(%s.config.items())' % who):
            return 'unordered'
        return None
    for c in conj:
        if not (isinstance(c, ast.Compare) and len(c.ops) == 1 and isinstance(c.ops[0], ast.Eq)):
            raise AnalysisError('Domain.__eq__: `%s` is in no recognised form' % U(c)[:80])
        l, r = c.left, c.comparators[0]
        a, b = side(l, 'self'), side(r, other)
        if a is None or b is None:
            a, b = side(r, 'self'), side(l, other)
        if a is None or b is None or a != b:
            raise AnalysisError('Domain.__eq__: `%s` is in no recognised form' % U(c)[:80])
        if a == 'attrs':
            names = True
        elif a == 'shape':
            sizes = True
        elif a in ('both', 'pairs-ordered'):
            names = sizes = True
        elif a == 'unordered':
            unordered = c
    ok = names and sizes
    ctx.ob('equality', fi, unordered if unordered is not None else rets[0], ok,
           'domains are equal iff they list the same attributes in the same ORDER with the same sizes%s; returns `%s`'
           % ('' if ok else (' - a comparison through a dict / set / sorted view ignores the order (a transposed domain would equal the original)'
                             if unordered is not None else ' - the %s are not compared' % ('sizes' if names else 'attribute sequences')), U(e)[:100]),
           construct='Domain.__eq__')


def alternatives(v):
    return set(v[1]) if isinstance(v, tuple) and v and v[0] == 'phi' else {v}


def run(ctx):
    repo = ctx.repo
    ctx.explanation = ('Value-based structural rules over src/mbi/dataset.py and src/mbi/domain.py. Every method is evaluated '
                       'abstractly (engines/seqval.py): expressions denote ordered attribute sequences, domains, frames and '
                       'datasets as terms that are independent of spelling (locals, new helpers, comprehension/generator, '
                       'delegation to a sibling Domain method are all looked through). Rules compare those terms: ownership '
                       'of the Dataset fields, by-name column selection in domain order on every constructor path, one '
                       'column list for frame and domain in project, histogram arguments taken from the dataset\'s own '
                       'fields, parallel construction of Domain arguments, order-preserving filters, None-tests, exact size.')
    ctx.rule_text = 'one obligation per field store, per Dataset/Domain construction, per histogram argument, per filter, per None-test'
    ctx.trusted = ['pandas by-name column selection, numpy.histogramdd']
    methods = repo.nmethods(DS, 'Dataset')
    for need in ('__init__', 'project', 'drop', 'datavector'):
        if need not in methods:
            raise AnalysisError('anchor vanished: Dataset.%s' % need)
    init = methods['__init__']
    p_df, p_dom = init.params[1], init.params[2]
    p_w = init.params[3] if len(init.params) > 3 else None
    SELF = ('ds', 'self')

    # ---- owner -------------------------------------------------------------------------------
    n_owner = 0
    for name, fi in methods.items():
        ctx.analysed(fi)
        for s in ast.walk(fi.node):
            tg = s.targets if isinstance(s, ast.Assign) else ([s.target] if isinstance(s, (ast.AugAssign, ast.AnnAssign)) else [])
            for t in tg:
                for el in (t.elts if isinstance(t, (ast.Tuple, ast.List)) else [t]):
                    if isinstance(el, ast.Attribute) and U(el.value) == 'self' and el.attr in ('df', 'domain', 'weights'):
                        n_owner += 1
                        ctx.ob('owner', fi, s, name == '__init__',
                               'Dataset.%s stores self.%s; only the constructor may (column order is normalised there)' % (name, el.attr))
    ctx.floor('stores to Dataset fields', n_owner, 3)
    check_bare_names(ctx)
    check_size_bare_name(ctx)
    check_equality(ctx)
    check_contains(ctx)
    check_sort_and_load(ctx)

    # ---- column order on every constructor path ----------------------------------------------------
    ex = SeqExec(repo, init, SELF, {p_df: ('frame', p_df)})
    exits = ex.exits(init.body, dict(ex.env0))
    want_df = ('select', ('frame', p_df), ('attrs', ('dom', p_dom)))
    def same_columns_guard(stmt):
        """the store sits in the true branch of `tuple(df.columns) == tuple(domain.attrs)`: there the frame IS its own domain-ordered selection"""
        par = getattr(stmt, '_parent', None)
        if not (isinstance(par, ast.If) and stmt in par.body and isinstance(par.test, ast.Compare) and len(par.test.ops) == 1
                and isinstance(par.test.ops[0], ast.Eq)):
            return False

        def strip(x):
            while isinstance(x, ast.Call) and isinstance(x.func, ast.Name) and x.func.id in ('list', 'tuple') and len(x.args) == 1:
                x = x.args[0]
            return U(x)
        return {strip(par.test.left), strip(par.test.comparators[0])} == {'%s.columns' % p_df, '%s.attrs' % p_dom}
    guarded_identity = set()
    for stmt, val in [(s, v) for s, t, v in ex.stores if t == 'self.df']:
        if val == ('frame', p_df) and same_columns_guard(stmt):
            guarded_identity.add(id(stmt))
            ctx.ob('column-order', init, stmt, True, 'the given frame is stored as is where its columns already are the domain\'s attributes in order',
                   construct='self.df = %s under equal column tuples' % p_df)
            continue
        ctx.ob('column-order', init, stmt, val == want_df,
               'the stored frame must be the given frame re-selected by name in domain order (`%s.loc[:, %s.attrs]`); stores `%s`'
               % (p_df, p_dom, show(val)))
    if not any(t == 'self.df' for _, t, _ in ex.stores):
        raise AnalysisError('Dataset.__init__ no longer assigns self.df')
    allowed = {want_df} | ({('frame', p_df)} if guarded_identity else set())
    ok = bool(exits) and all(st.get('self.df') is not None and alternatives(st.get('self.df')) <= allowed for _, st in exits)
    ctx.ob('column-order', init, init.node, ok, 'self.df must hold the domain-ordered selection on every path out of the constructor',
           construct='definite assignment of self.df')
    ok = bool(exits) and all(st.get('self.domain') == ('p', p_dom) for _, st in exits)
    ctx.ob('column-order', init, init.node, ok,
           'the stored domain must be the domain whose attribute order the frame was selected by', construct='self.domain store')
    ok = bool(exits) and all(st.get('self.weights') == ('p', p_w) for _, st in exits)
    detail = ''
    if not ok:
        ok, detail = weights_sanitised(init, p_w)
    if not ok and not detail:
        ok, detail = weights_kept(init, p_w)
    ctx.ob('project-consistent', init, init.node, ok, 'the constructor must keep the weights it is given' + detail, construct='self.weights store')

    # ---- project -----------------------------------------------------------------------------------
    proj = methods['project']
    cols = proj.params[1]
    ex = SeqExec(repo, proj, SELF)
    rets = ex.return_values()
    n_ds = 0
    legal_cols = {('p', cols), ('wrap', ('p', cols))}
    for r, v in rets:
        for alt in alternatives(v):
            if alt[0] != 'Dataset':
                raise AnalysisError('Dataset.project: unrecognised return `%s`' % U(r))
            n_ds += 1
            _, F, D, W = alt
            # the constructor re-selects the frame's columns by name in the order of the domain it is given (column-order rule),
            # so what matters is the frame the columns are taken from; an intermediate by-name selection changes nothing
            root = F
            while root is not None and root[0] == 'select':
                root = root[1]
            ok_df = root == ('frame', 'self.df')
            ok_dom = D is not None and D[0] == 'project' and D[1] == ('dom', 'self.domain')
            same = ok_df and ok_dom
            F = ('select', root, D[2]) if same else F
            ctx.ob('project-consistent', proj, r, same,
                   'frame `%s`, domain `%s`: columns and domain must be selected by one and the same list, from self.df / self.domain'
                   % (show(F) if F else None, show(D) if D else None))
            if same:
                ok = alternatives(F[2]) <= legal_cols
                ctx.ob('project-consistent', proj, r, ok, 'the requested column list may be wrapped but not reordered: uses `%s`' % show(F[2]),
                       construct='column list of ' + U(r))
            ctx.ob('project-consistent', proj, r, W == ('weights', 'self'),
                   'the projected dataset must carry self.weights (got `%s`)' % (show(W) if W else None), construct='weights of ' + U(r))
    ctx.floor('Dataset constructions in project', n_ds, 1)
    drop = methods['drop']
    d_cols = drop.params[1]
    ex = SeqExec(repo, drop, SELF)
    want = ('call', 'project', SELF, ('filter', ('attrs', ('dom', 'self.domain')), True, ('p', d_cols)))
    rets = ex.return_values()
    if not rets:
        raise AnalysisError('Dataset.drop: no return')
    for r, v in rets:
        ok = v == want
        if not ok and isinstance(v, tuple) and len(v) == 4 and v[0] == 'Dataset':
            # built directly: the constructor re-selects the frame's columns by the domain it is given, so any frame that still HAS those columns
            # (self.df, or self.df with columns dropped by name) serves; domain and weights must be the complement projection and self.weights
            import re as _re
            frame_ok = v[1] == ('frame', 'self.df') or (v[1][0] == 'opaque' and _re.fullmatch(
                r"self\.df\.drop\((columns=)?%s(,axis=1)?(,errors='ignore')?\)" % _re.escape(d_cols), str(v[1][1]).replace(' ', '')) is not None)
            dom_ok = v[2] == ('project', ('dom', 'self.domain'), want[3])
            ok = frame_ok and dom_ok and v[3] == ('weights', 'self')
        ctx.ob('project-consistent', drop, r, ok,
               'drop must project onto the domain\'s attributes not in the list, in domain order; returns `%s`' % show(v))

    # ---- histogram -------------------------------------------------------------------------------------
    dv = methods['datavector']
    ex = SeqExec(repo, dv, SELF)
    ex.exits(dv.body, dict(ex.env0))
    seen = {}
    for c, v, args, kw in ex.callargs:
        if U(c.func).endswith('histogramdd'):
            seen[id(c)] = (c, args, kw)
    scatter_tables = check_scatter(ctx, dv)
    if len(seen) > 1 or (not seen and not scatter_tables):
        raise AnalysisError('Dataset.datavector: expected one histogramdd call')
    if not seen:
        check_other_vector_paths(ctx, dv, None, scatter_tables)
        check_domain(ctx)
        return
    h, args, kw = list(seen.values())[0]
    sample = args[0] if args else kw.get('sample')
    bins = args[1] if len(args) > 1 else kw.get('bins')
    wts = kw.get('weights', args[4] if len(args) > 4 else None)
    ctx.ob('histogram', dv, h, sample == ('values', ('frame', 'self.df')),
           'the sample must be the dataset\'s own (domain-ordered) frame values; got `%s`' % (show(sample) if sample else None),
           construct='sample of histogramdd')
    rng_ = kw.get('range', args[2] if len(args) > 2 else None)
    by_count = bins == ('shape', ('dom', 'self.domain')) and rng_ == ('ranges0', ('shape', ('dom', 'self.domain')))
    ctx.ob('histogram', dv, h, bins == ('edges', ('shape', ('dom', 'self.domain'))) or by_count,
           'bin edges must be 0..n (n+1 integer edges) for every attribute size n of self.domain.shape, in domain order; got `%s`'
           % (show(bins) if bins else None), construct='bins of histogramdd')
    unweighted_path = wts in (None, ('none',)) and under_weights_test(h, dv.node, want_none=True)
    ctx.ob('histogram', dv, h, wts == ('weights', 'self') or unweighted_path,
           'the histogram must be weighted by self.weights (weights may be left out only where self.weights is None); got `%s`' % (show(wts) if wts else None),
           construct='weights of histogramdd')

    check_other_vector_paths(ctx, dv, h, scatter_tables)
    check_domain(ctx)


def under_weights_test(node, top, want_none):
    """is `node` on a path where `self.weights is None` is known to be <want_none>?"""
    child, n = node, getattr(node, '_parent', None)
    while n is not None and child is not top:
        if isinstance(n, (ast.If, ast.IfExp)):
            t = U(n.test).replace(' ', '')
            pol = {'self.weightsisNone': True, 'self.weightsisnotNone': False}.get(t)
            if pol is not None:
                body = n.body if isinstance(n.body, list) else [n.body]
                orelse = n.orelse if isinstance(n.orelse, list) else [n.orelse]
                in_body = any(child is b or any(child is z for z in ast.walk(b)) for b in body)
                in_else = any(child is b or any(child is z for z in ast.walk(b)) for b in orelse)
                if in_body and pol == want_none:
                    return True
                if in_else and pol != want_none:
                    return True
        child, n = n, getattr(n, '_parent', None)
    return False


def check_scatter(ctx, dv):
    """The records ARE cell indices, so the table can be filled by adding each record's weight at its cell: numpy.add.at(T, cells, w)
    with T = zeros(self.domain.shape), cells = tuple(self.df.values.astype(int).T), w = self.weights (1 where there are none).
    `T[cells] += w` is NOT that: fancy-index assignment is buffered, a cell that several records fall into receives only the last one.
    -> names of the tables filled this way"""
    defs = {}
    for a_ in ast.walk(dv.node):
        if isinstance(a_, ast.Assign) and len(a_.targets) == 1 and isinstance(a_.targets[0], ast.Name):
            defs.setdefault(a_.targets[0].id, []).append(a_.value)

    def res(e):
        for _ in range(4):
            if isinstance(e, ast.Name) and len(defs.get(e.id, [])) == 1:
                e = defs[e.id][0]
        return e
    CELLS = ('tuple(self.df.values.astype(int).T)', 'tuple(self.df.values.T.astype(int))', 'tuple(self.df.to_numpy().astype(int).T)',
             'tuple(self.df.values.astype(np.int64).T)', 'tuple(self.df.values.astype(np.intp).T)')
    ZEROS = ('np.zeros(self.domain.shape)', 'np.zeros(self.domain.shape,dtype=float)', 'np.zeros(self.domain.shape,float)',
             'np.zeros(tuple(self.domain.shape))')
    tables = set()
    sites = []
    for n in ast.walk(dv.node):
        if isinstance(n, ast.Call) and U(n.func) in ('np.add.at', 'numpy.add.at') and len(n.args) == 3:
            sites.append((n, n.args[0], n.args[1], n.args[2], True))
        if isinstance(n, ast.AugAssign) and isinstance(n.op, ast.Add) and isinstance(n.target, ast.Subscript) and isinstance(n.target.value, ast.Name):
            ix = res(n.target.slice)
            if U(ix).replace(' ', '') in CELLS:
                sites.append((n, n.target.value, n.target.slice, n.value, False))
    def res_here(e, site):
        """definition of a name in the block of `site`, before it (a name defined differently on different branches)"""
        if not isinstance(e, ast.Name) or len(defs.get(e.id, [])) <= 1:
            return res(e)
        st = site
        while getattr(st, '_parent', None) is not None and not isinstance(st, ast.stmt):
            st = st._parent
        par = getattr(st, '_parent', None)
        for f in ('body', 'orelse'):
            blk = getattr(par, f, None)
            if isinstance(blk, list) and st in blk:
                for prev in reversed(blk[:blk.index(st)]):
                    if isinstance(prev, ast.Assign) and len(prev.targets) == 1 and U(prev.targets[0]) == e.id:
                        return prev.value
        return e
    for node, T_, C_, W_, unbuffered in sites:
        tt, ct = U(res_here(T_, node)).replace(' ', ''), U(res_here(C_, node)).replace(' ', '')
        if tt not in ZEROS or ct not in CELLS or not isinstance(T_, ast.Name):
            raise AnalysisError('Dataset.datavector: scatter `%s` into `%s` at `%s` is in no recognised form' % (U(node)[:50], tt[:40], ct[:40]))
        wt = U(W_).replace(' ', '')
        w_ok = (wt == 'self.weights' and under_weights_test(node, dv.node, want_none=False)) or \
            wt in ('1.0ifself.weightsisNoneelseself.weights', '1ifself.weightsisNoneelseself.weights', 'self.weightsifself.weightsisnotNoneelse1.0',
                   'self.weightsifself.weightsisnotNoneelse1') or (wt in ('1', '1.0') and under_weights_test(node, dv.node, want_none=True))
        tables.add(T_.id)
        ctx.ob('histogram', dv, node, unbuffered,
               'every record adds its weight to its cell: %s' % ('numpy.add.at accumulates repeated cells' if unbuffered else
               '`%s` is a buffered fancy-index update - of the records that share a cell only the last one is counted' % U(node)[:50]),
               construct='accumulation into the table')
        ctx.ob('histogram', dv, node, w_ok, 'the table is filled with self.weights (1 per record where there are none); adds `%s`' % U(W_)[:60],
               construct='weights of the scatter')
    return tables


ONE_ATTR_TESTS = ('len(self.domain)==1', 'len(self.domain.attrs)==1', 'len(self.domain.shape)==1', 'len(self.df.columns)==1',
                  'self.df.shape[1]==1')
ONE_ATTR_SIZE = ('self.domain.size()', 'self.domain.shape[0]', 'self.domain.size(self.domain.attrs)', 'self.domain[self.domain.attrs[0]]',
                 'self.domain.config[self.domain.attrs[0]]', 'self.domain.size(self.domain.attrs[0])', 'self.domain.size(None)')
ONE_ATTR_COLUMN = ('self.df.values[:,0]', 'self.df.iloc[:,0]', 'self.df[self.domain.attrs[0]]', 'self.df.values.ravel()', 'self.df.values.flatten()',
                   'self.df.to_numpy()[:,0]', 'self.df.iloc[:,0].values', 'self.df[self.domain.attrs[0]].values', 'self.df.values.reshape(-1)')


def check_other_vector_paths(ctx, dv, hist_call, scatter_tables=()):
    """Every value datavector returns is the histogram over the whole domain, or - on a path that has established a one-attribute
    domain - a count vector with one entry per value of that attribute: numpy.bincount of the single column with self.weights and
    minlength equal to the attribute's size (without minlength the vector ends at the largest value present)."""
    from ..srcmodel import clone
    derived = set(scatter_tables)
    assigns = [n for n in walk_shallow(dv.node) if isinstance(n, ast.Assign)]
    single = {}
    for a in assigns:
        for t in a.targets:
            if isinstance(t, ast.Name):
                single.setdefault(t.id, []).append(a.value)
    changed = True
    while changed:
        changed = False
        for a in assigns:
            if (hist_call is not None and any(x is hist_call for x in ast.walk(a.value))) or any(isinstance(x, ast.Name) and x.id in derived for x in ast.walk(a.value)):
                for t in a.targets:
                    for x in ast.walk(t):
                        if isinstance(x, ast.Name) and x.id not in derived:
                            derived.add(x.id)
                            changed = True

    def resolve(e, depth=0):
        """text of e with single-assignment locals substituted"""
        e = clone(e)

        class R(ast.NodeTransformer):
            def visit_Name(self, n):
                if isinstance(n.ctx, ast.Load) and len(single.get(n.id, [])) == 1 and depth < 6:
                    return ast.parse(resolve(single[n.id][0], depth + 1), mode='eval').body
                return n
        return ast.unparse(R().visit(e))

    def strip_casts(t):
        import re
        prev = None
        while prev != t:
            prev = t
            t = re.sub(r'\.astype\((int|np\.int64|np\.intp|float|np\.int32)\)$', '', t)
            m = re.fullmatch(r'np\.(asarray|array)\((.*)\)', t)
            if m and m.group(2).count('(') == m.group(2).count(')') and ',dtype' not in m.group(2).replace(' ', ''):
                t = m.group(2)
        return t
    # the empty record set answered without counting: zeros laid out like the histogram - domain.shape, flattened on request
    handled = set()
    EMPTY = ('self.records==0', 'len(self.df)==0', 'self.df.shape[0]==0', 'notself.records', 'self.records<1', 'len(self.df.index)==0', 'self.records<=0')
    def two_way(st):
        return isinstance(st, ast.If) and len(st.body) == 1 and len(st.orelse) == 1 and isinstance(st.body[0], ast.Return) and isinstance(st.orelse[0], ast.Return) \
            and len(dv.params) > 1 and U(st.test) == dv.params[1] and st.body[0].value is not None and st.orelse[0].value is not None
    for g in [n for n in dv.node.body if isinstance(n, ast.If) and U(n.test).replace(' ', '') in EMPTY and n.body and (isinstance(n.body[-1], ast.Return) or two_way(n.body[-1]))]:
        r = g.body[-1]
        if two_way(r):
            handled.add(id(r.body[0]))
            handled.add(id(r.orelse[0]))
            r = ast.copy_location(ast.Return(value=ast.IfExp(test=r.test, body=r.body[0].value, orelse=r.orelse[0].value)), r)
        handled.add(id(r))
        local = {}
        for a in g.body[:-1]:
            if isinstance(a, ast.Assign) and len(a.targets) == 1 and isinstance(a.targets[0], ast.Name):
                local[a.targets[0].id] = a.value
            else:
                raise AnalysisError('Dataset.datavector: the path for an empty record set does more than bind names: `%s`' % U(a)[:60])

        def loc(e):
            return local.get(e.id, e) if isinstance(e, ast.Name) else e
        flat_p = dv.params[1] if len(dv.params) > 1 else None
        arms = []          # (value expression, returned when flatten is ..)
        v = r.value
        if isinstance(v, ast.IfExp) and flat_p and U(v.test) == flat_p:
            arms = [(v.body, True), (v.orelse, False)]
        else:
            arms = [(v, None)]
        for e, when in arms:
            flattened = False
            e = loc(e)
            while isinstance(e, ast.Call) and isinstance(e.func, ast.Attribute) and e.func.attr in ('flatten', 'ravel') and not e.args:
                flattened = True
                e = loc(e.func.value)
            zt = U(e).replace(' ', '')
            import re as _re
            m = _re.fullmatch(r'np\.zeros\((.+?)(,dtype=(?:float|np\.float64))?\)', zt)
            if not m:
                raise AnalysisError('Dataset.datavector: the empty record set is answered by `%s`, which is in no recognised form' % U(e)[:60])
            shp = m.group(1)
            by_shape = shp in ('self.domain.shape', 'tuple(self.domain.shape)')
            by_size = shp in ('self.domain.size()', '(self.domain.size(),)')
            if not by_shape and not by_size:
                raise AnalysisError('Dataset.datavector: zeros of shape `%s` for the empty record set - not recognised' % shp[:60])
            must_be_table = when is False or (when is None and not flattened)
            ok = by_shape or (by_size and not must_be_table) if not (when is None and not flattened and flat_p) else by_shape and False
            if when is None and not flattened and flat_p:
                ok = False          # ignores the flatten request on this path
            ctx.ob('histogram', dv, r, ok,
                   'the empty record set is answered by zeros: of domain.shape when the table is asked for (flatten=False), of that many entries when the vector is; '
                   '[flatten=%s] the source returns `%s`%s' % (when, U(loc(arms[0][0]) if when is None else e)[:60] + ('.flatten()' if flattened else ''),
                                                              '' if ok else ' - a vector of domain.size() entries where the table of shape domain.shape is expected'),
                   construct='empty record set, flatten=%s' % when)
    for r in [n for n in walk_shallow(dv.node) if isinstance(n, ast.Return) and n.value is not None]:
        v = r.value
        if id(r) in handled:
            continue
        if (hist_call is not None and any(x is hist_call for x in ast.walk(v))) or any(isinstance(x, ast.Name) and x.id in derived for x in ast.walk(v)):
            continue
        counts = [c for c in ast.walk(ast.parse(resolve(v), mode='eval')) if isinstance(c, ast.Call) and U(c.func) in ('np.bincount', 'numpy.bincount')]
        if len(counts) != 1:
            raise AnalysisError('Dataset.datavector: `%s` returns a vector that is neither the histogram over the domain nor a recognised '
                                'count of a single column' % U(r)[:80])
        c = counts[0]
        # the path must have established a one-attribute domain
        guard = None
        n = r
        while getattr(n, '_parent', None) is not None and n is not dv.node:
            par = n._parent
            if isinstance(par, ast.If) and n in par.body:
                guard = par.test
                break
            n = par
        gt = U(guard).replace(' ', '') if guard is not None else ''
        if gt not in ONE_ATTR_TESTS:
            raise AnalysisError('Dataset.datavector: count of a single column under the unrecognised condition `%s`' % gt)
        a = list(c.args) + [None] * 3
        kw = {k.arg: k.value for k in c.keywords}
        x, w, m = a[0], a[1] if a[1] is not None else kw.get('weights'), a[2] if a[2] is not None else kw.get('minlength')
        xt = strip_casts(U(x).replace(' ', '')) if x is not None else ''
        if xt not in ONE_ATTR_COLUMN:
            raise AnalysisError('Dataset.datavector: unrecognised sample `%s` of bincount' % xt)
        ctx.ob('histogram', dv, r, w is not None and U(w).replace(' ', '') == 'self.weights',
               'the single-attribute count must be weighted by self.weights; got `%s`' % (U(w) if w is not None else None),
               construct='weights of bincount')
        if m is not None and U(m).replace(' ', '') not in ONE_ATTR_SIZE:
            raise AnalysisError('Dataset.datavector: unrecognised minlength `%s` of bincount' % U(m))
        ctx.ob('histogram', dv, r, m is not None,
               'the single-attribute count must have one entry per value of the attribute (minlength = the attribute\'s size): without it '
               'numpy.bincount stops at the largest value present and the vector is shorter than the domain', construct='length of bincount')


def weights_sanitised(init, w):
    """the weights parameter re-bound before it is stored: accepted when the new value equals the old one for every FINITE weight
    (`np.where(np.isfinite(w), w, 0)`, `np.nan_to_num(w)`, a dtype conversion); reported when finite weights are altered (negative ones
    clipped / zeroed, absolute values); anything else is an analysis error.  -> (ok, detail); (False, '') when there is no such re-binding"""
    rebinds = [a for a in ast.walk(init.node) if isinstance(a, ast.Assign) and len(a.targets) == 1 and U(a.targets[0]) == w]
    stores = [a for a in ast.walk(init.node) if isinstance(a, ast.Assign) and len(a.targets) == 1 and U(a.targets[0]) == 'self.weights']
    if not rebinds or len(stores) != 1 or U(stores[0].value) != w:
        return False, ''
    for a in rebinds:
        t = U(a.value).replace(' ', '')
        if t in ('np.where(np.isfinite(%s),%s,0)' % (w, w), 'np.where(np.isfinite(%s),%s,0.0)' % (w, w), 'np.nan_to_num(%s)' % w,
                 'np.asarray(%s)' % w, 'np.asarray(%s,dtype=float)' % w, 'np.array(%s)' % w, 'np.array(%s,dtype=float)' % w, '%s.astype(float)' % w):
            continue
        if t in ('np.where(%s>0,%s,0)' % (w, w), 'np.where(%s>=0,%s,0)' % (w, w), 'np.clip(%s,0,None)' % w, 'np.maximum(%s,0)' % w, 'np.maximum(0,%s)' % w,
                 'np.abs(%s)' % w, 'abs(%s)' % w, '%s.clip(0)' % w, '%s.clip(0,None)' % w, 'np.where(%s>0,%s,0.0)' % (w, w)):
            return False, ': `%s` alters finite weights (negative ones), the table of a dataset with signed weights is no longer the weighted count' % U(a.value)
        raise AnalysisError('Dataset.__init__: the weights are re-bound to `%s` before they are stored, which is in no recognised form' % U(a.value)[:80])
    return True, ''


def weights_kept(init, w):
    """`self.weights = None if <all weights are 1> else weights` keeps the weights (None counts every record once).
    -> (ok, detail); raises AnalysisError for an unrecognised replacement"""
    from ..engines.blockeval import BlockEval, T
    from ..srcmodel import clone
    be = BlockEval(init.qualname, loop_ok=lambda s_: True)
    be.run(clone(init.body))
    v = be.env.get('self.weights')
    if not isinstance(v, ast.IfExp):
        return False, ''
    a, b = T(v.body), T(v.orelse)
    test = v.test
    if (a, b) == (w, 'None'):
        test = ast.UnaryOp(op=ast.Not(), operand=test)
    elif (a, b) != ('None', w):
        return False, ''
    # test: [w is not None and] ALLONES(w)
    parts = test.values if isinstance(test, ast.BoolOp) and isinstance(test.op, ast.And) else [test]
    parts = [p for p in parts if T(p) not in ('%sisnotNone' % w, '%s!=None' % w)]
    if len(parts) != 1:
        raise AnalysisError('Dataset.__init__: the weights are replaced by None under an unrecognised condition `%s`' % U(test))
    t = T(parts[0])
    all_ones = {'(%s==1).sum()==%s.size' % (w, w), '(%s==1).all()' % w, 'np.all(%s==1)' % w, 'np.all(%s==1.0)' % w, '(%s==1.0).all()' % w,
                'np.array_equal(%s,np.ones(%s.size))' % (w, w), 'np.array_equal(%s,np.ones(len(%s)))' % (w, w), 'np.count_nonzero(%s!=1)==0' % w}
    if t in all_ones:
        return True, ''
    if t in ('%s.sum()==%s.size' % (w, w), 'np.sum(%s)==%s.size' % (w, w), '%s.mean()==1' % w, '%s.sum()==len(%s)' % (w, w)):
        return False, ': they are dropped when `%s`, which also holds for non-uniform weights that merely sum to the number of records' % U(parts[0])
    raise AnalysisError('Dataset.__init__: the weights are replaced by None under an unrecognised condition `%s`' % U(parts[0]))


def parallel(A, S):
    """is S the size tuple of the attribute tuple A, position by position?"""
    if A[0] == 'attrs' and S == ('shape', A[1]):
        return True
    if S[0] == 'sizes' and S[2] == A:
        return True
    if A[0] == 'keys' and S[0] == 'values' and A[1] == S[1]:
        return True
    if A[0] == 'concat' and S[0] == 'concat':
        return parallel(A[1], S[1]) and parallel(A[2], S[2])
    if A[0] == 'phi' and S[0] == 'sizes' and S[2] == A:
        return True
    return False


def check_domain(ctx):
    repo = ctx.repo
    methods = repo.nmethods(DOM, 'Domain')
    for need in ('__init__', 'project', 'marginalize', 'merge', 'invert', 'canonical', 'size', 'axes', 'fromdict'):
        if need not in methods:
            raise AnalysisError('anchor vanished: Domain.%s' % need)
    SELF = ('dom', 'self')
    # constructor: attrs/shape stored in parallel, config zips them
    init = methods['__init__']
    a, s_ = init.params[1], init.params[2]
    ex = SeqExec(repo, init, SELF)
    exits = ex.exits(init.body, dict(ex.env0))
    ok = bool(exits) and all(st.get('self.attrs') == ('p', a) and st.get('self.shape') == ('p', s_)
                             and st.get('self.config') == ('dictzip', ('p', a), ('p', s_)) for _, st in exits)
    ctx.ob('parallel-domain', init, init.node, ok,
           'constructor must store attrs and shape position by position and map attr -> size by zipping them',
           construct='Domain.__init__ stores')
    n = 0
    for name, fi in methods.items():
        ctx.analysed(fi)
        ex = SeqExec(repo, fi, SELF)
        ex.exits(fi.body, dict(ex.env0))
        done = set()
        for c, v, args, kw in ex.callargs:
            if v[0] == 'Domain' and id(c) not in done and U(c.func) == 'Domain':
                done.add(id(c))
                n += 1
                ctx.ob('parallel-domain', fi, c, parallel(v[1], v[2]),
                       'attribute list `%s` and shape `%s` must be built by the same recipe over the same sequence' % (show(v[1]), show(v[2])))
    ctx.floor('Domain constructions in domain.py', n, 3)
    for name, neg in (('marginalize', True), ('invert', True), ('canonical', False)):
        fi = methods[name]
        p = fi.params[1]
        ex = SeqExec(repo, fi, SELF)
        want = ('filter', ('attrs', SELF), neg, ('p', p))
        if name == 'marginalize':
            want = ('project', SELF, want)
        rets = ex.return_values()
        if not rets:
            raise AnalysisError('Domain.%s: no return' % name)
        for r, v in rets:
            ctx.ob('order-filter', fi, r, v == want,
                   'Domain.%s must keep the domain\'s own attribute order: %s; returns `%s`' % (name, show(want), show(v)),
                   construct='result of ' + name)
    # merge: this domain's attributes first (own order), then the other's new ones (the other's order)
    fi = methods['merge']
    o = fi.params[1]
    ex = SeqExec(repo, fi, SELF)
    OTHER = ('dom', o)
    want_attrs = ('concat', ('attrs', SELF), ('filter', ('attrs', OTHER), True, ('attrs', SELF)))
    for r, v in ex.return_values():
        ok = False
        why = show(v)
        for alt in alternatives(v):
            if alt[0] == 'Domain':
                ok = alt[1] == want_attrs
            elif alt == SELF:
                # returning this very domain is the merge exactly when it already contains the other one
                par = getattr(r, '_parent', None)
                t = U(par.test).replace(' ', '') if isinstance(par, ast.If) and r in par.body else ''
                ok = t in ('self.contains(%s)' % o, 'set(%s.attrs)<=set(self.attrs)' % o, 'set(%s.attrs).issubset(self.attrs)' % o)
                why = 'self (when `%s`)' % t
            else:
                ok = False
        ctx.ob('order-filter', fi, r, ok,
               'Domain.merge must give this domain\'s attributes in its own order followed by the other domain\'s new attributes in theirs '
               '(factor arithmetic lays its result out by it); returns %s' % why, construct='result of merge: ' + U(r)[:60])
    none_tests(ctx, DOM, 'Domain')
    check_size(ctx, methods['size'])


def none_tests(ctx, rel, clsname):
    """parameters defaulting to None must be tested by comparison with None, not by truthiness"""
    none_tests_of(ctx, list(ctx.repo.nmethods(rel, clsname).values()))


def none_tests_of(ctx, funcs, what='the legal empty list'):
    for fi in funcs:
        nones = [p for p, d in fi.defaults().items() if isinstance(d, ast.Constant) and d.value is None]
        for p in nones:
            for n in walk_shallow(fi.node):
                tests = []
                if isinstance(n, (ast.If, ast.While, ast.IfExp)):
                    tests = [n.test]
                elif isinstance(n, ast.BoolOp):
                    tests = n.values
                for t in tests:
                    for sub in ([t] if not isinstance(t, ast.BoolOp) else t.values):
                        core = sub.operand if isinstance(sub, ast.UnaryOp) and isinstance(sub.op, ast.Not) else sub
                        if isinstance(core, ast.Name) and core.id == p:
                            ctx.ob('none-test', fi, n, False,
                                   'parameter `%s` defaults to None meaning "not given"; testing its truthiness also catches '
                                   '%s' % (p, what), construct=U(sub))
                        elif isinstance(core, ast.Compare) and isinstance(core.left, ast.Name) and core.left.id == p \
                                and isinstance(core.comparators[0], ast.Constant) and core.comparators[0].value is None:
                            ctx.ob('none-test', fi, n, True, 'None-default of `%s` tested by comparison with None' % p,
                                   construct=U(sub))


def check_size(ctx, fi):
    """full-domain size = exact integer product over self.shape"""
    import re
    from ..srcmodel import alpha_text, alpha_of
    cands = [r.value for r in walk_shallow(fi.node) if isinstance(r, ast.Return) and r.value is not None and 'self.shape' in U(r.value)]
    local_shape = None
    if not cands:
        # the sizes multiplied are first collected in a local: self.shape for the whole domain, the sizes of the requested attributes otherwise
        for r in walk_shallow(fi.node):
            if isinstance(r, ast.Return) and r.value is not None:
                m_ = re.fullmatch(r'(?:functools\.)?reduce\((?:lambdax,y:x\*y|operator\.mul),(\w+),1\)|(?:math\.)?prod\((\w+)\)', U(r.value).replace(' ', ''))
                if m_:
                    nm = m_.group(1) or m_.group(2)
                    ds = [a_.value for a_ in ast.walk(fi.node) if isinstance(a_, ast.Assign) and len(a_.targets) == 1 and U(a_.targets[0]) == nm]
                    p_ = fi.params[1] if len(fi.params) > 1 else 'attrs'
                    sizes = {alpha_of('[self.config[a] for a in %s]' % p_), alpha_of('tuple(self.config[a] for a in %s)' % p_),
                             alpha_of('[self.config[a] for a in %s]' % p_).replace('[', '(', 1)[:-1] + ')'}
                    if ds and all(U(d) == 'self.shape' or alpha_text(d) in sizes for d in ds) and any(U(d) == 'self.shape' for d in ds):
                        cands = [r.value]
                        local_shape = nm
    if not cands:
        raise AnalysisError('Domain.size: product over self.shape not found')
    for v in cands:
        t = U(v).replace(' ', '')
        if local_shape is not None:
            t = t.replace(local_shape, 'self.shape')
        exact = t in ('reduce(lambdax,y:x*y,self.shape,1)', 'math.prod(self.shape)', 'reduce(operator.mul,self.shape,1)',
                      'functools.reduce(lambdax,y:x*y,self.shape,1)', 'prod(self.shape)')
        fixed_width = any(isinstance(c, ast.Call) and (U(c.func).startswith(('np.', 'numpy.'))) for c in ast.walk(v))
        if not exact and not fixed_width:
            raise AnalysisError('Domain.size: unrecognised product form `%s`' % U(v))
        ctx.ob('exact-size', fi, v, exact,
               'the size of a domain is the exact product of its attribute sizes; `%s` %s' % (U(v), 'uses Python integers' if exact else
                                                                                              'is a fixed-width numpy reduction that wraps silently at 2**63 cells'))


def check_bare_names(ctx):
    """Domain.project / size / marginalize ... accept one attribute NAME or a sequence of names: a bare string must become the one-element
    sequence, never its characters (evaluated per spelling of the argument, rules/C04.Spell)"""
    from .C04 import Spell
    fi = ctx.repo.nfunc(DOM, 'Domain.project')
    ctx.analysed(fi)
    p = fi.params[1]
    for kind in ('str', 'list', 'tuple'):          # (a str SUBCLASS such as np.str_ is not wrapped by the unmodified `type(attrs) is str` either)
        sp = Spell(fi, ('_Q', '_y', '_noise', p), kind, True)
        try:
            sp.run(fi.body)
        except AnalysisError as e:
            raise AnalysisError('Domain.project [%s given as %s]: %s' % (p, kind, e))
        v = sp.env.get(p)
        ok = isinstance(v, tuple) and v[0] == 'proj' and v[1] in ('list', 'tuple') and v[2] == 'attrs'
        ctx.ob('bare-name', fi, fi.node, ok,
               '[%s given as %s] the attributes projected onto must be the sequence of names (a bare name wrapped into one element); they are %s'
               % (p, {'strsub': 'a str subclass'}.get(kind, kind), v[1:] if isinstance(v, tuple) else v), construct='argument of Domain.project as %s' % kind)


def check_size_bare_name(ctx):
    """Domain.size(attrs) is also called with ONE attribute name (Domain.sort('size') sorts by `key=self.size`).  The unmodified code hands
    the argument to Domain.project, which wraps a bare string.  Walking the argument (`for a in attrs`) or testing membership in it
    (`a in attrs` - a substring test on a string: 'education' is in 'education-num') treats the name as a sequence of characters, unless
    it happens on a path that has excluded / wrapped a string."""
    fi = ctx.repo.func(DOM, 'Domain.size')
    if len(fi.params) < 2:
        raise AnalysisError('Domain.size lost its attrs parameter')
    p = fi.params[1]
    bad = bare_name_uses(fi, p)
    ctx.ob('bare-name', fi, bad[0] if bad else fi.node, not bad,
           'Domain.size is also given one attribute NAME (Domain.sort sorts by key=self.size): %s' % (
               'the argument is only walked / searched where a string has been excluded or wrapped' if not bad else
               '`%s` walks or searches the argument while it may still be a string - a membership test on a string is a substring test, so the size of '
               'every attribute whose name is contained in the requested name is multiplied in' % U(bad[0])[:70]),
           construct='uses of the argument of Domain.size')
    # methods added to Domain later that take a clique / attribute collection: the library hands cliques around as tuples AND as bare names
    # (a measurement's proj may be one attribute name), so the same discipline applies to them
    from ..normalise import is_established
    for q_, f_ in sorted(fi.module.funcs.items()):
        if f_.cls is not None and f_.cls.name == 'Domain' and q_.count('.') == 1 and not is_established(DOM, q_) and len(f_.params) == 2 \
                and f_.params[1] in ('attrs', 'attr', 'cols', 'clique', 'proj', 'cl', 'names'):
            for n_ in ast.walk(f_.node):
                for ch_ in ast.iter_child_nodes(n_):
                    ch_._parent = n_
            bad_ = bare_name_uses(f_, f_.params[1])
            ctx.analysed(f_)
            ctx.ob('bare-name', f_, bad_[0] if bad_ else f_.node, not bad_,
                   'new method %s takes a clique, which the library also spells as ONE attribute name: %s' % (q_, 'a string is excluded or wrapped before the '
                   'argument is walked' if not bad_ else '`%s` walks the argument while it may still be a string - its CHARACTERS are then taken for attribute names'
                   % U(bad_[0])[:70]), construct='uses of the argument of ' + q_)


def bare_name_uses(fi, p):
    """uses of parameter p that walk / search it (iteration, membership, set(..), len(..)) on a path where it may still be a bare string"""

    def str_test(t):
        neg = False
        while isinstance(t, ast.UnaryOp) and isinstance(t.op, ast.Not):
            t, neg = t.operand, not neg
        tt = U(t).replace(' ', '')
        if tt in ('isinstance(%s,str)' % p, 'type(%s)isstr' % p, 'type(%s)==str' % p):
            return not neg
        if tt in ('type(%s)isnotstr' % p, 'type(%s)!=str' % p):
            return neg
        return None
    bad = []
    for x in ast.walk(fi.node):
        if not (isinstance(x, ast.Name) and x.id == p and isinstance(x.ctx, ast.Load)):
            continue
        par = getattr(x, '_parent', None)
        walked = (isinstance(par, (ast.For, ast.comprehension)) and par.iter is x) or \
            (isinstance(par, ast.Compare) and x in par.comparators and any(isinstance(o, (ast.In, ast.NotIn)) for o in par.ops)) or \
            (isinstance(par, ast.Call) and U(par.func) in ('set', 'list', 'tuple', 'sorted', 'frozenset', 'len') and par.args and par.args[0] is x)
        if not walked:
            continue
        excluded = False
        n_, child = par, x
        while n_ is not None and n_ is not fi.node:
            if isinstance(n_, (ast.IfExp, ast.If)):
                st_ = str_test(n_.test)
                if st_ is not None:
                    in_body = child is n_.body or (isinstance(n_.body, list) and any(child is b or any(child is z for z in ast.walk(b)) for b in n_.body))
                    in_else = child is n_.orelse or (isinstance(n_.orelse, list) and any(child is b or any(child is z for z in ast.walk(b)) for b in n_.orelse))
                    if (st_ is True and in_else) or (st_ is False and in_body):
                        excluded = True
            n_, child = getattr(n_, '_parent', None), n_
        # re-bound to a wrapped form before this use?
        rebinds = [a_ for a_ in ast.walk(fi.node) if isinstance(a_, ast.Assign) and any(U(t_) == p for t_ in a_.targets) and a_.lineno < x.lineno]
        if not excluded and not rebinds:
            bad.append(par)
    return bad


def check_sort_and_load(ctx):
    """Domain.sort('size') orders by size and keeps the domain order among equal sizes (python's sorted is stable; numpy's argsort is
    only with kind='stable' / 'mergesort').  Dataset.load builds the domain from the domain file in the FILE's attribute order."""
    from ..normalise import Defs, expand
    # ---- sort ----------------------------------------------------------------------------------------------------------------
    if ctx.repo.has_func(DOM, 'Domain.sort'):
        fi = ctx.repo.nfunc(DOM, 'Domain.sort')
        ctx.analysed(fi)
        n = 0
        for c in ast.walk(fi.node):
            if isinstance(c, ast.Call) and U(c.func).split('.')[-1] in ('argsort', 'lexsort'):
                n += 1
                kind = next((k.value for k in c.keywords if k.arg == 'kind'), None)
                stable = isinstance(kind, ast.Constant) and kind.value in ('stable', 'mergesort')
                ctx.ob('sort-stable', fi, c, stable or U(c.func).endswith('lexsort'),
                       'attributes of equal size must keep their domain order (the contract of the stable `sorted(self.attrs, key=self.size)`); '
                       '`%s` is %s' % (U(c)[:60], 'stable' if stable else 'numpy\'s default sort, which is not stable: ties are reordered'),
                       construct='stability of Domain.sort')
            if isinstance(c, ast.Call) and isinstance(c.func, ast.Name) and c.func.id == 'sorted':
                n += 1
                ctx.ob('sort-stable', fi, c, True, 'python\'s sorted is stable', construct='stability of Domain.sort: ' + U(c)[:40])
                # the key: none (the names' own order) or the size; a key that REPLACES the names' order (their text, their length, their lower case)
                # sorts integer labels 10 before 2 / merges distinct names
                key = next((k.value for k in c.keywords if k.arg == 'key'), None)
                if key is not None and U(key) not in ('self.size', 'self.config.get', 'self.config.__getitem__'):
                    kt = U(key).replace(' ', '')
                    own = re.fullmatch(r'lambda(\w+):\(isinstance\(\1,str\),\1\)', kt) or re.fullmatch(r'lambda(\w+):\(type\(\1\)isstr,\1\)', kt) \
                        or re.fullmatch(r'lambda(\w+):\(type\(\1\)\.__name__,\1\)', kt)
                    bysize = re.fullmatch(r'lambda(\w+):self\.(size\(\1\)|config\[\1\])', kt) or re.fullmatch(r'lambda(\w+):\(self\.(size\(\1\)|config\[\1\]),.*\)', kt)
                    other = kt in ('str', 'repr', 'len', 'str.lower', 'hash') or re.fullmatch(r'lambda(\w+):(str|repr|len)\(\1\)', kt) or re.fullmatch(r'lambda(\w+):\1\.lower\(\)', kt)
                    if not (own or bysize or other):
                        raise AnalysisError('Domain.sort: sort key `%s` is in no recognised form' % U(key)[:60])
                    if not bysize:
                        ctx.ob('sort-stable', fi, c, bool(own), 'sorting by name uses the names\' own order; the key `%s` %s' % (U(key)[:50],
                               'only separates strings from other labels and then compares the names themselves' if own else
                               'replaces it: integer labels are ordered as text (10 before 2), distinct names can compare equal'), construct='order of Domain.sort by name')
        ctx.floor('sorting sites in Domain.sort', n, 1)
    # ---- load ----------------------------------------------------------------------------------------------------------------
    if ctx.repo.has_func(DS, 'Dataset.load'):
        fi = ctx.repo.nfunc(DS, 'Dataset.load')
        ctx.analysed(fi)
        ctor = [c for c in ast.walk(fi.node) if isinstance(c, ast.Call) and U(c.func) == 'Domain' and len(c.args) == 2]
        if len(ctor) != 1:
            raise AnalysisError('Dataset.load: construction of the domain not found')
        c = ctor[0]
        a0, a1 = c.args
        cfg = None
        if isinstance(a0, ast.Call) and isinstance(a0.func, ast.Attribute) and a0.func.attr == 'keys' and isinstance(a1, ast.Call) \
                and isinstance(a1.func, ast.Attribute) and a1.func.attr == 'values' and U(a0.func.value) == U(a1.func.value):
            cfg = a0.func.value
        if cfg is None or not isinstance(cfg, ast.Name):
            raise AnalysisError('Dataset.load: Domain(%s, %s) is not built from the keys and values of one mapping' % (U(a0)[:30], U(a1)[:30]))
        # follow the mapping back to json.load: every re-definition must iterate the previous mapping itself (order preserved)
        defs_ = [s_ for s_ in fi.body if isinstance(s_, ast.Assign) and len(s_.targets) == 1 and U(s_.targets[0]) == cfg.id]
        ok, why = True, 'the mapping loaded from the domain file'
        seen_load = False
        for d in defs_:
            v = d.value
            if isinstance(v, ast.Call) and U(v.func).split('.')[-1] in ('load', 'loads'):
                seen_load = True
                continue
            if isinstance(v, ast.DictComp) and len(v.generators) == 1:
                it = v.generators[0].iter
                src = U(it.func.value) if isinstance(it, ast.Call) and isinstance(it.func, ast.Attribute) and it.func.attr in ('keys', 'items') else U(it)
                if src == cfg.id:
                    continue
                ok, why = False, 'the mapping is rebuilt by iterating `%s`, so the attributes come in THAT order, not in the order of the domain file' % U(it)[:50]
                break
            raise AnalysisError('Dataset.load: unrecognised re-definition `%s` of the domain mapping' % U(d)[:60])
        ctx.ob('column-order', fi, c, ok and seen_load,
               'the domain of a loaded dataset lists the attributes in the order of the domain file: %s' % why, construct='attribute order of Dataset.load')

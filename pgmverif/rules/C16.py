"""C16 - approximate marginal oracles are normalised (structural clause).

  exp-normalised                 every exponentiation in generalized_belief_propagation / loopy_belief_propagation /
                                 clique_marginals has a normalised operand (no overflow)
  returned-normalised-to-total   every table in the returned container is exp(b + log(self.total) - logsumexp(b)) of the
                                 same b, with the oracle's *current* self.total -> finite, >= 0, sums to the total
  oracle-uses-given-potentials   the beliefs are built from the potentials argument of the call (not a stale attribute)
  returns-clique-marginals       loopy_belief_propagation returns what clique_marginals computed from its own messages
  identity-compare               attribute / clique names are excluded from a complement by identity (`is not`) only when both names
                                 range over the same container; names from different containers must be compared by equality
Not decided: exactness on acyclic structures (a numerical fixed-point statement).
"""
import ast

from . import _logrules as LR
from ..srcmodel import AnalysisError, U, calls_in

RG = 'src/mbi/region_graph.py'
FG = 'src/mbi/factor_graph.py'


def run(ctx):
    repo = ctx.repo
    ctx.explanation = (
        'Log-space typestate (E3): additive normal forms of every exp operand in the two non-convex oracles; a returned '
        'table must be exp(b + log(self.total) - logsumexp(b)). Exhaustive over all paths of the three functions.')
    ctx.rule_text = 'one obligation per exponentiation site, per store into the returned container, per oracle entry'
    ctx.trusted = ['scipy.special.logsumexp / Factor.logsumexp compute log-sum-exp',
                   'exp(b - logsumexp(b) + log T) sums to T (algebra)']
    gbp = repo.nfunc(RG, 'RegionGraph.generalized_belief_propagation')
    lbp = repo.nfunc(FG, 'FactorGraph.loopy_belief_propagation')
    cm = repo.nfunc(FG, 'FactorGraph.clique_marginals')
    n_ret = 0
    for fi in (gbp, cm):
        an, n = LR.L1(ctx, fi)
        k = LR.L2_container(ctx, fi, an, 'self.total')
        n_ret += k
        if k == 0:
            raise AnalysisError('%s: no store of an exponentiated belief into the returned container found' % fi.qualname)
        # beliefs built from the potentials parameter
        pot = fi.params[-1] if fi is cm else fi.params[1]
        uses = [s for s in ast.walk(fi.node) if isinstance(s, ast.Subscript) and U(s.value) == pot]
        stale = [s for s in ast.walk(fi.node) if isinstance(s, ast.Subscript) and U(s.value) == 'self.potentials']
        ctx.ob('oracle-uses-given-potentials', fi, uses[0] if uses else fi.node, bool(uses) and not stale,
               'beliefs must be built from the `%s` argument (%d uses) and not from self.potentials (%d uses)'
               % (pot, len(uses), len(stale)), construct='potentials used in ' + fi.qualname)
    an, n = LR.L1(ctx, lbp)
    # loopy BP must return the result of clique_marginals computed from its own messages and the given potentials
    pot = lbp.params[1]
    ok_all, detail = True, []
    rets = [s for s in ast.walk(lbp.node) if isinstance(s, ast.Return)]
    if not rets:
        raise AnalysisError('loopy_belief_propagation has no return')
    last_assign = {}
    for s in ast.walk(lbp.node):
        if isinstance(s, ast.Assign) and len(s.targets) == 1:
            last_assign[U(s.targets[0])] = s.value
    for r in rets:
        v = r.value
        if v is not None and U(v) in last_assign:
            v = last_assign[U(v)]
        ok = isinstance(v, ast.Call) and U(v.func) == 'self.clique_marginals' and len(v.args) == 3 \
            and U(v.args[2]) == pot
        ctx.ob('returns-clique-marginals', lbp, r, ok,
               'must return self.clique_marginals(<messages>, <messages>, %s); returns `%s`' % (pot, U(v) if v is not None else None))
    check_identity_compares(ctx)
    ctx.floor('returned-table constructions', n_ret, 2)
    ctx.floor('exp sites', sum(1 for o in ctx.obligations if o.rule == 'exp-normalised'), 2)


def binding_iter(name_node):
    """the iterable expression of the loop / comprehension that binds this name (innermost enclosing), or None"""
    n = name_node
    par = getattr(n, '_parent', None)
    while par is not None:
        if isinstance(par, (ast.ListComp, ast.SetComp, ast.GeneratorExp, ast.DictComp)):
            for g in par.generators:
                if name_node.id in [x.id for x in ast.walk(g.target) if isinstance(x, ast.Name)]:
                    return U(g.iter)
        if isinstance(par, ast.For) and name_node.id in [x.id for x in ast.walk(par.target) if isinstance(x, ast.Name)]:
            return U(par.iter)
        par = getattr(par, '_parent', None)
    return None


def check_identity_compares(ctx):
    n = 0
    for rel, cname in ((FG, 'FactorGraph'), (RG, 'RegionGraph')):
        for name, fi in ctx.repo.nmethods(rel, cname).items():
            for c in ast.walk(fi.node):
                if isinstance(c, ast.Compare) and len(c.ops) == 1 and isinstance(c.ops[0], (ast.Is, ast.IsNot)) and \
                        isinstance(c.left, ast.Name) and isinstance(c.comparators[0], ast.Name):
                    a, b = binding_iter(c.left), binding_iter(c.comparators[0])
                    if a is None and b is None:
                        continue
                    n += 1
                    ctx.ob('identity-compare', fi, c, a == b,
                           '`%s`: `%s` ranges over `%s`, `%s` over `%s`; equal names held by different containers need not be the same '
                           'object, identity is only sound within one container' % (U(c), U(c.left), a, U(c.comparators[0]), b))
    ctx.count('identity comparisons of names', n)

"""C16 - approximate marginal oracles are normalised (structural clause).

  exp-normalised                 every exponentiation in generalized_belief_propagation / loopy_belief_propagation /
                                 clique_marginals has a normalised operand (no overflow)
  returned-normalised-to-total   every table in the returned container is exp(b + log(self.total) - logsumexp(b)) of the
                                 same b, with the oracle's *current* self.total -> finite, >= 0, sums to the total
  oracle-uses-given-potentials   the beliefs are built from the potentials argument of the call (not a stale attribute)
  returns-clique-marginals       loopy_belief_propagation returns what clique_marginals computed from its own messages
  identity-compare               attribute / clique names are excluded from a complement by identity (`is not`) only when both names
                                 range over the same container; names from different containers must be compared by equality
  oracle-on-copies               the oracles update tables in place (`belief += ...`): every such site acts on objects allocated by the call or on
                                 the oracle's own messages, never on (an element of) the caller's potentials - those are read again by the
                                 next call and by the caller (E2 origin analysis)
  sweep-termination              the message sweeps of loopy / generalized BP may stop before `iters` only at an EXACT fixed point of the messages
                                 (`np.array_equal`): a tolerance test (`allclose`, a norm below a threshold) stops with an unsummed tail, and the
                                 marginals of a long, strongly coupled tree are then not the exact ones
  per-region-partition           the union-find that merges the parents of ONE region (minimal region graph) is either created anew for every
                                 region, or shared with every key naming the region: keys shared between regions let unions made for one
                                 region decide the edges of another
  call-local-cache               a memo table on the oracle object whose entries depend on the call's arguments is emptied by that call
  gbp-message-sets               the three message sets of the minimal region-graph propagation are instances of ONE recipe - In(x) =
                                 edges entering the sub-graph below x from outside: {(s, x) : s parent of x} + {(q, d) : d descendant of x,
                                 q parent of d, q not x, q not a descendant of x} - and must agree as such: B[r] = In(r), N[p,r] = In(p),
                                 D[p,r] = In(r) without (p, r).  (Sibling agreement: an edit to one instance that is not made to the
                                 others makes GBP converge to a wrong fixed point on region graphs deep enough to tell them apart.)
  graph-structure / region-structure   generic idiom rules over the structure-building code (rules/_generic.py: minimal_scan, grouped_runs)
  raw-arrays-by-name         where an oracle method pairs raw arrays cell by cell, both are laid out by the same domain
  total-stored / none-test   the oracle constructors store the caller's total as it is; a None default is tested by comparison with None (0 is a legal total)
Not decided: exactness on acyclic structures as a numerical statement (only the agreement of the message sets above).
"""
import ast
import re

from . import _logrules as LR
from ..srcmodel import AnalysisError, U, calls_in

RG = 'src/mbi/region_graph.py'
FG = 'src/mbi/factor_graph.py'


def check_gbp_damping(ctx, gbp):
    """The non-convex GBP oracle mixes old and new messages half and half - fixed weights, so that `iters` sweeps reach the fixed point on a
    junction-tree-structured region graph whatever the engine's other settings are.  Weights read from `self.damping` make it depend on a
    knob of the CONVEX oracle that mirror_descent_auto raises towards 0.9 after a loss increase (and that may be 1.0: messages never move)."""
    from ..normalise import Defs, expand
    n = 0
    for a in [x for x in ast.walk(gbp.node) if isinstance(x, ast.Assign) and len(x.targets) == 1 and isinstance(x.targets[0], ast.Subscript)
              and U(x.targets[0].value) in ('self.messages', 'messages')]:
        par = getattr(a, '_parent', None)
        blk = next((b for b in (getattr(par, 'body', None), getattr(par, 'orelse', None)) if isinstance(b, list) and a in b), [a])
        defs = Defs(blk[:blk.index(a)] if a in blk else [])
        v = expand(a.value, defs)
        if not (isinstance(v, ast.BinOp) and isinstance(v.op, ast.Add) and all(isinstance(t, ast.BinOp) and isinstance(t.op, ast.Mult) for t in (v.left, v.right))):
            continue
        own = U(a.targets[0]).replace(' ', '')
        coefs = []
        for t in (v.left, v.right):
            c, x = (t.left, t.right) if not isinstance(t.left, ast.Subscript) else (t.right, t.left)
            coefs.append((c, U(x).replace(' ', '') == own))
        if sum(1 for _, is_old in coefs if is_old) != 1:
            continue
        n += 1
        fdefs = Defs([s_ for s_ in ast.walk(gbp.node) if isinstance(s_, ast.Assign) and isinstance(s_.targets[0], ast.Name)])
        texts = [U(expand(c, fdefs)).replace(' ', '') for c, _ in coefs]
        lits = []
        for t in texts:
            try:
                lits.append(float(eval(t, {'__builtins__': {}}, {})) if re.fullmatch(r'[0-9.+\-*/()e]+', t) else None)
            except Exception:
                lits.append(None)
        if None not in lits:
            old_w = [w for w, (_, is_old) in zip(lits, coefs) if is_old][0]
            ok = abs(sum(lits) - 1.0) < 1e-12 and 0 <= old_w < 1
            ctx.ob('gbp-damping', gbp, a, ok, 'messages are mixed with the fixed weights %s (old) / %s (new)' % (old_w, sum(lits) - old_w), construct='damping of the GBP sweep')
        elif any('self.damping' in t for t in texts):
            ctx.ob('gbp-damping', gbp, a, False, 'the GBP sweep mixes old and new messages with weights read from self.damping (`%s`): the knob of the convex oracle, raised towards 0.9 by '
                   'mirror_descent_auto and free to be 1.0 (messages never move) - the sweeps no longer reach the fixed point in `iters` rounds on a junction tree'
                   % ' / '.join(texts)[:60], construct='damping of the GBP sweep')
        else:
            raise AnalysisError('generalized_belief_propagation: message mixing weights `%s` are in no recognised form' % ' / '.join(texts)[:80])
    ctx.count('damped message updates of the form a*old + b*new in generalized_belief_propagation', n)     # other spellings of the mix are not judged by this rule


def check_project_rescaled(ctx):
    """FactorGraph.project answers an in-clique request from the stored clique marginals: their sum, RESCALED to the current self.total
    (`ans * (self.total / ans.sum())`).  The plain average `ans / count` carries the total the marginals were fitted with - self.total is
    re-assigned on a re-used oracle (LocalInference._setup does so), and the other branch of the same method follows the new total."""
    if not ctx.repo.has_func(FG, 'FactorGraph.project'):
        raise AnalysisError('anchor vanished: FactorGraph.project')
    fi = ctx.repo.nfunc(FG, 'FactorGraph.project')
    ctx.analysed(fi)
    accs = {a.targets[0].id for a in ast.walk(fi.node) if isinstance(a, ast.Assign) and len(a.targets) == 1 and isinstance(a.targets[0], ast.Name)
            and isinstance(a.value, ast.Call) and U(a.value.func).endswith('Factor.zeros')}
    accs = {x for x in accs if any(isinstance(u, ast.AugAssign) and U(u.target) == x for u in ast.walk(fi.node))}
    if not accs:
        return
    n = 0
    for r in [x for x in ast.walk(fi.node) if isinstance(x, ast.Return) and x.value is not None]:
        v = r.value
        if isinstance(v, ast.Name):
            ds = [a.value for a in ast.walk(fi.node) if isinstance(a, ast.Assign) and len(a.targets) == 1 and U(a.targets[0]) == v.id and not
                  (isinstance(a.value, ast.Call) and U(a.value.func).endswith('Factor.zeros'))]
            if len(ds) == 1:
                v = ds[0]
        used = [x for x in accs if any(isinstance(nm, ast.Name) and nm.id == x for nm in ast.walk(v))]
        if not used:
            continue
        A = used[0]
        t = U(v).replace(' ', '')
        n += 1
        good = {'%s*(self.total/%s.sum())' % (A, A), '%s*self.total/%s.sum()' % (A, A), '%s/%s.sum()*self.total' % (A, A), 'self.total*%s/%s.sum()' % (A, A),
                '%s*(self.total/%s.values.sum())' % (A, A), '(self.total/%s.sum())*%s' % (A, A), 'self.total/%s.sum()*%s' % (A, A)}
        if t in good:
            ctx.ob('project-rescaled', fi, r, True, 'the in-clique answer is the sum of the stored marginals rescaled to self.total', construct='in-clique answer of FactorGraph.project')
        elif 'self.total' not in t and re.fullmatch(re.escape(A) + r'/\w+|' + re.escape(A) + r'\*\(1(\.0)?/\w+\)', t):
            ctx.ob('project-rescaled', fi, r, False, 'the in-clique answer is the plain average `%s`: it sums to the total the stored marginals were fitted with, not to the '
                   'current self.total (re-assigned on a re-used oracle), and disagrees with the out-of-clique branch of the same method' % U(v)[:50],
                   construct='in-clique answer of FactorGraph.project')
        else:
            raise AnalysisError('FactorGraph.project: the in-clique answer `%s` is in no recognised form' % U(v)[:70])
    ctx.floor('in-clique answers of FactorGraph.project', n, 1)


def check_total_stored(ctx):
    """the oracle normalises to self.total: the constructor must store the caller's total as it is.  A `total=None` default meaning
    "unknown" has to be tested by comparison with None - truthiness also replaces the legal total 0 (a model of no records)."""
    from .C15 import none_tests_of
    for rel, cls in ((RG, 'RegionGraph'), (FG, 'FactorGraph')):
        init = ctx.repo.nfunc(rel, cls + '.__init__')
        ctx.analysed(init)
        if 'total' not in init.params:
            raise AnalysisError('%s.__init__ lost its total parameter' % cls)
        none_tests_of(ctx, [init], what='the legal total 0')
        stores = [s_ for s_ in ast.walk(init.node) if isinstance(s_, ast.Assign) and any(U(t_) == 'self.total' for t_ in s_.targets)]
        if not stores:
            raise AnalysisError('%s.__init__: store of self.total not found' % cls)
        for s_ in stores:
            v = s_.value
            t = U(v).replace(' ', '')
            d = init.defaults().get('total')
            dflt = U(d) if d is not None else None
            plain = t == 'total'
            cond = isinstance(v, ast.IfExp) and U(v.test).replace(' ', '') in ('totalisNone', 'totalisnotNone') and \
                'total' in (U(v.body), U(v.orelse)) and dflt == 'None'
            par = getattr(s_, '_parent', None)
            if isinstance(par, ast.If) and dflt == 'None' and isinstance(v, ast.Constant) and isinstance(v.value, (int, float)) and \
                    ((U(par.test).replace(' ', '') == 'totalisNone' and s_ in par.body) or
                     (U(par.test).replace(' ', '') == 'totalisnotNone' and s_ in par.orelse)):
                cond = True          # the default, on the path where no total was given
            if t in ('float(total)', 'np.float64(total)', 'numpy.float64(total)'):
                # the total is only ever used in float arithmetic (log, *, /): float() of a number is that number
                ctx.ob('total-stored', init, s_, True, 'the caller\'s total, converted to a float (the value is kept): `%s`' % U(v)[:60])
                continue
            if t in ('int(total)', 'round(total)', 'int(round(total))', 'np.int64(total)', 'math.floor(total)', 'math.ceil(total)'):
                ctx.ob('total-stored', init, s_, False, 'the total the oracle normalises to is stored as `%s`: a total is a real number (an estimate, a weighted count) - '
                       'truncating it changes what the marginals sum to (0.75 becomes 0: all-zero marginals)' % U(v)[:60])
                continue
            if not plain and not cond and not (isinstance(v, ast.BoolOp) and any(U(x) == 'total' for x in v.values)):
                raise AnalysisError('%s.__init__: `%s` is in no recognised form' % (cls, U(s_)[:70]))
            ctx.ob('total-stored', init, s_, plain or cond,
                   'the total the oracle normalises to is the caller\'s, stored as it is (or a default when it is None); stores `%s`' % U(v)[:60])


def run(ctx):
    repo = ctx.repo
    check_total_stored(ctx)
    ctx.explanation = (
        'Log-space typestate (E3): additive normal forms of every exp operand in the two non-convex oracles; a returned '
        'table must be exp(b + log(self.total) - logsumexp(b)). Exhaustive over all paths of the three functions.')
    ctx.rule_text = 'one obligation per exponentiation site, per store into the returned container, per oracle entry'
    ctx.trusted = ['scipy.special.logsumexp / Factor.logsumexp compute log-sum-exp',
                   'exp(b - logsumexp(b) + log T) sums to T (algebra)']
    gbp = repo.nfunc(RG, 'RegionGraph.generalized_belief_propagation')
    lbp = repo.nfunc(FG, 'FactorGraph.loopy_belief_propagation')
    cm = repo.nfunc(FG, 'FactorGraph.clique_marginals')
    n_ret = 0
    for fi in (gbp, cm):
        an, n = LR.L1(ctx, fi)
        k = LR.L2_container(ctx, fi, an, 'self.total')
        n_ret += k
        if k == 0:
            raise AnalysisError('%s: no store of an exponentiated belief into the returned container found' % fi.qualname)
        # beliefs built from the potentials parameter
        pot = fi.params[-1] if fi is cm else fi.params[1]
        uses = [s for s in ast.walk(fi.node) if isinstance(s, ast.Subscript) and U(s.value) == pot]
        stale = [s for s in ast.walk(fi.node) if isinstance(s, ast.Subscript) and U(s.value) == 'self.potentials']
        ctx.ob('oracle-uses-given-potentials', fi, uses[0] if uses else fi.node, bool(uses) and not stale,
               'beliefs must be built from the `%s` argument (%d uses) and not from self.potentials (%d uses)'
               % (pot, len(uses), len(stale)), construct='potentials used in ' + fi.qualname)
    an, n = LR.L1(ctx, lbp)
    # loopy BP must return the result of clique_marginals computed from its own messages and the given potentials
    pot = lbp.params[1]
    ok_all, detail = True, []
    rets = [s for s in ast.walk(lbp.node) if isinstance(s, ast.Return)]
    if not rets:
        raise AnalysisError('loopy_belief_propagation has no return')
    last_assign = {}
    for s in ast.walk(lbp.node):
        if isinstance(s, ast.Assign) and len(s.targets) == 1:
            last_assign[U(s.targets[0])] = s.value
    for r in rets:
        v = r.value
        if v is not None and U(v) in last_assign:
            v = last_assign[U(v)]
        ok = isinstance(v, ast.Call) and U(v.func) == 'self.clique_marginals' and len(v.args) == 3 \
            and U(v.args[2]) == pot
        ctx.ob('returns-clique-marginals', lbp, r, ok,
               'must return self.clique_marginals(<messages>, <messages>, %s); returns `%s`' % (pot, U(v) if v is not None else None))
    check_project_rescaled(ctx)
    check_gbp_damping(ctx, gbp)
    check_identity_compares(ctx)
    check_on_copies(ctx)
    check_sweep_termination(ctx)
    check_region_partition(ctx)
    from ._generic import minimal_scan, grouped_runs, inclusive_closures
    ctx.floor('inclusive closures of the region graph', inclusive_closures(ctx, ctx.repo.func(RG, 'RegionGraph.build_graph'), 'region-structure'), 2)
    for q_, f_ in sorted(ctx.repo.module(RG).funcs.items()):
        if q_.startswith('RegionGraph.') and '<locals>' not in q_:
            minimal_scan(ctx, f_, 'region-structure')
            grouped_runs(ctx, f_, 'region-structure')
    for q_, f_ in sorted(ctx.repo.module(FG).funcs.items()):
        if q_.startswith('FactorGraph.') and '<locals>' not in q_:
            grouped_runs(ctx, f_, 'graph-structure')
    check_raw_arrays(ctx)
    check_fg_datavector(ctx)
    check_carried_messages(ctx)
    check_reiterable_sets(ctx)
    ctx.floor('returned-table constructions', n_ret, 2)
    check_gbp_sets(ctx)
    check_saturated_sets(ctx)
    check_skipped_messages(ctx)
    check_region_names(ctx)
    check_call_local_caches(ctx, [gbp, lbp, cm, repo.nfunc(RG, 'RegionGraph.hazan_peng_shashua')])
    ctx.floor('exp sites', sum(1 for o in ctx.obligations if o.rule == 'exp-normalised'), 2)


def check_raw_arrays(ctx):
    """The oracles combine tables through the Factor algebra, which aligns operands by attribute NAME.  Where a method reaches into the
    raw arrays (`a.values + b.values`, `Factor(dom, vals)`), the cells are paired by POSITION: the operands must then be laid out by the
    same domain (layout types, engines/layout.py) - a message and its update over the same attributes in another order add up cell by
    cell to a wrong table of the right shape.  No such site exists today; the rule is armed for the ones a change introduces."""
    from ..engines.layout import LayoutTyper
    n = 0
    for rel, cls in ((RG, 'RegionGraph'), (FG, 'FactorGraph')):
        for name, fi in sorted(ctx.repo.nmethods(rel, cls).items()):
            n += 1

            def report(rule, node, ok, detail, fi=fi):
                ctx.ob('raw-arrays-by-name', fi, node, ok, detail)
            LayoutTyper(fi, report, self_is_factor=False).analyse()
    ctx.floor('oracle methods scanned for positional pairing of raw arrays', n, 20)


def check_sweep_termination(ctx):
    n = 0
    for rel, q in ((FG, 'FactorGraph.loopy_belief_propagation'), (RG, 'RegionGraph.generalized_belief_propagation')):
        fi = ctx.repo.nfunc(rel, q)
        ctx.analysed(fi)
        sweeps = [s_ for s_ in fi.body if isinstance(s_, (ast.For, ast.While))]
        sweeps = [s_ for s_ in sweeps if any(isinstance(x, (ast.For, ast.While)) for b in s_.body for x in ast.walk(b))]
        if not sweeps:
            raise AnalysisError('%s: sweep loop not found' % q)
        n += 1
        for lp in sweeps:
            exits = []
            for x in ast.walk(lp):
                if isinstance(x, (ast.Break, ast.Return)):
                    # only exits of THIS loop (a break inside an inner loop leaves the inner one)
                    par, inner = getattr(x, '_parent', None), False
                    while par is not None and par is not lp:
                        if isinstance(par, (ast.For, ast.While)) and isinstance(x, ast.Break):
                            inner = True
                        par = getattr(par, '_parent', None)
                    if not inner:
                        exits.append(x)
            for x in exits:
                guard = getattr(x, '_parent', None)
                if not isinstance(guard, ast.If):
                    raise AnalysisError('%s: unconditional exit from the sweep loop' % q)
                # everything the guard depends on, through the assignments inside the loop
                seen, todo, exprs = set(), [guard.test], []
                while todo:
                    e = todo.pop()
                    exprs.append(e)
                    for nm in {y.id for y in ast.walk(e) if isinstance(y, ast.Name)}:
                        if nm in seen:
                            continue
                        seen.add(nm)
                        for st in ast.walk(lp):
                            if isinstance(st, ast.Assign) and any(isinstance(t, ast.Name) and t.id == nm for t in st.targets):
                                todo.append(st.value)
                calls = {U(c.func).split('.')[-1] for e in exprs for c in ast.walk(e) if isinstance(c, ast.Call)}
                tol = calls & {'allclose', 'isclose', 'norm', 'abs', 'fabs', 'max', 'linalg'}
                cmp_tol = any(isinstance(c, ast.Compare) and any(isinstance(o, (ast.Lt, ast.LtE, ast.Gt, ast.GtE)) for o in c.ops) for e in exprs for c in ast.walk(e))
                exact = calls & {'array_equal', 'array_equiv'}
                if tol or (cmp_tol and not exact):
                    ctx.ob('sweep-termination', fi, guard, False,
                           'the sweeps stop when `%s` holds, a TOLERANCE test (%s): the increments of a long chain decay geometrically, so what is cut '
                           'off is an unsummed tail and the marginals are no longer exact on trees' % (U(guard.test)[:60], ', '.join(sorted(tol)) or 'threshold'),
                           construct='early exit of the sweeps in ' + fi.name)
                elif exact:
                    ctx.ob('sweep-termination', fi, guard, True,
                           'the sweeps stop only when a sweep reproduces the messages exactly (`%s`)' % ', '.join(sorted(exact)),
                           construct='early exit of the sweeps in ' + fi.name)
                else:
                    raise AnalysisError('%s: early exit `%s` of the sweep loop is neither an exact fixed-point test nor a tolerance test' % (q, U(guard.test)[:60]))
    ctx.floor('sweep loops examined', n, 2)


def check_fg_datavector(ctx):
    """FactorGraph.datavector(): exp(logp - logsumexp(logp)) sums to 1 over the domain it was normalised on.  Expanding it to the full domain
    AFTERWARDS replicates every cell once per configuration of the attributes no clique covers, so the vector sums to total only if it is
    re-weighted by |covered domain| / |full domain| - or if logp is expanded BEFORE it is normalised."""
    from ..normalise import Defs, expand
    fi = ctx.repo.nfunc(FG, 'FactorGraph.datavector')
    ctx.analysed(fi)
    rets = [r for r in ast.walk(fi.node) if isinstance(r, ast.Return)]
    if len(rets) != 1:
        raise AnalysisError('FactorGraph.datavector: expected one return')
    defs = Defs(fi.body)
    R = expand(rets[0].value, defs, depth=8, comps=True)
    text = U(R).replace(' ', '')
    lse = [c for c in ast.walk(R) if isinstance(c, ast.Call) and isinstance(c.func, ast.Attribute) and c.func.attr == 'logsumexp' and not c.args]
    if len({U(c) for c in lse}) != 1:
        raise AnalysisError('FactorGraph.datavector: normalisation by a full logsumexp not found')
    normalised_on = U(lse[0].func.value).replace(' ', '')
    full_before = normalised_on.endswith('.expand(self.domain)')
    # is anything expanded to the full domain after the exponential?
    exps = [c for c in ast.walk(R) if isinstance(c, ast.Call) and U(c.func).split('.')[-1] == 'exp']
    if len({U(c) for c in exps}) != 1:
        raise AnalysisError('FactorGraph.datavector: exponential not found')
    after = any(isinstance(c, ast.Call) and isinstance(c.func, ast.Attribute) and c.func.attr == 'expand' and c.args and U(c.args[0]) == 'self.domain'
                and any(x in exps for x in ast.walk(c.func.value)) for c in ast.walk(R))
    if not full_before and not after:
        raise AnalysisError('FactorGraph.datavector: the result is never expanded to the full domain')
    part = 'np.exp(%s-%s.logsumexp())' % (normalised_on, normalised_on)
    weight = any(x in text for x in ('*%s.domain.size()/self.domain.size()' % part, '*(%s.domain.size()/self.domain.size())' % part))
    total_ok = 'self.total' in text
    ok = total_ok and ((full_before and not weight) or (not full_before and after and weight))
    ctx.ob('returned-normalised-to-total', fi, rets[0], ok,
           'the full vector must sum to self.total: %s'
           % ('normalised over the full domain' if full_before and not weight else
              'normalised over the covered attributes, expanded, and re-weighted by |covered| / |full|' if (not full_before and after and weight) else
              'normalised over `%s` and expanded to the full domain afterwards WITHOUT the weight |covered| / |full|: every attribute no clique '
              'covers multiplies the mass by its size' % normalised_on[:50] if (not full_before and after) else 'weight and normalisation do not match'),
           construct='mass of FactorGraph.datavector')


def check_carried_messages(ctx):
    """loopy BP keeps its messages on the object between calls (`mu_n, mu_f = self.messages`).  The half that a sweep READS before it writes
    it is the state that carries the sweeps already done; re-initialising it at the start of a call throws those sweeps away (k calls of s
    sweeps are then worth s sweeps, and a tree deeper than s is never exact).  The half a sweep writes first may be reset freely."""
    fi = ctx.repo.nfunc(FG, 'FactorGraph.loopy_belief_propagation')
    ctx.analysed(fi)
    unpack = [s_ for s_ in fi.body if isinstance(s_, ast.Assign) and U(s_.value) == 'self.messages' and isinstance(s_.targets[0], ast.Tuple)]
    sweeps = [s_ for s_ in fi.body if isinstance(s_, (ast.For, ast.While)) and any(isinstance(x, ast.For) for b in s_.body for x in ast.walk(b))]
    if len(unpack) != 1 or not sweeps:
        raise AnalysisError('loopy_belief_propagation: message state / sweep loop not found')
    names = [U(e) for e in unpack[0].targets[0].elts]
    sweep = sweeps[0]

    def first_access(X):
        # statements of one sweep in program order; the first one that touches X decides
        def stmts_in_order(body):
            for st in body:
                if isinstance(st, (ast.For, ast.While, ast.If, ast.With)):
                    # the header first (iterables / tests), then the body
                    hdr = st.iter if isinstance(st, ast.For) else getattr(st, 'test', None)
                    if hdr is not None:
                        yield ('expr', hdr)
                    for x in stmts_in_order(st.body):
                        yield x
                    for x in stmts_in_order(getattr(st, 'orelse', [])):
                        yield x
                else:
                    yield ('stmt', st)
        for kind, st in stmts_in_order(sweep.body):
            reads = [n for n in ast.walk(st if kind == 'expr' else (st.value if isinstance(st, (ast.Assign, ast.AugAssign, ast.Expr)) and st.value is not None else st))
                     if isinstance(n, ast.Name) and n.id == X and isinstance(n.ctx, ast.Load)]
            if kind == 'stmt' and isinstance(st, ast.AugAssign) and any(isinstance(n, ast.Name) and n.id == X for n in ast.walk(st.target)):
                reads = reads or [st]
            if reads:
                return 'read'
            if kind == 'stmt' and isinstance(st, ast.Assign) and any(isinstance(n, ast.Name) and n.id == X for t in st.targets for n in ast.walk(t)):
                return 'write'
        return None
    i0, i1 = fi.body.index(unpack[0]), fi.body.index(sweep)
    n = 0
    for X in names:
        acc = first_access(X)
        resets = [n_ for s_ in fi.body[i0 + 1:i1] for n_ in ast.walk(s_) if isinstance(n_, ast.Assign) and any(U(t) == X for t in n_.targets)]
        n += 1
        if acc == 'read':
            ctx.ob('carried-messages', fi, resets[0] if resets else unpack[0], not resets,
                   '`%s` is read by a sweep before it is written: it carries the sweeps of earlier calls and %s'
                   % (X, 'is taken from self.messages unchanged' if not resets else 'is re-initialised by `%s` at every call, which discards them' % U(resets[0])[:60]),
                   construct='message state %s' % X)
        elif acc == 'write':
            ctx.ob('carried-messages', fi, unpack[0], True, '`%s` is written by a sweep before it is read: resetting it changes nothing' % X, construct='message state %s' % X)
        else:
            raise AnalysisError('loopy_belief_propagation: `%s` is not used by the sweep' % X)
    ctx.floor('message containers of loopy BP', n, 2)


def check_reiterable_sets(ctx):
    """the message sets N, D, B of the region graph are walked once per sweep: what is stored in them must be re-iterable (a list / set / tuple),
    not a generator (or map / filter / zip object), which is empty from the second sweep on"""
    fi = ctx.repo.nfunc(RG, 'RegionGraph.build_graph')
    ctx.analysed(fi)
    from ..normalise import Defs, expand
    n = 0
    # the locals that end up as self.N / self.D / self.B (whatever they are called)
    sets_ = set()
    for st in ast.walk(fi.node):
        if isinstance(st, ast.Assign):
            for tg in st.targets:
                if isinstance(tg, ast.Tuple) and isinstance(st.value, ast.Tuple) and len(tg.elts) == len(st.value.elts):
                    for a_, b_ in zip(tg.elts, st.value.elts):
                        if U(a_) in ('self.N', 'self.D', 'self.B') and isinstance(b_, ast.Name):
                            sets_.add(b_.id)
                elif U(tg) in ('self.N', 'self.D', 'self.B') and isinstance(st.value, ast.Name):
                    sets_.add(st.value.id)
    if not sets_:
        raise AnalysisError('build_graph: the message sets stored as self.N / self.D / self.B were not found')
    for st in ast.walk(fi.node):
        if isinstance(st, ast.Assign) and len(st.targets) == 1 and isinstance(st.targets[0], ast.Subscript) and isinstance(st.targets[0].value, ast.Name) \
                and st.targets[0].value.id in sets_:
            n += 1
            v = st.value
            # look through a local / an inlined helper result
            blk = getattr(st, '_parent', None)
            seen_ = 0
            while isinstance(v, ast.Name) and seen_ < 4:
                cands = [a_ for a_ in ast.walk(fi.node) if isinstance(a_, ast.Assign) and len(a_.targets) == 1 and U(a_.targets[0]) == v.id]
                if len(cands) != 1:
                    break
                v, seen_ = cands[0].value, seen_ + 1
            one_shot = isinstance(v, ast.GeneratorExp) or (isinstance(v, ast.Call) and isinstance(v.func, ast.Name) and v.func.id in ('map', 'filter', 'zip', 'iter', 'reversed'))
            ctx.ob('gbp-message-sets', fi, st, not one_shot,
                   'the message set `%s` is iterated in every sweep%s' % (U(st.targets[0])[:30], '' if not one_shot else
                   '; it is stored as a one-shot iterable (`%s`), which is exhausted by the first sweep: later sweeps see an empty set and GBP converges '
                   'to a wrong fixed point' % U(v)[:50]), construct='re-iterable message set ' + U(st.targets[0])[:30])
    ctx.floor('message-set stores in build_graph', n, 3)


def check_region_partition(ctx):
    fi = ctx.repo.nfunc(RG, 'RegionGraph.build_graph')
    ctx.analysed(fi)
    allocs = [s_ for s_ in ast.walk(fi.node) if isinstance(s_, ast.Assign) and len(s_.targets) == 1 and isinstance(s_.targets[0], ast.Name)
              and isinstance(s_.value, ast.Call) and U(s_.value.func) == 'DisjointSet']
    n = 0
    for a in allocs:
        ds = a.targets[0].id
        uses = [c for c in ast.walk(fi.node) if isinstance(c, ast.Call) and isinstance(c.func, ast.Attribute) and U(c.func.value) == ds
                and c.func.attr in ('find', 'union')]
        if not uses:
            continue
        # the innermost loop that contains every use: the loop over the regions
        def loops_of(x):
            out, par = [], getattr(x, '_parent', None)
            while par is not None:
                if isinstance(par, ast.For):
                    out.append(par)
                par = getattr(par, '_parent', None)
            return out
        common = None
        for u in uses:
            ls = loops_of(u)
            common = ls if common is None else [l for l in common if l in ls]
        if not common:
            raise AnalysisError('build_graph: the union-find `%s` is not used inside a loop over the regions' % ds)
        region_loop = common[-1]          # outermost common loop
        if not isinstance(region_loop.target, ast.Name):
            raise AnalysisError('build_graph: unrecognised region loop')
        r = region_loop.target.id
        n += 1
        inside = region_loop in loops_of(a)
        if inside:
            ctx.ob('per-region-partition', fi, a, True, 'a fresh union-find per region `%s`' % r, construct='union-find of the minimal region graph')
            continue
        bad = []
        for u in uses:
            for arg in u.args:
                if not (isinstance(arg, ast.Tuple) and any(isinstance(e, ast.Name) and e.id == r for e in arg.elts)):
                    bad.append(U(u))
        ctx.ob('per-region-partition', fi, a, not bad,
               'ONE union-find `%s` serves every region `%s`: %s' % (ds, r, 'every key names the region, so the regions do not interact' if not bad else
                                                                    'keys such as in `%s` do not name the region; a parent shared by two regions is then one '
                                                                    'element, and the unions made for one region merge (or redirect) the parents of another'
                                                                    % bad[0]), construct='union-find of the minimal region graph')
    ctx.floor('union-find partitions examined', n, 1)


def check_on_copies(ctx):
    from ..engines.alias import Scope
    scope = Scope(ctx.repo, [FG, RG, 'src/mbi/clique_vector.py', 'src/mbi/factor.py', 'src/mbi/domain.py'], {'potentials': 'cv', 'marginals': 'cv'})
    scope.solve()
    n = 0
    for rel, q in ((FG, 'FactorGraph.loopy_belief_propagation'), (FG, 'FactorGraph.clique_marginals'), (FG, 'FactorGraph.convergent_belief_propagation'),
                   (RG, 'RegionGraph.generalized_belief_propagation'), (RG, 'RegionGraph.hazan_peng_shashua'), (RG, 'RegionGraph.wiegerinck'),
                   (RG, 'RegionGraph.loh_wibisono')):
        if not ctx.repo.has_func(rel, q):
            continue
        fi = ctx.repo.func(rel, q)
        summ = scope.summaries.get((rel, q))
        if summ is None:
            raise AnalysisError('%s: no origin summary' % q)
        ctx.analysed(fi)
        seen = set()
        for site in summ.sites:
            k = (getattr(site.node, 'lineno', 0), getattr(site.node, 'col_offset', 0), site.what)
            if k in seen:
                continue
            seen.add(k)
            bad = sorted(t for t in site.origins if t.startswith(('P:', 'Pe:')) and not t.endswith(':self'))
            n += 1
            ctx.ob('oracle-on-copies', fi, site.node, not bad,
                   '%s acts on %s' % (site.what, 'objects allocated in this call / the oracle\'s own state' if not bad else
                                      'the caller\'s arguments (%s): the tables handed in are overwritten, so a second call with the same '
                                      'potentials (or the caller itself) reads the modified values' % ', '.join(bad)))
    ctx.floor('in-place sites in the approximate oracles', n, 10)


def binding_iter(name_node):
    """the iterable expression of the loop / comprehension that binds this name (innermost enclosing), or None"""
    n = name_node
    par = getattr(n, '_parent', None)
    while par is not None:
        if isinstance(par, (ast.ListComp, ast.SetComp, ast.GeneratorExp, ast.DictComp)):
            for g in par.generators:
                if name_node.id in [x.id for x in ast.walk(g.target) if isinstance(x, ast.Name)]:
                    return U(g.iter)
        if isinstance(par, ast.For) and name_node.id in [x.id for x in ast.walk(par.target) if isinstance(x, ast.Name)]:
            return U(par.iter)
        par = getattr(par, '_parent', None)
    return None


def check_identity_compares(ctx):
    n = 0
    for rel, cname in ((FG, 'FactorGraph'), (RG, 'RegionGraph')):
        for name, fi in ctx.repo.nmethods(rel, cname).items():
            for c in ast.walk(fi.node):
                if isinstance(c, ast.Compare) and len(c.ops) == 1 and isinstance(c.ops[0], (ast.Is, ast.IsNot)) and \
                        isinstance(c.left, ast.Name) and isinstance(c.comparators[0], ast.Name):
                    a, b = binding_iter(c.left), binding_iter(c.comparators[0])
                    if a is None and b is None:
                        continue
                    n += 1
                    ctx.ob('identity-compare', fi, c, a == b,
                           '`%s`: `%s` ranges over `%s`, `%s` over `%s`; equal names held by different containers need not be the same '
                           'object, identity is only sound within one container' % (U(c), U(c.left), a, U(c.comparators[0]), b))
    ctx.count('identity comparisons of names', n)


def check_gbp_sets(ctx):
    """sibling agreement of the B / N / D message-set recipes in RegionGraph.build_graph (minimal branch)"""
    from ..engines.blockeval import BlockEval, T
    from ..normalise import single_exit
    from ..srcmodel import clone
    fi = ctx.repo.nfunc(RG, 'RegionGraph.build_graph')
    ctx.analysed(fi)
    stmts, _ = single_exit(clone(fi.body), '__ret__')
    be = BlockEval(fi.qualname, loop_ok=lambda s_: True)
    be.run(stmts)
    # which containers become self.N / self.D / self.B under `self.minimal`
    roles = {}
    for t_, v, s_ in be.stores:
        pass
    recipes = {}     # container name -> list of (canonical element, canonical generators, index vars, stmt)
    # local sets that are later stored as an element of a container: `numer.add(..)` ... `N[p, r] = numer - cancel`
    local_role = {}
    for cont_e, idx_e, val_e, pc_, lp_, st_ in be.substores:
        v = val_e
        while isinstance(v, ast.BinOp) and isinstance(v.op, ast.Sub):
            v = v.left
        if isinstance(cont_e, ast.Name) and isinstance(v, ast.Name):
            local_role[v.id] = (cont_e.id, idx_e)
    for s_, c, pc, loops in be.calls:
        f = c.func
        if not (isinstance(f, ast.Attribute) and f.attr == 'add' and len(c.args) == 1):
            continue
        if isinstance(f.value, ast.Subscript) and isinstance(f.value.value, ast.Name):
            cont, idx = f.value.value.id, f.value.slice
        elif isinstance(f.value, ast.Name) and f.value.id in local_role:
            cont, idx = local_role[f.value.id]
        else:
            continue
        if not any(T(x) == 'self.minimal' and pol for x, pol in pc):
            continue
        idx_vars = [U(e) for e in (idx.elts if isinstance(idx, ast.Tuple) else [idx])]
        inner = [(t, it) for t, it in loops if U(t) not in idx_vars]
        if not inner:
            raise AnalysisError('build_graph: message-set element `%s` is not generated by a loop' % U(c)[:60])
        # the centre: the index variable whose parents / descendants the first inner loop ranges over
        first = T(inner[0][1])
        centre = [v for v in idx_vars if '[%s]' % v in first]
        if len(centre) != 1:
            raise AnalysisError('build_graph: cannot tell which region the set `%s` is built around' % cont)
        x = centre[0]
        ren = {x: '_x'}
        for i, (t, it) in enumerate(inner):
            ren[U(t)] = '_g%d' % i

        class R(ast.NodeTransformer):
            def visit_Name(self, n):
                return ast.Name(id=ren.get(n.id, n.id), ctx=n.ctx)
        gens = [T(R().visit(clone(it))) for t, it in inner]
        elt = T(R().visit(clone(c.args[0])))
        recipes.setdefault(cont, []).append((elt, gens, [v for v in idx_vars if v != x], x, s_))
    if not recipes:
        raise AnalysisError('build_graph: minimal message-set construction not found')
    # roles by the attribute they are stored into
    named = {}
    for t_, v, s_ in be.stores:
        if t_ in ('self.N', 'self.D', 'self.B') and isinstance(v, ast.Name) and v.id in recipes:
            named[t_[-1]] = v.id
    if set(named) != {'N', 'D', 'B'}:
        raise AnalysisError('build_graph: the sets stored as self.N / self.D / self.B were not all found (%s)' % sorted(named))

    def parts(role):
        direct = [r for r in recipes[named[role]] if len(r[1]) == 1]
        deep = [r for r in recipes[named[role]] if len(r[1]) == 2]
        if len(direct) != 1 or len(deep) != 1 or len(recipes[named[role]]) != 2:
            raise AnalysisError('build_graph: message set %s is not built from one direct and one descendant part' % role)
        return direct[0], deep[0]
    Bd, Bp = parts('B')
    Nd, Np = parts('N')
    Dd, Dp = parts('D')
    ctx.ob('gbp-message-sets', fi, Nd[4], (Nd[0], Nd[1]) == (Bd[0], Bd[1]),
           'N[p,r] must collect the parents of its region exactly as B does: B builds {%s | %s}, N builds {%s | %s}' % (Bd[0], Bd[1], Nd[0], Nd[1]),
           construct='direct part of N')
    ctx.ob('gbp-message-sets', fi, Np[4], (Np[0], Np[1]) == (Bp[0], Bp[1]),
           'N[p,r] must collect the outside parents of its region\'s descendants exactly as B does: B builds {%s | %s}, N builds {%s | %s}'
           % (Bp[0], Bp[1], Np[0], Np[1]), construct='descendant part of N')
    ctx.ob('gbp-message-sets', fi, Dp[4], (Dp[0], Dp[1]) == (Bp[0], Bp[1]),
           'D[p,r] must collect the outside parents of its region\'s descendants exactly as B does: B builds {%s | %s}, D builds {%s | %s}'
           % (Bp[0], Bp[1], Dp[0], Dp[1]), construct='descendant part of D')
    other = Dd[2][0] if Dd[2] else '?'
    want = ['set(%s)-{%s}' % (Bd[1][0], other)]
    ctx.ob('gbp-message-sets', fi, Dd[4], Dd[0] == Bd[0] and Dd[1] == want,
           'D[p,r] must collect the parents of r other than p: expected {%s | %s}, builds {%s | %s}' % (Bd[0], want, Dd[0], Dd[1]),
           construct='direct part of D')
    ctx.ob('gbp-message-sets', fi, Nd[4], Nd[3] != Dd[3],
           'N is built around the sending region and D around the receiving region of a message (different index positions)',
           construct='centres of N and D')


def check_region_names(ctx):
    """build_graph closes the cliques under intersection; every new region is named by the SORTED tuple of its attributes, so that one attribute set
    has one name whichever pair of regions produced it (regions are dictionary keys and graph nodes).  A name in the order of one of the two
    operands makes ('B','C') and ('C','B') two regions: the separator is counted twice and the region graph gets a cycle."""
    fi = ctx.repo.func(RG, 'RegionGraph.build_graph')
    added = set()
    Rs = {a.targets[0].id for a in ast.walk(fi.node) if isinstance(a, ast.Assign) and len(a.targets) == 1 and isinstance(a.targets[0], ast.Name)
          and U(a.value).replace(' ', '') in ('set(self.cliques)', 'set(cliques)')}
    for c in ast.walk(fi.node):
        if isinstance(c, ast.Call) and isinstance(c.func, ast.Attribute) and c.func.attr in ('update', 'add') and U(c.func.value) in Rs and c.args:
            a = c.args[0]
            if isinstance(a, ast.Set) and len(a.elts) == 1:
                a = a.elts[0]
            if isinstance(a, ast.Name):
                added.add(a.id)
    n = 0
    for z in sorted(added):
        for a in ast.walk(fi.node):
            if isinstance(a, ast.Assign) and len(a.targets) == 1 and U(a.targets[0]) == z:
                v_ = a.value
                if isinstance(v_, ast.Call) and U(v_.func) == 'tuple' and len(v_.args) == 1 and isinstance(v_.args[0], ast.Name):
                    ds_ = [x.value for x in ast.walk(fi.node) if isinstance(x, ast.Assign) and len(x.targets) == 1 and U(x.targets[0]) == v_.args[0].id]
                    if len(ds_) == 1:          # the argument kept in a local
                        v_ = ast.Call(func=v_.func, args=[ds_[0]], keywords=[])
                t = U(v_).replace(' ', '')
                canon = re.fullmatch(r'tuple\(sorted\(.+\)\)', t) or re.fullmatch(r'tuple\(\(?(\w+)for\1insorted\(.+\)if.+\)?\)', t)
                operand = re.fullmatch(r'tuple\(\(?(\w+)for\1in(\w+)if.+\)?\)', t)
                if not canon and not operand:
                    raise AnalysisError('build_graph: new region named `%s`, which is in no recognised form' % U(a.value)[:60])
                n += 1
                ctx.ob('region-structure', fi, a, bool(canon), 'a new region is named by the sorted tuple of its attributes; named `%s`%s' % (U(a.value)[:60], '' if canon else
                       ' - in the attribute order of the operand `%s`: the same attribute set gets one name per spelling' % operand.group(2)),
                       construct='name of an intersection region')
    ctx.floor('names of intersection regions', n, 1)


def check_skipped_messages(ctx):
    """loopy / convergent BP: a sweep that SKIPS a node leaves that node's outgoing messages at their previous value (the initial zeros).
    Harmless for a variable with a single factor - its message to that factor is the empty sum, zero - but not for a factor over a single
    attribute, whose message to its variable is its own (normalised) potential."""
    n = 0
    for q in ('FactorGraph.loopy_belief_propagation', 'FactorGraph.convergent_belief_propagation'):
        if not ctx.repo.has_func(FG, q):
            continue
        fi = ctx.repo.func(FG, q)
        for lp in [x for x in ast.walk(fi.node) if isinstance(x, ast.For) and isinstance(x.target, ast.Name)]:
            it = U(lp.iter).replace(' ', '')
            if it not in ('self.domain', 'self.domain.attrs', 'self.cliques'):
                continue
            for st in lp.body:
                if isinstance(st, ast.If) and not st.orelse and len(st.body) == 1 and isinstance(st.body[0], ast.Continue):
                    t = U(st.test).replace(' ', '')
                    x = lp.target.id
                    n += 1
                    if it == 'self.cliques':
                        ctx.ob('skipped-messages', fi, st, False, 'the factor-to-variable sweep skips the factors with `%s`: their messages stay at the initial zeros, '
                               'although the message of a factor is (a marginal of) its potential - for a single-attribute factor the potential itself' % U(st.test),
                               construct='skip in the factor sweep')
                        continue
                    facs = [a.targets[0].id for a in lp.body if isinstance(a, ast.Assign) and len(a.targets) == 1 and isinstance(a.targets[0], ast.Name)
                            and U(a.value).replace(' ', '') in ('[clforclinself.cliquesif%sincl]' % x, 'self.neighbors[%s]' % x, 'self.neighbors.get(%s,[])' % x)]
                    ok = any(t in ('len(%s)==1' % f, 'len(%s)<=1' % f, 'len(%s)<2' % f) for f in facs)
                    if any(t in ('len(%s)==0' % f, 'not%s' % f, 'len(%s)<1' % f) for f in facs):
                        ctx.ob('skipped-messages', fi, st, True, 'a variable that lies in no factor has no message to send or receive: skipping it changes nothing',
                               construct='skip in the variable sweep')
                        continue
                    if not ok:
                        raise AnalysisError('%s: the variable sweep skips nodes under `%s`, which is in no recognised form' % (q, U(st.test)[:60]))
                    ctx.ob('skipped-messages', fi, st, True, 'a variable with a single factor sends that factor the empty sum: skipping it leaves the zero message in place',
                           construct='skip in the variable sweep')
    ctx.count('skipped nodes in the BP sweeps', n)


def check_saturated_sets(ctx):
    """the belief sets of the SATURATED region-graph propagation (minimal=False): B[r] holds the messages entering the down-set of r from
    outside - for r itself and for EVERY descendant rd of r the parents of rd outside the down-set.  Judged on the one thing the spellings
    differ in: where the receiving region rd ranges - over r's descendants (transitively), not only over its children."""
    fi = ctx.repo.func(RG, 'RegionGraph.build_graph')
    n = 0
    Bn = {U(a.value) for a in ast.walk(fi.node) if isinstance(a, ast.Assign) and len(a.targets) == 1 and U(a.targets[0]) == 'self.B' and isinstance(a.value, ast.Name)}
    for a in ast.walk(fi.node):
        if isinstance(a, ast.Assign) and len(a.targets) == 1 and isinstance(a.targets[0], ast.Tuple) and isinstance(a.value, ast.Tuple) \
                and len(a.targets[0].elts) == len(a.value.elts):
            for t_, v_ in zip(a.targets[0].elts, a.value.elts):
                if U(t_) == 'self.B' and isinstance(v_, ast.Name):
                    Bn.add(v_.id)
    if len(Bn) != 1:
        raise AnalysisError('build_graph: the container stored as self.B was not found')
    Bn = Bn.pop()
    for node in ast.walk(fi.node):
        # comprehension form:  B[r] = [(ru, rd) for rd in <S> for ru in ..]      loop form:  for rd in <S>: .. B[r].append((ru, rd))
        cands = []
        if isinstance(node, ast.Assign) and len(node.targets) == 1 and isinstance(node.targets[0], ast.Subscript) and U(node.targets[0].value) == Bn \
                and isinstance(node.value, (ast.ListComp, ast.SetComp)) and isinstance(node.value.elt, ast.Tuple) and len(node.value.elt.elts) == 2:
            r = U(node.targets[0].slice)
            rd = U(node.value.elt.elts[1])
            for g in node.value.generators:
                if U(g.target) == rd and rd != r:
                    cands.append((node, r, rd, g.iter))
        if isinstance(node, ast.For) and isinstance(node.target, ast.Name):
            for c in ast.walk(node):
                if isinstance(c, ast.Call) and isinstance(c.func, ast.Attribute) and c.func.attr in ('append', 'add') and isinstance(c.func.value, ast.Subscript) \
                        and U(c.func.value.value) == Bn and len(c.args) == 1 and isinstance(c.args[0], ast.Tuple) and len(c.args[0].elts) == 2 \
                        and U(c.args[0].elts[1]) == node.target.id and U(c.func.value.slice) != node.target.id:
                    cands.append((node, U(c.func.value.slice), node.target.id, node.iter))
        for where, r, rd, it in cands:
            t = U(it).replace(' ', '')
            deep = 'descendants' in t or 'downp' in t
            shallow = re.search(r'successors\(|self\.children\[|\.neighbors\(', t) is not None
            if not deep and not shallow:
                raise AnalysisError('build_graph: the receiving regions of B[%s] range over `%s`, which is in no recognised form' % (r, U(it)[:60]))
            n += 1
            ctx.ob('gbp-message-sets', fi, where, deep and not (shallow and not deep),
                   'B[%s] collects the messages entering EVERY descendant of %s from outside its down-set; the receiving region `%s` ranges over `%s`%s'
                   % (r, r, rd, U(it)[:60], '' if deep else ' - the children only: messages into grandchildren are dropped (region graphs of three or more levels)'),
                   construct='receiving regions of B (saturated)')
    ctx.floor('saturated belief sets of the region graph', n, 1)


def check_call_local_caches(ctx, funcs):
    """a memo table kept on the oracle object (`if K not in self.X: self.X[K] = V`) whose entries depend on the arguments of the
    call must be emptied by that call: otherwise the entries computed for the previous potentials answer for the new ones"""
    from ..srcmodel import names_in, target_names
    n = 0
    for fi in funcs:
        params = set(fi.params[1:])
        # names that depend on the parameters (flow-insensitive closure over the assignments of the method)
        dep = set(params)
        changed = True
        while changed:
            changed = False
            for st in ast.walk(fi.node):
                tg, val = [], None
                if isinstance(st, ast.Assign):
                    tg, val = st.targets, st.value
                elif isinstance(st, ast.AugAssign):
                    tg, val = [st.target], st.value
                elif isinstance(st, ast.For):
                    tg, val = [st.target], st.iter
                if val is None:
                    continue
                if names_in(val) & dep:
                    for t in tg:
                        base = t
                        while isinstance(base, ast.Subscript):
                            base = base.value
                        for x in (target_names(base) if not isinstance(base, ast.Attribute) else []):
                            if x not in dep:
                                dep.add(x)
                                changed = True
        for g in ast.walk(fi.node):
            if not isinstance(g, ast.If):
                continue
            tables = set()
            for t in ast.walk(g.test):
                if isinstance(t, ast.Compare) and len(t.ops) == 1 and isinstance(t.ops[0], ast.NotIn) and isinstance(t.comparators[0], ast.Attribute) \
                        and U(t.comparators[0].value) == 'self':
                    tables.add(t.comparators[0].attr)
            for X in tables:
                stores = [st for st in ast.walk(g) if isinstance(st, ast.Assign) and isinstance(st.targets[0], ast.Subscript)
                          and U(st.targets[0].value) == 'self.' + X]
                if not stores or not any(names_in(st.value) & dep for st in stores):
                    continue
                n += 1
                ctx.analysed(fi)
                resets = [st for st in fi.body if isinstance(st, ast.Assign) and any(U(t) == 'self.' + X for t in st.targets)
                          and ((isinstance(st.value, ast.Dict) and not st.value.keys) or (isinstance(st.value, ast.Call) and U(st.value.func) == 'dict'))]
                before = bool(resets) and fi.body.index(resets[0]) <= max((i for i, b in enumerate(fi.body) if g is b or g in list(ast.walk(b))), default=-1)
                ctx.ob('call-local-cache', fi, g, before,
                       'the table self.%s memoises values computed from the arguments of %s (`%s`); it must be emptied at the start of every '
                       'call, otherwise a second call with other potentials reuses the messages of the first' % (X, fi.name, U(stores[0])[:70]),
                       construct='memo table self.%s of %s' % (X, fi.name))
    ctx.count('call-local memo tables', n)

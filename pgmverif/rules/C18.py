"""C18 - approximate (local) estimation is valid (structural clauses).

  conformance      every attribute / method LocalInference reads on its oracle is provided by every oracle class its
                   dispatch can construct: a method of the class, an attribute definitely assigned by the class's
                   constructor (on every path, through the helper methods it calls), or an attribute LocalInference itself
                   writes during setup;  called methods accept the number of arguments passed
  dispatch         every documented oracle name ('convex', 'approx', 'pairwise') has a branch constructing an oracle
  returned-normalised-to-total / exp-normalised
                   every table an oracle hands back is exp of a belief normalised to the oracle's current total
  residual-form / loss-form / gradient-form / projection-order / exactly-once
                   the loss LocalInference descends on is the stated one and the gradient is its derivative (C04's rules
                   applied to this copy): a wrong gradient makes the descent fit worse than its uniform start
  feasibility-form   the quantity LocalInference compares with its fixed threshold is, in every oracle class, the plain mean over
                   overlapping region pairs of the L1 gap between their marginals on the shared attributes (same unit in all siblings)
  restart-on-increase   mirror_descent_auto restarts with a halved step only on a strict increase of the loss
  region-structure   the parent/child edges of the region graph are the covering relation of the regions under inclusion
  returns-own-iterate   estimation stores the (parameters, marginals) the inner loop returned
  per-call-options   a key written into a parameter with a shared mutable default (`options={}`) is written on every path before the
                   container is handed on: otherwise the value an earlier call stored (its callback) is used by this one
Not decided: fit no worse than uniform, exactness on disjoint cliques, feasibility tolerance (numeric).
"""
import ast

from . import _logrules as LR
from ..engines.conform import definitely_assigned, bound_method, oracle_accesses
from ..engines.solvers import find_setup
from ..srcmodel import AnalysisError, U, calls_in, target_names

LI = 'src/mbi/local_inference.py'
INIT = 'src/mbi/__init__.py'
DOCUMENTED = ['convex', 'approx', 'pairwise']


def check_restart_test(ctx):
    """mirror_descent_auto starts over with half the step size when the loss went UP.  The test must be a strict increase (`l > prev_l`, or
    `not (l <= prev_l)` which also catches NaN): with `>=` / `not (l < prev_l)` a loss that merely stalls - measurements already matched, a
    single-cell clique, a lone total query - restarts at every step size, and the recursion never ends."""
    name = 'LocalInference.mirror_descent_auto'
    if not ctx.repo.has_func(LI, name):
        raise AnalysisError('anchor vanished: ' + name)
    fi = ctx.repo.func(LI, name)
    ctx.analysed(fi)
    for n in ast.walk(fi.node):
        for ch in ast.iter_child_nodes(n):
            ch._parent = n
    rec = [c for c in ast.walk(fi.node) if isinstance(c, ast.Call) and U(c.func) == 'self.' + fi.name]
    if not rec:
        return
    n_ob = 0
    for c in rec:
        tests = []
        p_ = getattr(c, '_parent', None)
        while p_ is not None and p_ is not fi.node:
            if isinstance(p_, ast.If):
                tests.append(p_.test)
            p_ = getattr(p_, '_parent', None)
        cmp_ = None
        flags = {a.targets[0].id: a.value for a in ast.walk(fi.node) if isinstance(a, ast.Assign) and len(a.targets) == 1 and isinstance(a.targets[0], ast.Name)
                 and isinstance(a.value, (ast.Compare, ast.UnaryOp))
                 and sum(1 for b in ast.walk(fi.node) if isinstance(b, ast.Name) and b.id == a.targets[0].id and isinstance(b.ctx, ast.Store)) == 1}
        parts = []
        for t in tests:
            parts.extend(t.values if isinstance(t, ast.BoolOp) and isinstance(t.op, ast.And) else [t])
        parts = [flags.get(t.id, t) if isinstance(t, ast.Name) else t for t in parts]        # a test kept in a local (`worse = l > prev_l`)
        for t in parts:
            neg = False
            while isinstance(t, ast.UnaryOp) and isinstance(t.op, ast.Not):
                t, neg = t.operand, not neg
            if isinstance(t, ast.Compare) and len(t.ops) == 1 and isinstance(t.left, ast.Name) and isinstance(t.comparators[0], ast.Name) \
                    and isinstance(t.ops[0], (ast.Lt, ast.LtE, ast.Gt, ast.GtE)) and 'prev' in (t.left.id + t.comparators[0].id):
                cmp_ = (t, neg)
        if cmp_ is None:
            raise AnalysisError('mirror_descent_auto: the test that decides a restart was not found')
        t, neg = cmp_
        a, b, op = t.left.id, t.comparators[0].id, type(t.ops[0])
        if 'prev' in a:          # orient as  new OP prev
            a, b = b, a
            op = {ast.Lt: ast.Gt, ast.Gt: ast.Lt, ast.LtE: ast.GtE, ast.GtE: ast.LtE}[op]
        strict_up = (op is ast.Gt and not neg) or (op is ast.LtE and neg)
        weak_up = (op is ast.GtE and not neg) or (op is ast.Lt and neg)
        if not strict_up and not weak_up:
            raise AnalysisError('mirror_descent_auto: restart test `%s` is in no recognised form' % U(cmp_[0]))
        n_ob += 1
        ctx.ob('restart-on-increase', fi, t, strict_up, 'the step size is halved and the descent restarted only when the loss went strictly UP; tested: `%s%s`%s'
               % ('not ' if neg else '', U(t), '' if strict_up else ' - a loss that stays equal (nothing left to fit) restarts at every step size: unbounded recursion'),
               construct='restart test of mirror_descent_auto')
    ctx.floor('restart tests of mirror_descent_auto', n_ob, 1)


def resolve_class(repo, name):
    """class name -> file, through `from mbi.x import Name` lines of mbi/__init__.py"""
    m = repo.module(INIT)
    origin = m.imports.get(name)
    if origin is None:
        raise AnalysisError('oracle class %s is not exported by mbi/__init__.py' % name)
    mod = origin.rsplit('.', 1)[0]
    rel = 'src/' + mod.replace('.', '/') + '.py'
    repo.cls(rel, name)
    return rel


def run(ctx):
    repo = ctx.repo
    ctx.explanation = (
        'Interface conformance (E7): required set = attributes read / methods called on the oracle object anywhere in '
        'LocalInference; provided set per oracle class constructed by the dispatch in the setup method = methods + '
        'attributes definitely assigned by its constructor (must-analysis through the helper methods it calls). '
        'Plus log-space typestate (E3) on every table the oracles return.')
    ctx.rule_text = 'one obligation per (required attribute, oracle class) pair, per documented oracle name, per returned table'
    ctx.trusted = ['a user-supplied oracle object (the non-string dispatch branch) is outside the check']
    methods = repo.nmethods(LI, 'LocalInference')
    setup = find_setup(repo, LI, 'LocalInference')

    check_grouping(ctx, setup)
    check_gbp_schedule(ctx)
    check_restart_test(ctx)
    from ._generic import measurement_keys_kept, covering_relation
    bg_ = repo.func('src/mbi/region_graph.py', 'RegionGraph.build_graph')
    for n_ in ast.walk(bg_.node):
        for ch_ in ast.iter_child_nodes(n_):
            ch_._parent = n_
    ctx.analysed(bg_)
    from ._generic import minimal_scan, reachability_tables
    ctx.floor('reachability tables of the region graph', reachability_tables(ctx, bg_, 'region-structure'), 2)
    ctx.floor('covering relation of the region graph (as a double loop with a no-region-in-between test, or as a scan for minimal supersets)',
              covering_relation(ctx, bg_, 'region-structure') + minimal_scan(ctx, bg_, 'region-structure'), 1)
    for name_, m_ in sorted(repo.methods(LI, 'LocalInference').items()):
        measurement_keys_kept(ctx, m_, 'projection-order')
    # the oracles run for EVERY measurement set: a fold without a start value must not meet an empty selection
    from ._generic import reduce_without_start
    n_fold = 0
    for rel_, cls_ in (('src/mbi/factor_graph.py', 'FactorGraph'), ('src/mbi/region_graph.py', 'RegionGraph')):
        for name_, m_ in sorted(repo.methods(rel_, cls_).items()):
            n_fold += reduce_without_start(ctx, m_, 'conformance')
    ctx.count('folds without a start value in the oracles', n_fold)

    # ---- dispatch: oracle name -> constructed class --------------------------------------
    dispatch = {}
    for s in ast.walk(setup.node):
        if isinstance(s, ast.If):
            t = s.test
            if isinstance(t, ast.Compare) and U(t.left) == 'self.marginal_oracle' and len(t.ops) == 1 \
                    and isinstance(t.ops[0], ast.Eq) and isinstance(t.comparators[0], ast.Constant):
                name = t.comparators[0].value
                ctor = None
                for b in s.body:
                    if isinstance(b, ast.Assign) and isinstance(b.value, ast.Call) and isinstance(b.value.func, ast.Name):
                        ctor = b.value
                dispatch[name] = ctor
    # table dispatch: NAME -> class in a dict display, constructed through a local bound from TABLE[self.marginal_oracle]
    from ..engines.solvers import dispatch_tables, table_constructions
    for call, tname, table in table_constructions(setup, dispatch_tables(repo, LI, 'LocalInference')):
        for name, cname in table.items():
            pseudo = ast.copy_location(ast.Call(func=ast.Name(id=cname, ctx=ast.Load()), args=call.args, keywords=call.keywords), call)
            dispatch.setdefault(name, pseudo)
    if not dispatch:
        raise AnalysisError('no oracle dispatch found in %s' % setup.qualname)
    for name in DOCUMENTED:
        ctx.ob('dispatch', setup, dispatch.get(name) or setup.node, dispatch.get(name) is not None,
               "documented oracle name '%s' %s" % (name, 'constructs ' + U(dispatch[name].func) if dispatch.get(name) else
                                                   'has no branch constructing an oracle'),
               construct="marginal_oracle == '%s'" % name)
    classes = {}
    for name, ctor in dispatch.items():
        if ctor is not None:
            classes.setdefault(ctor.func.id, []).append(name)

    # ---- the constructor calls themselves: every argument handed over is one the oracle class takes ------------------------------------
    n_ctor = 0
    ctor_calls = [c for c in ast.walk(setup.node) if isinstance(c, ast.Call) and isinstance(c.func, ast.Name) and c.func.id in classes]
    seen_ = {id(c) for c in ctor_calls}
    ctor_calls += [c for c in dispatch.values() if c is not None and id(c) not in seen_]          # constructions through a dispatch table (one per class)
    for c in ctor_calls:
        if isinstance(c, ast.Call) and isinstance(c.func, ast.Name) and c.func.id in classes:
            crel = resolve_class(repo, c.func.id)
            init = repo.module(crel).funcs.get(c.func.id + '.__init__')
            if init is None:
                raise AnalysisError('oracle class %s has no constructor of its own' % c.func.id)
            params = init.params[1:]
            a_ = init.node.args
            if a_.kwarg is not None or any(isinstance(x, ast.Starred) for x in c.args) or any(k.arg is None for k in c.keywords):
                continue
            unknown = [k.arg for k in c.keywords if k.arg not in params and k.arg not in [x.arg for x in a_.kwonlyargs]]
            too_many = len(c.args) > len(params) and a_.vararg is None
            n_ctor += 1
            ctx.ob('conformance', setup, c, not unknown and not too_many,
                   'the oracle constructor %s.__init__(%s) is called with %s' % (c.func.id, ', '.join(params), 'arguments it takes' if not unknown and not too_many else
                   ('the keyword(s) %s, which it does not take: constructing this oracle raises TypeError' % unknown if unknown else 'too many positional arguments')),
                   construct='constructor call %s(..)' % c.func.id)
    ctx.floor('oracle constructor calls checked against their signatures', n_ctor, 2)

    # ---- required accesses ----------------------------------------------------------------
    required = {}      # attr -> (kind, node, fi, nargs)
    written_in_setup = set()
    for mname, fi in methods.items():
        ctx.analysed(fi)
        for attr, kind, node, nargs in oracle_accesses(fi):
            if kind == 'store':
                if fi is setup:
                    written_in_setup.add(attr)
                continue
            required.setdefault(attr, []).append((kind, node, fi, nargs))
    ctx.floor('attributes required of the oracle', len(required), 5)

    # ---- provided, per class ------------------------------------------------------------------
    for cname, names in sorted(classes.items()):
        rel = resolve_class(repo, cname)
        provided_m = repo.nmethods(rel, cname)
        da = definitely_assigned(repo, rel, cname)
        da |= {t.id for st in repo.cls(rel, cname).body if isinstance(st, ast.Assign) for t in st.targets if isinstance(t, ast.Name)}
        for attr, uses in sorted(required.items()):
            kind, node, fi, nargs = uses[0]
            ok = attr in provided_m or attr in da or attr in written_in_setup
            how = 'method' if attr in provided_m else ('assigned by %s.__init__' % cname if attr in da else
                                                       ('written by LocalInference setup' if attr in written_in_setup else 'MISSING'))
            ctx.ob('conformance', (rel, cname + '.__init__'), node, ok,
                   "LocalInference.%s reads `.%s` on its oracle; %s (oracle names %s): %s"
                   % (fi.name, attr, cname, names, how), construct='%s provides .%s' % (cname, attr))
            # arity of called methods
            for kind, node, fi, nargs in uses:
                if kind != 'call':
                    continue
                targets = [attr] if attr in provided_m else bound_method(repo, rel, cname, attr)
                for t in targets:
                    if t not in provided_m:
                        ctx.ob('conformance', (rel, cname + '.__init__'), node, False,
                               '.%s is bound to self.%s which %s does not define' % (attr, t, cname),
                               construct='%s binds .%s -> %s' % (cname, attr, t))
                        continue
                    m = provided_m[t]
                    npos = len(m.params) - 1
                    nreq = npos - len(m.node.args.defaults)
                    ok = nreq <= nargs <= npos or m.node.args.vararg is not None
                    ctx.ob('conformance', (rel, cname + '.' + t), node, ok,
                           'called with %d positional argument(s); %s.%s accepts %d..%d' % (nargs, cname, t, nreq, npos),
                           construct='%s.%s arity for `%s`' % (cname, t, U(node)))

    # ---- tables handed back by the oracles ------------------------------------------------------
    n_tables = 0
    for rel, q in [('src/mbi/region_graph.py', 'RegionGraph.hazan_peng_shashua'),
                   ('src/mbi/region_graph.py', 'RegionGraph.generalized_belief_propagation'),
                   ('src/mbi/factor_graph.py', 'FactorGraph.clique_marginals')]:
        fi = repo.nfunc(rel, q)
        an, n = LR.L1(ctx, fi)
        n_tables += LR.L2_container(ctx, fi, an, 'self.total')
    ctx.floor('oracle return constructions', n_tables, 3)

    # ---- the loss LocalInference descends on and its gradient (same rules as C04, on this copy) -------
    from .C04 import check_loss, search_loop
    check_loss(ctx, methods['_marginal_loss'])
    search_loop(ctx, setup, action='append')

    check_feasibility(ctx, classes)
    check_restart_point(ctx, methods)
    from ._generic import mutable_default_state
    for name_, m_ in sorted(methods.items()):
        mutable_default_state(ctx, m_, 'per-call-options')
    check_polished_result(ctx, methods)
    check_outer_regions(ctx)

    # ---- estimate stores what the inner loop returned ----------------------------------------------
    md = methods.get('mirror_descent')
    if md is None:
        raise AnalysisError('LocalInference.mirror_descent vanished')
    unpack = None
    for s in ast.walk(md.node):
        if isinstance(s, ast.Assign) and isinstance(s.targets[0], ast.Tuple) and isinstance(s.value, ast.Call) \
                and U(s.value.func).startswith('self.mirror_descent_auto'):
            unpack = s
    if unpack is None:
        raise AnalysisError('LocalInference.mirror_descent: call of the inner loop not found')
    names = [U(e) for e in unpack.targets[0].elts]
    stores = {U(s.targets[0]): U(s.value) for s in ast.walk(md.node)
              if isinstance(s, ast.Assign) and isinstance(s.targets[0], ast.Attribute)}
    auto = methods['mirror_descent_auto']
    ret = [r for r in ast.walk(auto.node) if isinstance(r, ast.Return) and isinstance(r.value, ast.Tuple)]
    ok = bool(ret) and len(names) == 3 and stores.get('self.model.potentials') == names[1] \
        and stores.get('self.model.marginals') == names[2]
    # the returned (theta, mu): mu must be belief_propagation(theta) of the same theta on every path
    from ..engines.facts import St
    from .C08 import Pair
    ctx.ob('returns-own-iterate', md, unpack, ok,
           'the model must receive the (parameters, marginals) returned by the inner loop: potentials <- %s, marginals <- %s'
           % (stores.get('self.model.potentials'), stores.get('self.model.marginals')))


def is_l1_gap(v):
    return isinstance(v, ast.Call) and U(v.func) in ('np.linalg.norm', 'numpy.linalg.norm') and len(v.args) == 2 and U(v.args[1]) == '1' \
        and isinstance(v.args[0], ast.BinOp) and isinstance(v.args[0].op, ast.Sub)


def check_feasibility(ctx, classes):
    """primal_feasibility of every oracle class: the plain mean over pairs of ||x - y||_1 (0 when there are no pairs), nothing else.
    Decided on the expanded result: `ans += gap; count += 1 ... ans / count` and `sum(E) / len(E)` over the comprehension E of the
    gaps (or np.mean(E)) are the same quantity."""
    from ..engines.blockeval import BlockEval, T
    from ..engines.builders import Builder, strip_wrappers
    from ..normalise import single_exit
    from ..srcmodel import clone
    repo = ctx.repo
    for cname in sorted(classes):
        rel = resolve_class(repo, cname)
        fi = repo.nmethods(rel, cname).get('primal_feasibility')
        if fi is None:
            continue
        ctx.analysed(fi)
        stmts, _ = single_exit(clone(fi.body), '__ret__')
        be = BlockEval(fi.qualname, loop_ok=lambda s_: True)
        be.run(stmts)
        R = be.env.get('__ret__')
        if R is None:
            raise AnalysisError('%s.primal_feasibility: no result' % cname)
        # summation accumulators: X starts at 0 and becomes X + V once per innermost iteration
        sums, conds = {}, {}
        for loop, entry, body_env, pc in be.loops_done:
            for k, v in body_env.items():
                cond = None
                if isinstance(v, ast.IfExp) and (T(v.body) == k) != (T(v.orelse) == k):
                    # counted only for the pairs that satisfy a condition: `X + V if c else X`
                    cond = T(v.test) if T(v.orelse) == k else 'not ' + T(v.test)
                    v = v.body if T(v.orelse) == k else v.orelse
                if isinstance(v, ast.BinOp) and isinstance(v.op, ast.Add) and T(v.left) == k:
                    sums[k] = v.right
                    conds[k] = cond
        inits = {}
        for loop, entry, body_env, pc in be.loops_done:
            for k in sums:
                if k in entry and not (isinstance(entry[k], ast.Name) and entry[k].id == k):
                    inits.setdefault(k, entry[k])
        leaves = []

        def walk(e, path):
            if isinstance(e, ast.IfExp):
                walk(e.body, path + [(T(e.test), True)])
                walk(e.orelse, path + [(T(e.test), False)])
            else:
                leaves.append((e, path))
        walk(R, [])
        ok = True
        shown = []
        n_mean = 0
        for e, path in leaves:
            t = T(e)
            shown.append(U(e)[:80])
            if t in ('0', '0.0'):
                # the empty case: guarded by count == 0 / len(E) == 0
                if not path:
                    ok = False
                continue
            mean = False
            if isinstance(e, ast.BinOp) and isinstance(e.op, ast.Div):
                num, den = e.left, e.right
                if isinstance(num, ast.Name) and isinstance(den, ast.Name) and num.id in sums and den.id in sums:
                    mean = is_l1_gap(sums[num.id]) and T(sums[den.id]) == '1' and T(inits.get(num.id)) in ('0', '0.0') \
                        and T(inits.get(den.id)) == '0' and conds.get(num.id) == conds.get(den.id)
                elif isinstance(num, ast.Call) and U(num.func) in ('sum', 'np.sum') and len(num.args) == 1 and \
                        isinstance(den, ast.Call) and U(den.func) == 'len' and len(den.args) == 1 and T(num.args[0]) == T(den.args[0]):
                    b = Builder.of_comprehension(num.args[0])
                    mean = b is not None and is_l1_gap(b.elt) and not b.conds
            elif isinstance(e, ast.Call) and U(e.func) in ('np.mean', 'numpy.mean') and len(e.args) == 1:
                b = Builder.of_comprehension(e.args[0])
                mean = b is not None and is_l1_gap(b.elt) and not b.conds
            n_mean += int(mean)
            ok = ok and mean
        ok = ok and n_mean >= 1
        ctx.ob('feasibility-form', fi, fi.node, ok,
               '%s.primal_feasibility must return the plain mean of the L1 gaps in records (LocalInference stops its consistency sweeps '
               'when it drops below the fixed threshold 1.0), 0 when there are no pairs; returns %s' % (cname, shown),
               construct='result of %s.primal_feasibility' % cname)


INPLACE_DUNDER = {ast.Add: '__iadd__', ast.Sub: '__isub__', ast.Mult: '__imul__', ast.Div: '__itruediv__', ast.MatMult: '__imatmul__',
                  ast.BitOr: '__ior__', ast.BitAnd: '__iand__'}
MUTATING_METHODS = {'combine', 'update', 'pop', 'popitem', 'clear', 'setdefault', '__setitem__', '__delitem__'}


def check_restart_point(ctx, methods):
    """The line search restarts from a saved parameter vector (`model.potentials = X; return self.<same>(alpha/2, ...)`).
    X must still be the vector it was when saved: no in-place operation may reach it through any alias (may-alias dataflow over
    plain copies).  `n op= v` is in place exactly when the parameter-vector class defines the in-place operator."""
    from ..absint import Structured
    repo = ctx.repo
    cands = []
    for name, fi in methods.items():
        for r in ast.walk(fi.node):
            if isinstance(r, ast.Return) and isinstance(r.value, ast.Call) and U(r.value.func) == 'self.' + name:
                par = getattr(r, '_parent', None)
                blk = [b for b in (getattr(par, 'body', []), getattr(par, 'orelse', [])) if r in b]
                for st in (blk[0] if blk else []):
                    if isinstance(st, ast.Assign) and isinstance(st.targets[0], ast.Attribute) and st.targets[0].attr == 'potentials' \
                            and isinstance(st.value, ast.Name):
                        cands.append((fi, st, st.value.id))
    if not cands:
        # second form: the saved start point is HANDED to the restarted search - `return self.<same>(.., X)` into a parameter P that the method
        # falls back from only when it is None (`if P is None: P = model.potentials`)
        recs = []
        for name, fi in methods.items():
            for r in ast.walk(fi.node):
                if isinstance(r, ast.Return) and isinstance(r.value, ast.Call) and U(r.value.func) == 'self.' + name:
                    recs.append((fi, r))
                    c = r.value
                    params = fi.params[1:]
                    bound = dict(zip(params, c.args))
                    bound.update({k.arg: k.value for k in c.keywords if k.arg})
                    for P, a in bound.items():
                        if not isinstance(a, ast.Name) or a.id != P:
                            continue
                        falls_back = any(isinstance(i_, ast.If) and U(i_.test).replace(' ', '') == '%sisNone' % P and len(i_.body) == 1 and isinstance(i_.body[0], ast.Assign)
                                         and U(i_.body[0].targets[0]) == P and U(i_.body[0].value).endswith('.potentials') for i_ in fi.body)
                        rebinds = [x for x in ast.walk(fi.node) if isinstance(x, ast.Assign) and any(U(t_) == P for t_ in x.targets)]
                        if falls_back and len(rebinds) == 1:
                            cands.append((fi, r, P))
        if not cands and recs:
            fi, r = recs[0]
            ctx.ob('restart-point', fi, r, False, 'the restarted search begins from `model.potentials`, but the restart neither puts the saved start point back there nor '
                   'hands it on: an oracle that keeps the parameters it was last called with (FactorGraph.loopy_belief_propagation stores them in '
                   '`self.potentials`) makes the restart begin from the rejected, diverged step', construct='restart point of ' + fi.name)
            return
    if not cands:
        raise AnalysisError('LocalInference: restart of the line search (`model.potentials = X; return self.<same method>(...)`) not found')
    cv = repo.methods('src/mbi/clique_vector.py', 'CliqueVector')
    for fi, store, X in cands:
        ctx.analysed(fi)
        sites = []

        class Alias(Structured):
            def copy(self, st): return set(st)
            def join(self, a, b): return a | b
            def unsupported(self, st, stmt): return st

            def on_assign(self, st, s):
                if s.value is None:
                    return st
                targets = s.targets if isinstance(s, ast.Assign) else [s.target]
                for t in targets:
                    if isinstance(t, ast.Name):
                        if t.id == X:
                            st.clear()
                            st.add(X)
                        elif isinstance(s.value, ast.Name) and s.value.id in st:
                            st.add(t.id)
                        else:
                            st.discard(t.id)
                    elif isinstance(t, (ast.Tuple, ast.List)):
                        for n in ast.walk(t):
                            if isinstance(n, ast.Name):
                                st.discard(n.id)
                    elif isinstance(t, ast.Subscript) and isinstance(t.value, ast.Name) and t.value.id in st:
                        sites.append((s, 'element store through `%s`' % t.value.id, False))
                return st

            def on_augassign(self, st, s):
                t = s.target
                if isinstance(t, ast.Name) and t.id in st:
                    d = INPLACE_DUNDER.get(type(s.op))
                    inplace = d is not None and d in cv
                    sites.append((s, '`%s` may be the saved restart point `%s`; CliqueVector %s %s' %
                                  (t.id, X, 'defines' if inplace else 'does not define', d), not inplace))
                    if not inplace:
                        st.discard(t.id)
                elif isinstance(t, ast.Subscript) and isinstance(t.value, ast.Name) and t.value.id in st:
                    sites.append((s, 'element update through `%s`' % t.value.id, False))
                return st

            def on_expr(self, st, e, s):
                for c in ([e] if isinstance(e, ast.Call) else []):
                    f = c.func
                    if isinstance(f, ast.Attribute) and isinstance(f.value, ast.Name) and f.value.id in st and f.attr in MUTATING_METHODS:
                        sites.append((s, 'mutating method `.%s` on `%s`' % (f.attr, f.value.id), False))
                return st
        Alias().exits(fi.body, set())
        for s_, why, ok in sites:
            ctx.ob('restart-point', fi, s_, ok, 'the vector restored at a restart (`%s`) must not be modified in place: %s' % (U(store), why))
        ctx.ob('restart-point', fi, store, all(ok for _, _, ok in sites),
               'the line search restarts from `%s`, which no in-place operation reaches (%d candidate site(s) examined)' % (X, len(sites)),
               construct='restart point of ' + fi.name)


def check_polished_result(ctx, methods):
    """the tables whose feasibility is enforced by the extra sweeps are the tables that are returned"""
    from ..normalise import Defs, expand
    n = 0
    for name, fi in methods.items():
        for lp in ast.walk(fi.node):
            if not isinstance(lp, (ast.For, ast.While)):
                continue
            tested = [c for c in calls_in(lp) if isinstance(c.func, ast.Attribute) and c.func.attr == 'primal_feasibility' and len(c.args) == 1
                      and isinstance(c.args[0], ast.Name)]
            if not tested:
                continue
            V = tested[0].args[0].id
            reassigned = any(isinstance(s_, ast.Assign) and V in [x for t in s_.targets for x in target_names(t)] for s_ in ast.walk(lp))
            if not reassigned:
                continue
            n += 1
            ctx.analysed(fi)
            order = []

            def dfs(nd):
                order.append(id(nd))
                for ch in ast.iter_child_nodes(nd):
                    dfs(ch)
            dfs(fi.node)
            pos = {k: i for i, k in enumerate(order)}
            rets = [r for r in ast.walk(fi.node) if isinstance(r, ast.Return) and isinstance(r.value, ast.Tuple) and pos[id(r)] > pos[id(lp)]]
            if not rets:
                raise AnalysisError('%s: no tuple result after the feasibility sweeps' % fi.qualname)
            # copies made after the loop: R = V / R = T; T = V
            after = []
            par = getattr(lp, '_parent', None)
            blk = getattr(par, 'body', []) if par is not None else []
            if lp in blk:
                after = blk[blk.index(lp) + 1:]
            copies = {V}
            for s_ in after:
                if isinstance(s_, ast.Assign) and len(s_.targets) == 1 and isinstance(s_.targets[0], ast.Name) and isinstance(s_.value, ast.Name):
                    if s_.value.id in copies:
                        copies.add(s_.targets[0].id)
                    else:
                        copies.discard(s_.targets[0].id)
                elif isinstance(s_, ast.Assign):
                    for t in s_.targets:
                        for x in target_names(t):
                            copies.discard(x)
            for r in rets:
                got = [U(e) for e in r.value.elts]
                ok = any(g in copies for g in got)
                ctx.ob('polished-result', fi, r, ok,
                       'the extra sweeps test and refresh `%s` until it is primal feasible; the result must carry those tables, it returns (%s) '
                       '- the tables checked for feasibility are not the tables handed back' % (V, ', '.join(got)) if not ok else
                       'the tables made feasible (`%s`) are the ones returned' % V, construct='tables returned after the feasibility sweeps')
    if n == 0:
        raise AnalysisError('LocalInference: the feasibility sweeps (`primal_feasibility(mu)` ... `mu = belief_propagation(theta)`) were not found')


def check_outer_regions(ctx):
    """the non-convex oracle keeps the cliques that are not PROPERLY contained in another one; a non-strict containment test against
    the other list entries drops every copy of a clique that is listed twice"""
    fi = ctx.repo.nfunc('src/mbi/region_graph.py', 'RegionGraph.__init__')
    ctx.analysed(fi)
    n = 0
    for c in calls_in(fi.node):
        if not (U(c.func) == 'any' and len(c.args) == 1 and isinstance(c.args[0], ast.GeneratorExp) and len(c.args[0].generators) == 1):
            continue
        g = c.args[0].generators[0]
        e = c.args[0].elt
        strict = None
        setlists = {a_.targets[0].id for a_ in ast.walk(fi.node) if isinstance(a_, ast.Assign) and len(a_.targets) == 1
                    and isinstance(a_.targets[0], ast.Name) and isinstance(a_.value, (ast.ListComp, ast.GeneratorExp))
                    and isinstance(a_.value.elt, ast.Call) and U(a_.value.elt.func) in ('set', 'frozenset')}

        def is_set(x):
            # set(..) itself, or a name that ranges over a list of sets built for the purpose
            if isinstance(x, ast.Call) and U(x.func) in ('set', 'frozenset'):
                return True
            return isinstance(x, ast.Name) and bool(setlists) and (U(g.iter) in setlists or any(U(g.iter) == s_ for s_ in setlists)
                                                                       or x.id != U(g.target))
        if isinstance(e, ast.Compare) and len(e.ops) == 1 and all(is_set(x) for x in [e.left, e.comparators[0]]) \
                and (any(isinstance(x, ast.Call) for x in [e.left, e.comparators[0]]) or U(g.iter) in setlists):
            if isinstance(e.ops[0], ast.Lt):
                strict = True
            elif isinstance(e.ops[0], ast.LtE):
                strict = False
        elif isinstance(e, ast.Call) and isinstance(e.func, ast.Attribute) and e.func.attr == 'issubset':
            strict = False
        if strict is None:
            continue
        n += 1
        ctx.ob('outer-regions', fi, c, strict,
               'an input clique may be dropped only when it is PROPERLY contained in another one (`set(r) < set(s)`); `%s` also drops a '
               'clique that merely equals another list entry - every copy of a clique measured twice disappears' % U(e)
               if not strict else 'cliques are dropped only when properly contained in another one', construct='maximality filter of the outer regions')
    if n == 0:
        raise AnalysisError('RegionGraph.__init__: the maximality filter of the non-convex oracle was not found')


def check_grouping(ctx, setup):
    """every measurement is attached to a clique of the MODEL (the keys the loss iterates over): a measurement attached to anything else
    is silently left out of the objective"""
    from ..normalise import normalised
    from .C04 import find_search, normalise_seq, is_subset
    nsetup = normalised(ctx.repo, setup)
    sr = find_search(nsetup)
    seq = normalise_seq(nsetup, sr['seq'], nsetup)
    core = seq
    import re
    m = re.fullmatch(r'(?:sorted|list|tuple)\((.*?)(?:,key=.*)?\)', seq)
    if m:
        core = m.group(1)
    ok = core in ('self.model.cliques', 'self.model.potentials', 'self.model.potentials.keys()', 'list(self.model.cliques)')
    ctx.ob('groups-over-model-cliques', nsetup, sr['inner'], ok,
           'the clique a measurement is attached to must be searched among the cliques of the model just built (self.model.cliques): the loss '
           'only visits those, so a measurement attached elsewhere is ignored; the search runs over `%s`' % seq,
           construct='clique sequence of the measurement grouping')
    proj, cl = sr['proj'], sr['cl']
    if sr['kind'] == 'loop':
        ctx.ob('groups-over-model-cliques', nsetup, sr['test'], bool(is_subset(sr['test'].test, proj, cl)),
               'a measurement is attached to a clique that contains its attributes: set(%s) <= set(%s)' % (proj, cl), construct='containment test of the grouping')
    else:
        ctx.ob('groups-over-model-cliques', nsetup, sr['inner'], bool(is_subset(sr['test'], proj, sr['genvar'])),
               'a measurement is attached to a clique that contains its attributes', construct='containment test of the grouping')


def check_gbp_schedule(ctx):
    """generalized_belief_propagation computes new[ru, rd] from messages of the SAME sweep on edges below ru (self.D): those must come
    earlier in message_order, i.e. the schedule visits a region after all of its descendants"""
    RG = 'src/mbi/region_graph.py'
    fi = ctx.repo.nfunc(RG, 'RegionGraph.build_graph')
    ctx.analysed(fi)
    loops = [n for n in ast.walk(fi.node) if isinstance(n, ast.For) and any(
        isinstance(c, ast.Call) and isinstance(c.func, ast.Attribute) and c.func.attr == 'append' and U(c.func.value) == 'self.message_order'
        for c in ast.walk(n))]
    outer = [l for l in loops if not any(l is not o and l in list(ast.walk(o)) for o in loops)]
    if len(outer) != 1:
        raise AnalysisError('build_graph: the loop that fills self.message_order was not found')
    loop = outer[0]
    inner = [n for n in loop.body if isinstance(n, ast.For)]
    ru = U(loop.target)
    if len(inner) != 1 or U(inner[0].iter).replace(' ', '') != 'self.children[%s]' % ru:
        raise AnalysisError('build_graph: the schedule does not enumerate (region, child) pairs region by region')
    # which graph is the downward one (parent -> child): the one self.children is read from
    down, up = set(), set()
    for n in ast.walk(fi.node):
        if isinstance(n, ast.Assign) and any(U(t) == 'self.children' for t in n.targets):
            for c in ast.walk(n.value):
                if isinstance(c, ast.Call) and isinstance(c.func, ast.Attribute) and c.func.attr in ('neighbors', 'successors') and isinstance(c.func.value, ast.Name):
                    down.add(c.func.value.id)
    for n in ast.walk(fi.node):
        if isinstance(n, ast.Assign) and len(n.targets) == 1 and isinstance(n.targets[0], ast.Name) and isinstance(n.value, ast.Call) \
                and isinstance(n.value.func, ast.Attribute) and n.value.func.attr == 'reverse' and U(n.value.func.value) in down:
            up.add(n.targets[0].id)
    # every other definition of an `up` name disqualifies it
    for n in ast.walk(fi.node):
        if isinstance(n, ast.Assign):
            for t in n.targets:
                if isinstance(t, ast.Name) and t.id in up and not (isinstance(n.value, ast.Call) and isinstance(n.value.func, ast.Attribute)
                                                                    and n.value.func.attr == 'reverse' and U(n.value.func.value) in down):
                    up.discard(t.id)
    it = loop.iter
    verdict = None
    how = U(it)

    def topo_of(e):
        if isinstance(e, ast.Call) and U(e.func).split('.')[-1] in ('topological_sort', 'lexicographical_topological_sort') and e.args \
                and isinstance(e.args[0], ast.Name):
            return e.args[0].id
        return None
    e = it
    flipped = False
    while isinstance(e, ast.Call) and isinstance(e.func, ast.Name) and e.func.id in ('list', 'tuple', 'reversed') and len(e.args) == 1:
        if e.func.id == 'reversed':
            flipped = not flipped
        e = e.args[0]
    g = topo_of(e)
    if g is not None:
        if g in up:
            verdict = not flipped
        elif g in down:
            verdict = flipped
    elif isinstance(e, ast.Call) and isinstance(e.func, ast.Name) and e.func.id == 'sorted' and e.args:
        key = [k.value for k in e.keywords if k.arg == 'key']
        rev = [k.value for k in e.keywords if k.arg == 'reverse']
        if len(key) == 1 and U(key[0]) == 'len' and all(isinstance(r, ast.Constant) for r in rev):
            r = bool(rev and rev[0].value)
            verdict = (not r) != flipped          # a sub-region is strictly shorter than the regions above it
    if verdict is None:
        raise AnalysisError('build_graph: the order `%s` of the message schedule is in no recognised form' % how)
    ctx.ob('gbp-schedule', fi, loop, verdict,
           'the message schedule must visit a region after all of its descendants (ascending size, or a topological order of the REVERSED '
           'region graph): messages of the same sweep on edges below a region are read when its own messages are computed; the order is `%s`%s'
           % (how, '' if verdict else ' - ancestors first, so those messages are read before they exist'), construct='order of the message schedule')

"""C19 - public-data reweighting yields valid weights (structural clauses).

  exp-normalised / returned-normalised-to-total
        every weight vector produced by entropic_mirror_descent (incl. the one returned, on every path) is exp of a
        quantity normalised to `total` -> finite, >= 0, sums to the total
  total-pass-through   the total handed to the optimiser is the caller's, or estimate_total(measurements) when omitted
  guarded-replacement  the iterate whose exponential is returned is replaced only inside the branch of the
        sufficient-decrease comparison `old_loss - new_loss >= ...`, by the candidate whose loss was just evaluated, and the
        recorded loss is updated in the same branch
  residual-form / loss-form / gradient-form   the loss the line search compares and the gradient it steps along belong
        together (gradient = derivative of that loss; C04's rules applied to this copy); the weight gradient gathers, for every
        record, the marginal gradient at the record's own cell
  public-data-unmodified   the returned Dataset is built from the public frame and domain, and no method of PublicInference
        stores into / mutates self.public_data
  weights-unshared     no in-place operation in the reweighting path reaches an array handed in by the caller or stored on the engine
        (the current weight vector is the array inside every Dataset returned earlier)
Not decided: 'never worse than uniform' as a numeric fact (depends on the line search's arithmetic).
"""
import ast

from . import _logrules as LR
from ..engines.logspace import TOTALNORM
from ..srcmodel import AnalysisError, U, calls_in, names_in, target_names, walk_shallow

PI = 'src/mbi/public_inference.py'
MUTATORS = {'drop', 'sort_values', 'fillna', 'reset_index', 'set_index', 'rename', 'insert', 'pop', 'update',
            'replace', 'clip', 'drop_duplicates', 'dropna', 'sort_index', '__setitem__', 'append', 'extend'}


def run(ctx):
    repo = ctx.repo
    ctx.explanation = ('Log-space typestate (E3) on entropic_mirror_descent; dominance/guard analysis of the line search; '
                       'pass-through and ownership rules on PublicInference.estimate. Exhaustive over the source.')
    ctx.rule_text = 'one obligation per exp site, per return, per assignment of the returned iterate, per store rooted at public_data'
    ctx.trusted = ['np.exp / logsumexp; exp(b - lse(b) + log T) sums to T']
    emd = repo.nfunc(PI, 'entropic_mirror_descent')
    est = repo.nfunc(PI, 'PublicInference.estimate')
    total = emd.params[2] if len(emd.params) >= 3 else None
    if total is None:
        raise AnalysisError('entropic_mirror_descent lost its total parameter')
    an, n = LR.L1(ctx, emd)
    ctx.floor('exp sites in entropic_mirror_descent', n, 2)
    nret = 0
    retvar = None
    for s, v, f, env in an.returned:
        nret += 1
        ok = False
        why = 'returns `%s`' % U(v)
        site = an.sites.get(id(v))
        if site is not None:
            ok = site.cls == TOTALNORM and site.total == total
            why = 'returned weights are exp of `%s`, which is %s%s on the paths reaching the return' \
                  % (U(site.operand), site.cls, (' to ' + site.total) if site.total else '')
            if isinstance(site.operand, ast.Name):
                retvar = site.operand.id
        elif isinstance(v, ast.Name):
            # returned a variable holding a linear-space value
            from ..engines.logspace import classify, LIN
            fv = env.get(v.id)
            if fv is not None:
                lin = [a for c, a in fv.terms if a[0] == 'lin']
                ok = bool(lin) and lin[0][1] == TOTALNORM and lin[0][2] == total
                why = 'returned `%s` is the exponential of a %s value' % (v.id, lin[0][1] if lin else 'non-exp')
        ctx.ob('returned-normalised-to-total', emd, s, ok, why + '; required: normalised to `%s`' % total)
    ctx.floor('returns of entropic_mirror_descent', nret, 1)
    if retvar is not None:
        check_guard(ctx, emd, retvar)
    else:
        raise AnalysisError('entropic_mirror_descent: cannot identify the iterate whose exponential is returned')
    check_estimate(ctx, est, emd)
    check_unmodified(ctx)
    check_inputs_unmodified(ctx)
    from .C04 import check_loss
    check_loss(ctx, repo.nfunc(PI, 'PublicInference._marginal_loss'))
    from ._generic import horner_index_dtype
    for q_, f_ in sorted(repo.module(PI).funcs.items()):
        if '<locals>' not in q_:
            horner_index_dtype(ctx, f_, 'gradient-form')
    check_weight_gradient(ctx, est)
    check_candidate_marginals(ctx, est)


CVF = 'src/mbi/clique_vector.py'


def check_candidate_marginals(ctx, est):
    """The loss of a candidate is computed from `CliqueVector.from_data(<weighted public data>, cliques)`: the entry stored under a clique
    must be the weighted contingency table of THAT clique, laid out in the clique's own attribute order (the measurement's query matrix and
    the gradient pull-back both index it in that order).  A remembered table may stand in only when its key determines the clique as
    written (judged by the normalising front-end: a look-through leaves the plain construction, a lossy key is reported as memo-key)."""
    from ..normalise import Defs, expand
    calls = [c for c in calls_in(est.node) if U(c.func).endswith('from_data')]
    if not calls:
        return
    if not ctx.repo.has_func(CVF, 'CliqueVector.from_data'):
        raise AnalysisError('CliqueVector.from_data is gone although PublicInference.estimate calls it')
    fi = ctx.repo.nfunc(CVF, 'CliqueVector.from_data')
    ctx.analysed(fi)
    if len(fi.params) != 2:
        raise AnalysisError('CliqueVector.from_data: expected the parameters (data, cliques)')
    data, cliques = fi.params
    n = 0
    for loop in [s for s in ast.walk(fi.node) if isinstance(s, (ast.For, ast.DictComp))]:
        if isinstance(loop, ast.DictComp):
            g = loop.generators[0]
            if len(loop.generators) != 1 or U(g.iter) != cliques or not isinstance(g.target, ast.Name) or g.ifs:
                continue
            cl, key, val, where, defs = g.target.id, loop.key, loop.value, loop, Defs([])
        else:
            if U(loop.iter) != cliques or not isinstance(loop.target, ast.Name):
                continue
            cl = loop.target.id
            stores = [s for s in ast.walk(loop) if isinstance(s, ast.Assign) and len(s.targets) == 1 and isinstance(s.targets[0], ast.Subscript)
                      and isinstance(s.targets[0].value, ast.Name) and s in loop.body]
            stores = [s for s in stores if any(isinstance(r, ast.Return) and r.value is not None and s.targets[0].value.id in names_in(r.value)
                                               for r in ast.walk(fi.node))]
            if len(stores) != 1:
                if getattr(fi, 'memo_issues', None):
                    n += 1
                    continue          # a remembered table with a lossy key is left in place and reported as memo-key
                raise AnalysisError('CliqueVector.from_data: the loop over the cliques does not store one table per clique in a recognised form')
            st = stores[0]
            key, val, where = st.targets[0].slice, st.value, st
            defs = Defs(loop.body[:loop.body.index(st)])
        n += 1
        if any(isinstance(x, ast.Subscript) and isinstance(x.ctx, ast.Load) for x in ast.walk(val)) and getattr(fi, 'memo_issues', None):
            continue                  # reads a remembered table whose key was judged lossy: reported as memo-key
        V = expand(val, defs, comps=True)
        ok = False
        why = 'stores `%s`' % U(V)[:90]
        if isinstance(V, ast.Call) and U(V.func).split('.')[-1] == 'Factor' and len(V.args) == 2:
            d, v = V.args
            proj = '%s.project(%s)' % (data, cl)
            if U(d) == proj + '.domain' and U(v) == proj + '.datavector()':
                ok = U(key) == cl
                why = 'entry `%s` <- Factor of %s' % (U(key), proj)
            elif isinstance(d, ast.Attribute) and d.attr == 'domain' and isinstance(v, ast.Call) and U(v.func) == U(d.value) + '.datavector' \
                    and isinstance(d.value, ast.Call) and U(d.value.func) == data + '.project' and len(d.value.args) == 1:
                a = d.value.args[0]
                why = 'entry `%s` <- Factor of %s.project(%s)' % (U(key), data, U(a))
                if U(key) == cl and isinstance(a, ast.Call) and isinstance(a.func, ast.Name) and a.func.id in ('sorted', 'set', 'frozenset') \
                        or (isinstance(a, ast.Call) and U(a.func) in ('%s.domain.canonical' % data,)):
                    ok = False        # recognised: a table in another attribute order than the clique's
                    why += ' - a table in another attribute order than the clique it is stored under'
                elif U(key) == cl and isinstance(a, ast.Call) and isinstance(a.func, ast.Name) and a.func.id in ('tuple', 'list') and len(a.args) == 1 and U(a.args[0]) == cl:
                    ok = True
                else:
                    raise AnalysisError('CliqueVector.from_data: table of `%s` stored under `%s` - not a recognised form' % (U(a), U(key)))
            else:
                raise AnalysisError('CliqueVector.from_data: `%s` is not the contingency table of the projected data in a recognised form' % U(V)[:80])
        else:
            raise AnalysisError('CliqueVector.from_data: `%s` is not a Factor built from the projected data' % U(V)[:80])
        ctx.ob('loss-form', fi, where, ok, 'the marginal handed to the loss for a clique must be the weighted table of that clique in its own attribute order: ' + why,
               construct='table stored per clique in CliqueVector.from_data')
    ctx.floor('per-clique tables built by CliqueVector.from_data', n, 1)


def check_guard(ctx, fi, var):
    loss_fn = fi.params[0]
    loops = [s for s in fi.body if isinstance(s, (ast.For, ast.While))]
    if not loops:
        raise AnalysisError('entropic_mirror_descent: no optimisation loop')
    n = 0
    for loop in loops:
        # definitions inside the loop body (straight-line prefix)
        defs = {}
        for s in loop.body:
            if isinstance(s, ast.Assign):
                for t in s.targets:
                    for nm in target_names(t):
                        defs[nm] = s
            if isinstance(s, ast.AugAssign) and isinstance(s.target, ast.Name):
                defs.setdefault(s.target.id, s)
        for s in ast.walk(loop):
            if isinstance(s, ast.Assign) and var in [x for t in s.targets for x in target_names(t)]:
                n += 1
                guard = getattr(s, '_parent', None)
                in_true = False
                while guard is not None and guard is not loop:
                    if isinstance(guard, ast.If) and any(s is x or s in list(ast.walk(x)) for x in guard.body):
                        in_true = True
                        break
                    guard = getattr(guard, '_parent', None)
                ok, why = False, 'assignment is not inside the true branch of a sufficient-decrease test'
                from ..normalise import Defs, expand
                gtest = None
                if in_true:
                    # only definitions that precede the guard in the loop body may be looked through
                    before = []
                    for b in loop.body:
                        if b is guard or guard in list(ast.walk(b)):
                            break
                        before.append(b)
                    gtest = expand(guard.test, Defs(before), keep=tuple(n for n in names_in(guard.test) if n not in
                                                                        {x for b in before for x in names_assigned(b)}))
                if in_true and isinstance(gtest, ast.Compare) and len(gtest.ops) == 1:
                    t = gtest
                    op = t.ops[0]
                    left, right = t.left, t.comparators[0]
                    if isinstance(op, (ast.LtE, ast.Lt)):
                        left, right, op = right, left, (ast.GtE() if isinstance(op, ast.LtE) else ast.Gt())
                    if isinstance(op, (ast.GtE, ast.Gt)) and isinstance(left, ast.BinOp) and isinstance(left.op, ast.Sub) \
                            and isinstance(left.left, ast.Name) and isinstance(left.right, ast.Name):
                        old, new = left.left.id, left.right.id
                        cand = U(s.value) if len(s.targets) == 1 and isinstance(s.targets[0], ast.Name) else None
                        if len(s.targets) == 1 and isinstance(s.targets[0], ast.Tuple) and isinstance(s.value, ast.Tuple) \
                                and len(s.targets[0].elts) == len(s.value.elts):
                            for tg_, vv_ in zip(s.targets[0].elts, s.value.elts):       # a, b = b, a: the component bound to the iterate
                                if isinstance(tg_, ast.Name) and tg_.id == var:
                                    cand = U(vv_)
                        # new loss must be the loss evaluated at exp(candidate)
                        d = defs.get(new)
                        at = None
                        if d is not None and isinstance(d.value, ast.Call) and U(d.value.func) == loss_fn and d.value.args:
                            at = d.value.args[0]
                            if isinstance(at, ast.Name) and at.id in defs and isinstance(defs[at.id].value, ast.Call):
                                at = defs[at.id].value     # Q = np.exp(logQ)
                        evaluated_at_cand = at is not None and isinstance(at, ast.Call) and at.args and cand is not None \
                            and U(at.args[0]) == cand and U(at.func).endswith('exp')
                        # the recorded loss is updated from the new loss in the same branch
                        upd = False
                        for b in guard.body:
                            if isinstance(b, ast.Assign):
                                tn = [x for tt in b.targets for x in target_names(tt)]
                                if old in tn and new in names_in(b.value):
                                    upd = True
                        old_is_current = old not in defs or defs[old] in list(ast.walk(guard))
                        ok = evaluated_at_cand and upd
                        why = ('guard `%s`: new loss `%s` %s the loss at exp(%s); recorded loss `%s` %s updated in the branch'
                               % (U(t), new, 'is' if evaluated_at_cand else 'is NOT', cand, old, 'is' if upd else 'is NOT'))
                ctx.ob('guarded-replacement', fi, s, ok, why)
    ctx.floor('assignments of the returned iterate inside the loop', n, 1)
    check_iterate_storage(ctx, fi, var, loops)


def check_iterate_storage(ctx, fi, var, loops):
    """the accepted iterate may only change by the guarded replacement: no in-place write (`out=`, `+=`, slice store) may go to an array
    that can be the iterate's own storage.  May-alias classes of the local arrays, iterated around the loop."""
    FRESH_CALLS = ('exp', 'log', 'empty_like', 'zeros_like', 'ones_like', 'copy', 'array', 'zeros', 'ones', 'empty', 'subtract', 'add', 'multiply')

    def fresh(e):
        if isinstance(e, (ast.BinOp, ast.UnaryOp, ast.Constant)):
            return True
        if isinstance(e, ast.Call):
            if any(k.arg == 'out' for k in e.keywords):
                return False
            return U(e.func).split('.')[-1] in FRESH_CALLS or (isinstance(e.func, ast.Attribute) and e.func.attr == 'copy')
        return False

    universe = sorted({n.id for n in ast.walk(fi.node) if isinstance(n, ast.Name) and isinstance(n.ctx, ast.Store)} | set(fi.params))

    def pair(a, b):
        return frozenset((a, b))

    def assign(D, binds):
        """binds: [(name, ('fresh',) | ('name', y) | ('unknown',))], simultaneous.  D: set of must-be-distinct pairs"""
        old = set(D)
        targets = {k for k, _ in binds}
        D -= {p_ for p_ in D if p_ & targets}
        src = dict(binds)

        def origin(n):
            return src[n] if n in src else ('name', n)
        for k, how in binds:
            for z in universe:
                if z == k:
                    continue
                oz = origin(z)
                if how[0] == 'fresh' or oz[0] == 'fresh':
                    ok = True
                elif how[0] == 'unknown' or oz[0] == 'unknown':
                    ok = False
                else:
                    ok = how[1] != oz[1] and pair(how[1], oz[1]) in old
                if ok:
                    D.add(pair(k, z))

    def step(stmts, D, report):
        for st in stmts:
            if isinstance(st, ast.Assign):
                tg = st.targets[0] if len(st.targets) == 1 else None
                pairs_ = []
                if isinstance(tg, ast.Tuple) and isinstance(st.value, ast.Tuple) and len(tg.elts) == len(st.value.elts):
                    pairs_ = list(zip(tg.elts, st.value.elts))
                elif isinstance(tg, ast.Tuple):
                    pairs_ = [(e, None) for e in tg.elts]
                elif tg is not None:
                    pairs_ = [(tg, st.value)]
                binds = []
                for t_, v_ in pairs_:
                    if isinstance(t_, ast.Name):
                        if isinstance(v_, ast.Name):
                            binds.append((t_.id, ('name', v_.id)))
                        elif v_ is not None and fresh(v_):
                            binds.append((t_.id, ('fresh',)))
                        elif v_ is None and isinstance(st.value, ast.Call):
                            binds.append((t_.id, ('fresh',)))          # results of a call unpacked: new objects (loss, gradient)
                        else:
                            binds.append((t_.id, ('unknown',)))
                    elif isinstance(t_, ast.Subscript) and isinstance(t_.value, ast.Name):
                        write(t_.value.id, st, D, report)
                for c in ast.walk(st.value):
                    if isinstance(c, ast.Call):
                        for k in c.keywords:
                            if k.arg == 'out' and isinstance(k.value, ast.Name):
                                write(k.value.id, st, D, report)
                if binds:
                    assign(D, binds)
            elif isinstance(st, ast.AugAssign) and isinstance(st.target, ast.Name):
                write(st.target.id, st, D, report)
            elif isinstance(st, ast.AugAssign) and isinstance(st.target, ast.Subscript) and isinstance(st.target.value, ast.Name):
                write(st.target.value.id, st, D, report)
            elif isinstance(st, ast.Expr):
                for c in ast.walk(st.value):
                    if isinstance(c, ast.Call):
                        for k in c.keywords:
                            if k.arg == 'out' and isinstance(k.value, ast.Name):
                                write(k.value.id, st, D, report)
            elif isinstance(st, ast.If):
                d1, d2 = set(D), set(D)
                step(st.body, d1, report)
                step(st.orelse, d2, report)
                D.clear()
                D |= d1 & d2
            elif isinstance(st, (ast.For, ast.While)):
                for _ in range(6):
                    before = set(D)
                    body_d = set(D)
                    step(st.body, body_d, [])
                    D &= body_d
                    if D == before:
                        break
                step(st.body, set(D), report)

    def write(name, st, D, report):
        if name == var:
            return            # a direct in-place update of the iterate is judged by guarded-replacement / the log-space rules
        if pair(name, var) not in D:
            report.append((st, name))
    report = []
    step(fi.body, set(), report)
    seen = set()
    n = 0
    for st in ast.walk(fi.node):
        wr = None
        if isinstance(st, ast.AugAssign) and isinstance(st.target, ast.Name) and st.target.id != var:
            wr = st.target.id
        elif isinstance(st, ast.Call) and any(k.arg == 'out' and isinstance(k.value, ast.Name) and k.value.id != var for k in st.keywords):
            wr = [k.value.id for k in st.keywords if k.arg == 'out'][0]
        if wr is None or not any(lp is st or st in list(ast.walk(lp)) for lp in loops):
            continue
        n += 1
        bad = [nm for s_, nm in report if s_ is st or st in list(ast.walk(s_))]
        key = (getattr(st, 'lineno', 0), getattr(st, 'col_offset', 0))
        if key in seen:
            continue
        seen.add(key)
        ctx.ob('guarded-replacement', fi, st, not bad,
               'in-place write to `%s`: %s' % (wr, 'a buffer distinct from the iterate `%s`' % var if not bad else
                                              'after an accepted step `%s` and `%s` can be one array, so this write changes the current iterate although the '
                                              'trial step has not been accepted (loss and gradient then belong to another point)' % (var, wr)),
               construct='storage of the iterate vs `%s`' % U(st)[:50])


def check_inputs_unmodified(ctx):
    """The optimiser is handed the engine's current weight vector, which is also the `weights` array of every Dataset the engine has already
    returned (estimate builds them around self.weights without copying).  Any in-place operation that reaches that array - through a
    parameter of entropic_mirror_descent or through state of the engine - rewrites results the caller already holds: their answers then
    sum to the total of a LATER call.  E2 origin analysis over the module: every in-place site acts on arrays of the call."""
    from ..engines.alias import Scope
    scope = Scope(ctx.repo, [PI], {})
    scope.solve()
    n = 0
    seen = set()
    # does the engine hand out its own weight array?  (`Dataset(.., self.weights)` / `return self.weights`; a `.copy()` does not)
    est_ = ctx.repo.nfunc(PI, 'PublicInference.estimate')
    escapes = False
    for r_ in [x for x in ast.walk(est_.node) if isinstance(x, ast.Return) and x.value is not None]:
        for x in ast.walk(r_.value):
            if isinstance(x, ast.Attribute) and U(x) == 'self.weights':
                par_ = getattr(x, '_parent', None)
                copied = isinstance(par_, ast.Attribute) and par_.attr == 'copy' or \
                    (isinstance(par_, ast.Call) and U(par_.func) in ('np.array', 'np.copy', 'numpy.array', 'numpy.copy'))
                if not copied:
                    escapes = True
    if not escapes:
        ctx.note('the engine never hands out its own weight array (results get copies): in-place updates of that array reach no earlier result')
    for (rel, q), summ in scope.summaries.items():
        if rel != PI or q not in ('entropic_mirror_descent', 'PublicInference.estimate', 'estimate_total'):
            continue
        fi = ctx.repo.nfunc(PI, q)
        for site in summ.sites:
            k = (q, getattr(site.node, 'lineno', 0), getattr(site.node, 'col_offset', 0), site.what)
            if k in seen:
                continue
            seen.add(k)
            n += 1
            bad = sorted(t for t in site.origins if t.startswith(('S:', 'P:', 'Pe:')) and not t.endswith(':self'))
            if not escapes:
                # only the engine itself holds the array: writes through `self.weights` / the weight vector handed to the optimiser are its own business
                bad = [t for t in bad if t not in ('S:weights', 'P:x0') and not (q == 'entropic_mirror_descent' and t == 'P:' + fi.params[1])]
            ctx.ob('weights-unshared', fi, site.node, not bad,
                   '%s acts on %s' % (site.what, 'arrays of this call' if not bad else
                                      '%s: the weight vector handed in is the array inside every Dataset returned earlier, which is rewritten' % ', '.join(bad)))
    ctx.counters['in-place sites in the reweighting path'] = n


def names_assigned(stmt):
    out = set()
    for n in ast.walk(stmt):
        if isinstance(n, ast.Name) and isinstance(n.ctx, ast.Store):
            out.add(n.id)
    return out


def check_estimate(ctx, est, emd):
    total = est.params[2] if len(est.params) > 2 else None
    calls = [c for c in calls_in(est.node) if U(c.func) == emd.name]
    if len(calls) != 1 or total is None:
        raise AnalysisError('PublicInference.estimate: expected exactly one call of %s' % emd.name)
    c = calls[0]
    arg = c.args[2] if len(c.args) > 2 else None
    # assignments to total in estimate: only `total = estimate_total(measurements)` under `if total is None`
    ok = arg is not None and U(arg) == total
    bad = []
    for s in ast.walk(est.node):
        if isinstance(s, (ast.Assign, ast.AugAssign)):
            tg = s.targets if isinstance(s, ast.Assign) else [s.target]
            if any(total in target_names(t) for t in tg):
                par = getattr(s, '_parent', None)
                guarded = isinstance(par, ast.If) and U(par.test) in ('%s is None' % total,) and s in par.body
                fine = guarded and isinstance(s, ast.Assign) and isinstance(s.value, ast.Call) \
                    and U(s.value.func) == 'estimate_total' and U(s.value.args[0]) == est.params[1]
                if not fine:
                    bad.append(U(s))
    ctx.ob('total-pass-through', est, c, ok and not bad,
           'the optimiser must receive the caller\'s total (or estimate_total(measurements) when omitted): passes `%s`%s'
           % (U(arg) if arg is not None else None, ('; other assignments: %s' % bad) if bad else ''))
    # the returned dataset
    rets = [r for r in walk_shallow(est.node) if isinstance(r, ast.Return)]
    # self.weights is the optimiser's result: rebound to it, or filled with it in place (`self.weights[:] = ..`: a buffer that stays on the engine)
    w = [s for s in ast.walk(est.node) if isinstance(s, ast.Assign) and U(s.targets[0]) == 'self.weights']
    w_inplace = [s for s in ast.walk(est.node) if isinstance(s, ast.Assign) and isinstance(s.targets[0], ast.Subscript)
                 and U(s.targets[0].value) == 'self.weights' and U(s.targets[0].slice).replace(' ', '') in (':', '...')]
    persistent = bool(w_inplace) or any(isinstance(s, ast.AugAssign) and U(s.target).startswith('self.weights') for s in ast.walk(est.node))
    for r in rets:
        v = r.value
        ok = isinstance(v, ast.Call) and U(v.func) == 'Dataset' and len(v.args) == 3 and \
            U(v.args[0]) == 'self.public_data.df' and U(v.args[1]) == 'self.public_data.domain' and \
            U(v.args[2]).replace(' ', '') in ('self.weights', 'self.weights.copy()', 'np.array(self.weights)', 'np.copy(self.weights)')
        ctx.ob('public-data-unmodified', est, r, ok,
               'must return Dataset(self.public_data.df, self.public_data.domain, self.weights); returns `%s`' % U(v))
        if ok and persistent:
            shared = U(v.args[2]).replace(' ', '') == 'self.weights'
            ctx.ob('public-data-unmodified', est, r, not shared,
                   'self.weights is a buffer that is overwritten in place by every call (`%s`); the returned dataset %s'
                   % (U(w_inplace[0])[:50] if w_inplace else 'in-place update', 'gets its own copy' if not shared else
                      'shares that buffer, so a later estimate() rewrites the weights of datasets returned earlier'),
                   construct='ownership of the returned weights')
    ok = (len(w) == 1 and w[0].value is c and not w_inplace) or (len(w_inplace) == 1 and w_inplace[0].value is c and not w)
    ctx.ob('total-pass-through', est, (w or w_inplace or [est.node])[0], ok, 'self.weights must be exactly the optimiser\'s return value')


def check_unmodified(ctx):
    n = 0
    for name, fi in ctx.repo.nmethods(PI, 'PublicInference').items():
        ctx.analysed(fi)
        # locals that ARE the public dataset (plain aliases, also read by nested functions)
        aliases = {a_.targets[0].id for a_ in ast.walk(fi.node) if isinstance(a_, ast.Assign) and len(a_.targets) == 1
                   and isinstance(a_.targets[0], ast.Name) and U(a_.value) == 'self.public_data'}
        for s in ast.walk(fi.node):
            if aliases and isinstance(s, (ast.Assign, ast.AugAssign)):
                for t in (s.targets if isinstance(s, ast.Assign) else [s.target]):
                    b_ = t
                    while isinstance(b_, (ast.Subscript, ast.Attribute)):
                        b_ = b_.value
                    if isinstance(t, (ast.Subscript, ast.Attribute)) and isinstance(b_, ast.Name) and b_.id in aliases:
                        n += 1
                        ctx.ob('public-data-unmodified', fi, s, False,
                               'store into the public dataset through its alias `%s`: `%s` (the caller\'s Dataset object is changed - its weights, and '
                               'with them its data vector, are those of the last trial afterwards)' % (b_.id, U(t)))
            tgts = []
            if isinstance(s, ast.Assign):
                tgts = s.targets
            elif isinstance(s, (ast.AugAssign, ast.AnnAssign)):
                tgts = [s.target]
            for t in tgts:
                base = t
                while isinstance(base, (ast.Subscript, ast.Attribute)):
                    if U(base).startswith('self.public_data') and not (name == '__init__' and U(t) == 'self.public_data'):
                        n += 1
                        ctx.ob('public-data-unmodified', fi, s, False, 'store into the public dataset: `%s`' % U(t))
                        break
                    base = base.value
            if isinstance(s, ast.Call) and isinstance(s.func, ast.Attribute) and s.func.attr in MUTATORS \
                    and U(s.func.value).startswith('self.public_data'):
                inplace = any(k.arg == 'inplace' and isinstance(k.value, ast.Constant) and k.value.value for k in s.keywords)
                if inplace or s.func.attr in ('insert', 'pop', 'update', '__setitem__', 'append', 'extend'):
                    ctx.ob('public-data-unmodified', fi, s, False, 'mutating call on the public dataset: `%s`' % U(s)[:80])
    init = ctx.repo.nfunc(PI, 'PublicInference.__init__')
    ok = any(isinstance(s, ast.Assign) and U(s.targets[0]) == 'self.public_data' and U(s.value) == init.params[1]
             for s in ast.walk(init.node))
    ctx.ob('public-data-unmodified', init, init.node, ok, 'constructor keeps the caller\'s public dataset object as is',
           construct='self.public_data = ' + init.params[1])


def check_weight_gradient(ctx, est):
    """loss_and_grad: marginals are those of the public records under the candidate weights; d loss / d weight_i is the sum over
    measured cliques of the marginal gradient at record i's cell"""
    inner = [n for n in est.node.body if isinstance(n, ast.FunctionDef)]
    if len(inner) != 1:
        raise AnalysisError('PublicInference.estimate: loss_and_grad closure not found')
    f = inner[0]
    w = f.args.args[0].arg
    defs = {s.targets[0].id: s for s in ast.walk(f) if isinstance(s, ast.Assign) and len(s.targets) == 1 and isinstance(s.targets[0], ast.Name)}
    ds = [s for s in defs.values() if isinstance(s.value, ast.Call) and U(s.value.func) == 'Dataset']
    if not ds:
        # the wrapper may be built once in the enclosing method and only given the candidate weights inside the closure:
        #   est = Dataset(P.df, P.domain)  ...  def loss_and_grad(w): est.weights = w
        outer = [s_ for s_ in est.node.body if isinstance(s_, ast.Assign) and len(s_.targets) == 1 and isinstance(s_.targets[0], ast.Name)
                 and isinstance(s_.value, ast.Call) and U(s_.value.func) == 'Dataset' and len(s_.value.args) == 2]
        sets = [s_ for s_ in f.body if isinstance(s_, ast.Assign) and len(s_.targets) == 1 and isinstance(s_.targets[0], ast.Attribute)
                and s_.targets[0].attr == 'weights' and isinstance(s_.targets[0].value, ast.Name) and U(s_.value) == w]
        if len(outer) == 1 and len(sets) == 1 and sets[0].targets[0].value.id == outer[0].targets[0].id and f.body.index(sets[0]) == 0:
            synth = ast.copy_location(ast.Assign(targets=[ast.Name(id=outer[0].targets[0].id, ctx=ast.Store())],
                                                 value=ast.Call(func=outer[0].value.func, args=list(outer[0].value.args) + [ast.Name(id=w, ctx=ast.Load())], keywords=[])),
                                      sets[0])
            ast.fix_missing_locations(synth)
            ds = [synth]
    if not ds:
        raise AnalysisError('PublicInference.estimate: the candidate marginals in `%s` are not computed from a Dataset of the public records '
                            '(another construction of the weighted marginals and of the gradient pull-back is neither confirmed nor refuted)' % f.name)
    ok = len(ds) == 1 and [U(a) for a in ds[0].value.args] == ['self.public_data.df', 'self.public_data.domain', w]
    if not ok and len(ds) == 1 and len(ds[0].value.args) == 3:
        # the candidate may be built on a column projection of the public data (same records, fewer columns): P.df, P.domain with
        # P = self.public_data.project(...) defined in the enclosing method; a projection that misses a measured attribute raises
        a_df, a_dom, a_w = ds[0].value.args
        if isinstance(a_df, ast.Attribute) and a_df.attr == 'df' and isinstance(a_dom, ast.Attribute) and a_dom.attr == 'domain' \
                and isinstance(a_df.value, ast.Name) and U(a_df.value) == U(a_dom.value) and U(a_w) == w:
            P = a_df.value.id
            pdefs = [s_ for s_ in ast.walk(est.node) if isinstance(s_, ast.Assign) and len(s_.targets) == 1 and U(s_.targets[0]) == P]
            ok = len(pdefs) == 1 and isinstance(pdefs[0].value, ast.Call) and U(pdefs[0].value.func) == 'self.public_data.project'
    ctx.ob('gradient-form', est, ds[0] if ds else f, ok, 'candidate dataset = public records and domain with the candidate weights `%s`' % w)
    est_name = ds[0].targets[0].id if ds else None
    loops = [s for s in f.body if isinstance(s, ast.For)]
    ok = False
    where = f
    if len(loops) == 1 and isinstance(loops[0].target, ast.Name) and est_name:
        cl = loops[0].target.id
        body = loops[0].body
        idx = [s for s in body if isinstance(s, ast.Assign)]
        acc = [s for s in body if isinstance(s, ast.AugAssign)]
        if not (len(idx) == 1 and len(acc) == 1):
            raise AnalysisError('PublicInference.estimate: the pull-back of the marginal gradient onto the records in `%s` is in no recognised form' % f.name)
        if len(idx) == 1 and len(acc) == 1:
            where = acc[0]
            i = idx[0].targets[0].id
            ok = U(idx[0].value) == '%s.project(%s).df.values' % (est_name, cl) and isinstance(acc[0].op, ast.Add) and \
                U(acc[0].value).replace(' ', '') == '%s[%s].values[tuple(%s.T)]' % (U(loops[0].iter), cl, i)
    ctx.ob('gradient-form', est, where, ok,
           'd loss / d weight of a record = sum over measured cliques of the marginal gradient at the record\'s own cell '
           '(cells looked up through the projected frame of the same clique)')

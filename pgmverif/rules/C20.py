"""C20 - selection and noise primitives are exactly calibrated.

For every private-selection primitive (found as the function feeding `choice(n, p=P)` / the permute-and-flip coin):
  logits-calibrated   the logits are affine in the quality vector with coefficient  eps / (2*sensitivity)  -- eps / sensitivity
                      exactly on the configurations where the `monotonic` flag is set -- decided per flag valuation on rational
                      normal forms (not on source text)
  shift-only          every additive term is independent of the quality vector except through scalar reductions of it
                      (max, logsumexp) or is the (log) base measure
  stable              the probabilities are softmax(.) or exp of a shift-normalised quantity (E3): well defined for huge scores
  key-aligned         in dict mode the base-measure vector is built by the same key list as the quality vector
  sensitivity-flag    mwem+pgm's selection uses sensitivity 2 under bounded adjacency, 1 otherwise
  candidate-set       MST.select offers exactly the pairs not yet connected, in every round
  noiseless-limit     a branch of its own for epsilon == inf draws uniformly from the candidates of maximal quality
  forwards-eps        generalized_exponential_mechanism hands its epsilon on unchanged with sensitivity 1
Noise helpers:
  scale-helper        laplace_noise_scale == (2 if bounded else 1) * l1 / eps ;  gaussian_noise_scale == (2 if bounded else 1) * l2 * sigma(eps, delta)
  sampler-identity    gaussian_noise / laplace_noise draw with loc 0 and exactly the scale they are given
  signature-order    established positional parameters keep their positions and defaults
  log-measure        a keyed base measure enters the logits as numpy.log of the weights themselves (0 -> -inf), also when built through a helper
Not decided: the numpy / scipy samplers themselves (trusted).
"""
import ast
import re
import itertools

from . import _logrules as LR
from ..engines.symexec import SymExec, Opaque
from ..engines.logspace import NORM, TOTALNORM
from ..srcmodel import clone, AnalysisError, U, calls_in, walk_shallow, kwarg
from ..symexpr import Alg, Rat, sym, const, Atoms

MECH = 'mechanisms/mechanism.py'
MST = 'mechanisms/mst.py'
AG = 'mechanisms/adaptive_grid.py'
MWEM = 'mechanisms/mwem+pgm.py'

PRIMS = [
    dict(rel=MECH, q='Mechanism.exponential_mechanism', quality='qualities', eps='epsilon', sens='sensitivity',
         flags={'isinstance(qualities, dict)': [True, False], 'base_measure': [None, 'given']}, base='base_measure'),
    dict(rel=MECH, q='Mechanism.permute_and_flip', quality='qualities', eps='epsilon', sens='sensitivity', flags={},
         params={'qualities', 'epsilon', 'sensitivity'}),
    dict(rel=MST, q='exponential_mechanism', quality='q', eps='eps', sens='sensitivity', flags={'monotonic': [True, False]},
         params={'q', 'eps', 'sensitivity', 'prng', 'monotonic'}),
    dict(rel=AG, q='exponential_mechanism', quality='q', eps='eps', sens='sensitivity', flags={'monotonic': [True, False]},
         params={'q', 'eps', 'sensitivity', 'prng', 'monotonic'}),
    dict(rel=MWEM, q='worst_approximated', quality='errors', eps='eps', sens=None,
         flags={'bounded': [True, False], 'penalty': [True, False]}, params={'workload_answers', 'est', 'workload', 'eps', 'penalty', 'bounded'}),
]


def vec_hook(call, ex):
    """scalar reductions and wrappers of vectors for the calibration dialect"""
    f = call.func
    name = U(f)
    if isinstance(f, ast.Attribute) and f.attr in ('max', 'min') and not call.args and not call.keywords:
        v = ex.value(f.value)
        if isinstance(v, Alg):
            return sym('%s(%s)' % (f.attr, v))
    if name.split('.')[-1] == 'logsumexp' and len(call.args) == 1 and not call.keywords:
        v = ex.value(call.args[0])
        if isinstance(v, Alg):
            return sym('lse(%s)' % v)
    if name in ('np.array', 'np.asarray', 'numpy.array') and len(call.args) == 1 and isinstance(call.args[0], ast.Name):
        return ex.value(call.args[0])
    if name in ('np.log', 'numpy.log') and len(call.args) == 1 and isinstance(call.args[0], ast.Name):
        v = ex.env.get(call.args[0].id)
        if isinstance(v, Opaque):
            return sym('log(%s)' % call.args[0].id)
        if isinstance(v, Alg) and v.is_rat() and len(v.rat().symbols()) == 1 and v.eq(sym(list(v.rat().symbols())[0])):
            return sym('log(%s)' % list(v.rat().symbols())[0])      # a plain copy / array view of a vector
    return None


def find_logits(ex, fi):
    """-> (logits expr, how, site) from the executed path's definitions"""
    # choice(n, p=P)
    for c in calls_in(fi.node):
        if isinstance(c.func, ast.Attribute) and c.func.attr == 'choice':
            p = kwarg(c, 'p', 3)
            if p is None:
                continue
            return unwrap_prob(resolve(p, ex), ex), c
    # permute-and-flip: rand() <= p[i]
    for n in walk_shallow(fi.node):
        if isinstance(n, ast.Compare) and len(n.ops) == 1 and isinstance(n.ops[0], (ast.LtE, ast.Lt)) \
                and isinstance(n.left, ast.Call) and U(n.left.func).endswith('rand') and isinstance(n.comparators[0], ast.Subscript):
            pv = n.comparators[0].value
            pe = ex.defs.get(pv.id) if isinstance(pv, ast.Name) else pv
            return unwrap_prob(pe, ex), n
    raise AnalysisError('%s: no choice(p=...) / permute-and-flip coin found' % fi.qualname)


def resolve(e, ex, skip=0):
    """definition of a name on the executed path (skip = how many most recent definitions to ignore)"""
    seen = 0
    while isinstance(e, ast.Name) and seen < 8:
        h = ex.def_history.get(e.id, [])
        if len(h) > skip:
            e = h[len(h) - 1 - skip]
            skip = 0
            seen += 1
        else:
            return None if seen == 0 else e
    return e


def unwrap_prob(pe, ex):
    # X / X.sum(): explicit renormalisation of a positive vector
    if isinstance(pe, ast.BinOp) and isinstance(pe.op, ast.Div) and isinstance(pe.right, ast.Call) \
            and isinstance(pe.right.func, ast.Attribute) and pe.right.func.attr == 'sum' \
            and U(pe.right.func.value) == U(pe.left):
        inner = resolve(pe.left, ex, skip=1 if isinstance(pe.left, ast.Name) and ex.defs.get(pe.left.id) is pe else 0)
        return unwrap_prob(inner, ex)
    if pe is None:
        raise AnalysisError('probability vector has no definition on the executed path')
    # np.clip(P, 0, 1): round-off kept inside [0, 1]; a probability vector is unchanged by it
    if isinstance(pe, ast.Call) and U(pe.func).split('.')[-1] == 'clip' and len(pe.args) == 3 and not pe.keywords \
            and U(pe.args[1]) in ('0', '0.0') and U(pe.args[2]) in ('1', '1.0'):
        x = pe.args[0]
        inner = resolve(x, ex, skip=1 if isinstance(x, ast.Name) and ex.defs.get(x.id) is pe else 0)
        return unwrap_prob(inner, ex)
    # a module-level helper with a single return: inline its body (normalize(logits) -> exp(logits)/sum ...)
    if isinstance(pe, ast.Call) and isinstance(pe.func, ast.Name) and pe.func.id in ex.fi.module.funcs:
        h = ex.fi.module.funcs[pe.func.id]
        rets = [r for r in walk_shallow(h.node) if isinstance(r, ast.Return)]
        if len(rets) == 1 and len(h.params) == len(pe.args):
            import copy
            mapping = dict(zip(h.params, pe.args))
            hdefs = {}
            for st_ in h.body:
                if isinstance(st_, ast.Assign) and len(st_.targets) == 1 and isinstance(st_.targets[0], ast.Name):
                    hdefs[st_.targets[0].id] = st_.value

            class Sub(ast.NodeTransformer):
                def visit_Name(self, node):
                    if node.id in mapping:
                        return clone(mapping[node.id])
                    if node.id in hdefs:
                        return self.visit(clone(hdefs[node.id]))
                    return node
            return unwrap_prob(Sub().visit(clone(rets[0].value)), ex)
    # X / np.sum(X) or X / X.sum() after inlining
    if isinstance(pe, ast.BinOp) and isinstance(pe.op, ast.Div) and isinstance(pe.right, ast.Call) and \
            U(pe.right.func).split('.')[-1] == 'sum' and pe.right.args and U(pe.right.args[0]) == U(pe.left):
        return unwrap_prob(pe.left, ex)
    if isinstance(pe, ast.Call) and U(pe.func).split('.')[-1] == 'softmax' and pe.args:
        return pe.args[0], 'softmax'
    if isinstance(pe, ast.Call) and U(pe.func).split('.')[-1] == 'exp' and pe.args:
        a = pe.args[0]
        if isinstance(a, ast.Name):
            a = resolve(a, ex) or a
        if isinstance(a, ast.BinOp) and isinstance(a.op, ast.Sub) and isinstance(a.right, ast.Call) \
                and U(a.right.func).split('.')[-1] == 'logsumexp' and U(a.right.args[0]) == U(a.left):
            return a.left, 'exp(s - logsumexp(s))'
        return a, 'exp'
    raise AnalysisError('unrecognised probability construction `%s`' % U(pe)[:80])


def run(ctx):
    repo = ctx.repo
    ctx.explanation = (
        'Calibration forms: each selection primitive is propagated symbolically (constant propagation with flag '
        'specialisation) and its logits are normalised to a rational function of the quality vector; the coefficient must be '
        'eps/(2*sensitivity) (eps/sensitivity only under `monotonic`). Noise-scale helpers are normalised per `bounded` value; '
        'samplers are checked for identity dataflow of the scale. E3 decides stability for huge scores.')
    ctx.rule_text = 'one obligation per (primitive, flag valuation) for calibration and shift, per exp/softmax site, per helper and flag value'
    ctx.trusted = ['numpy/scipy samplers and softmax', 'positive eps and sensitivity']
    n_sites = 0
    for spec in PRIMS:
        fi = repo.nfunc(spec['rel'], spec['q'])
        ctx.analysed(fi)
        keys = sorted(spec['flags'])
        for combo in itertools.product(*[spec['flags'][k] for k in keys]):
            flags = dict(zip(keys, combo))
            check_primitive(ctx, fi, spec, flags)
            n_sites += 1
        an, n = LR.L1(ctx, fi, rule='stable')
    ctx.floor('(primitive, configuration) pairs', n_sites, 10)
    check_key_alignment(ctx)
    from .C15 import none_tests_of
    none_tests_of(ctx, [repo.nfunc(sp['rel'], sp['q']) for sp in PRIMS] + [repo.nfunc(MECH, 'Mechanism.generalized_exponential_mechanism')],
                  what='the legal value 0 (e.g. slack t = 0)')
    check_gem(ctx)
    check_helpers(ctx)
    check_inputs_unmodified(ctx)
    check_signatures(ctx)
    check_pareto(ctx)
    for spec in PRIMS:
        check_noiseless_limit(ctx, repo.func(spec['rel'], spec['q']), spec)
    check_mst_candidates(ctx)
    for spec in PRIMS:
        check_tie_fast_path(ctx, repo.func(spec['rel'], spec['q']), spec)


# positional parameters of the selection / noise primitives as callers know them: (name, default or None)
ESTABLISHED_SIGNATURES = {
    (MECH, 'Mechanism.generalized_exponential_mechanism'): [('qualities', None), ('sensitivities', None), ('epsilon', None), ('t', 'None'),
                                                           ('base_measure', 'None')],
    (MECH, 'Mechanism.permute_and_flip'): [('qualities', None), ('epsilon', None), ('sensitivity', '1.0')],
    (MECH, 'Mechanism.exponential_mechanism'): [('qualities', None), ('epsilon', None), ('sensitivity', '1.0'), ('base_measure', 'None')],
    (MECH, 'Mechanism.gaussian_noise_scale'): [('l2_sensitivity', None), ('epsilon', None), ('delta', None)],
    (MECH, 'Mechanism.laplace_noise_scale'): [('l1_sensitivity', None), ('epsilon', None)],
    (MECH, 'Mechanism.gaussian_noise'): [('sigma', None), ('size', None)],
    (MECH, 'Mechanism.laplace_noise'): [('b', None), ('size', None)],
    (MST, 'exponential_mechanism'): [('q', None), ('eps', None), ('sensitivity', None), ('prng', 'np.random'), ('monotonic', 'False')],
    (AG, 'exponential_mechanism'): [('q', None), ('eps', None), ('sensitivity', None), ('prng', 'np.random'), ('monotonic', 'False')],
    (MWEM, 'worst_approximated'): [('workload_answers', None), ('est', None), ('workload', None), ('eps', None), ('penalty', 'True'),
                                   ('bounded', 'False')],
}


def check_signatures(ctx):
    """A positional call written against the established signature must still bind every value to the parameter it was meant for: the
    established parameters keep their positions (new ones come after them or are keyword-only) and the defaults they had (a parameter
    that had none may gain one).  A generator landing in `monotonic` is truthy and silently halves the noise scale of the selection."""
    repo = ctx.repo
    n = 0
    for (rel, q), want in ESTABLISHED_SIGNATURES.items():
        if not repo.exists(rel):
            continue
        try:
            fi = repo.func(rel, q)
        except AnalysisError:
            raise AnalysisError('anchor vanished: %s:%s' % (rel, q))
        a = fi.node.args
        pos = [x.arg for x in a.posonlyargs + a.args]
        if pos and pos[0] == 'self':
            pos = pos[1:]
        defaults = {k: U(v) for k, v in fi.defaults().items()}
        bad = []
        for i, (p, d) in enumerate(want):
            if p not in pos:
                continue                      # removed / renamed / keyword-only: a call that used it fails loudly or still binds by name
            if pos.index(p) != i:
                bad.append('`%s` moved from position %d to %d' % (p, i + 1, pos.index(p) + 1))
            elif d is not None and defaults.get(p, '<none>').replace(' ', '') != d:
                bad.append('default of `%s` changed from %s to %s' % (p, d, defaults.get(p, '<none>')))
        n += 1
        ctx.ob('signature-order', fi, fi.node, not bad,
               '%s: positional callers bind (%s); %s' % (q, ', '.join(p for p, _ in want), '; '.join(bad) or 'positions and defaults kept'),
               construct='signature of ' + q)
    ctx.counters['signatures'] = n


def check_tie_fast_path(ctx, fi, spec):
    """`if not q.any(): p = uniform` - all (shifted) qualities are zero, the softmax of zeros is the uniform distribution.  That is the mechanism's
    own answer only when nothing else enters the exponent: with a base measure the distribution at a tie is proportional to the BASE MEASURE, so
    the shortcut must be taken only when there is none (`base_measure is None and not q.any()`)."""
    has_base = 'base_measure' in fi.params
    for n in ast.walk(fi.node):
        if not isinstance(n, ast.If):
            continue
        parts = n.test.values if isinstance(n.test, ast.BoolOp) and isinstance(n.test.op, ast.And) else [n.test]
        pt = [U(x).replace(' ', '') for x in parts]
        ties = [x for x in pt if re.fullmatch(r'not\w+\.any\(\)|notnp\.any\(\w+\)|\(\w+==0\)\.all\(\)|np\.all\(\w+==0\)', x)]
        if not ties:
            continue
        uniform = any(isinstance(a, ast.Assign) and re.fullmatch(r'np\.full\((\w+)\.size,1(\.0)?/\1\.size\)|np\.ones\((\w+)\.size\)/\3\.size', U(a.value).replace(' ', ''))
                      for a in n.body)
        if not uniform:
            raise AnalysisError('%s: a branch for tied qualities (`%s`) that does not bind the uniform distribution' % (fi.qualname, U(n.test)[:60]))
        guarded = (not has_base) or any(x in ('base_measureisNone', 'base_measure==None') for x in pt)
        ctx.ob('proportional', fi, n, guarded, 'tied qualities answered by the uniform distribution: the mechanism\'s own answer at a tie is proportional to the base measure, '
               'so the shortcut needs `base_measure is None` as well; the test is `%s`%s' % (U(n.test)[:70], '' if guarded else
               ' - with a base measure a candidate of weight 0 now gets probability 1/n'), construct='tie shortcut of ' + fi.name)


def check_mst_candidates(ctx):
    """MST.select offers the exponential mechanism, in every round, exactly the attribute pairs that are NOT YET CONNECTED in the tree grown so far.
    Recognised: the candidate list re-filtered with the union-find before every selection; or filtered once before the loop and, after every
    accepted edge, reduced by the pairs that lie INSIDE the component just formed (or re-filtered in full).  Reported: a reduction that only looks
    at pairs touching the two endpoints of the new edge - a pair joining two OTHER members of the merged components stays a candidate."""
    if not ctx.repo.has_func(MST, 'select'):
        raise AnalysisError('anchor vanished: mst.select')
    fi = ctx.repo.func(MST, 'select')
    ctx.analysed(fi)
    loops = [l for l in ast.walk(fi.node) if isinstance(l, (ast.For, ast.While)) and any(isinstance(c, ast.Call) and U(c.func).split('.')[-1] == 'exponential_mechanism'
                                                                                           for c in ast.walk(l))]
    if len(loops) != 1:
        raise AnalysisError('mst.select: the selection loop was not found')
    lp = loops[0]
    em_stmt = next(i for i, st in enumerate(lp.body) if any(isinstance(c, ast.Call) and U(c.func).split('.')[-1] == 'exponential_mechanism' for c in ast.walk(st)))
    FULL = re.compile(r'\[(\w+)for\1in(\w+)ifnot(\w+)\.connected\(\*\1\)\]')

    def filt(st):
        return isinstance(st, ast.Assign) and len(st.targets) == 1 and isinstance(st.targets[0], ast.Name) and isinstance(st.value, ast.ListComp)
    before = [st for st in lp.body[:em_stmt] if filt(st) and FULL.fullmatch(U(st.value).replace(' ', ''))]
    if before:
        ctx.ob('candidate-set', fi, before[0], True, 'the candidates are re-filtered with the union-find before every selection')
        return
    pre = [st for st in fi.body if filt(st) and FULL.fullmatch(U(st.value).replace(' ', '')) and st.lineno < lp.lineno]
    after = [st for st in lp.body[em_stmt + 1:] if filt(st)]
    if not pre or len(after) != 1:
        raise AnalysisError('mst.select: how the candidate pairs are kept up to date is in no recognised form')
    t = U(after[0].value).replace(' ', '')
    comp = {a.targets[0].id for a in lp.body if isinstance(a, ast.Assign) and len(a.targets) == 1 and isinstance(a.targets[0], ast.Name)
            and isinstance(a.value, ast.Call) and U(a.value.func).split('.')[-1] == 'node_connected_component'}
    inside = any(re.fullmatch(r'\[(\w+)for\1in\w+ifnot\(\1\[0\]in%s and\1\[1\]in%s\)\]'.replace(' ', '') % (m, m), t) or
                 re.fullmatch(r'\[(\w+)for\1in\w+if\1\[0\]notin%sor\1\[1\]notin%s\]' % (m, m), t) for m in comp)
    full = FULL.fullmatch(t) is not None
    touching = re.search(r'\(\w+in\w+or\w+in\w+\)and\w+\.connected\(', t) is not None
    if not (inside or full or touching):
        raise AnalysisError('mst.select: the candidates are reduced by `%s`, which is in no recognised form' % U(after[0].value)[:80])
    ctx.ob('candidate-set', fi, after[0], inside or full,
           'after an edge is accepted every pair that has become connected leaves the candidate list%s' % ('' if inside or full else
           '; the source only drops pairs TOUCHING the new edge\'s endpoints: when two components of several attributes are merged, a pair of their other '
           'members stays a candidate, keeps probability mass and can be selected (a cycle)'), construct='candidate pairs after a merge')


def check_noiseless_limit(ctx, fi, spec):
    """An exponential mechanism that answers an infinite epsilon in a branch of its own (instead of letting the softmax saturate) must draw from
    the LIMIT of the distribution it implements: uniform over the candidates of maximal quality.  Recognised: `p = (q == q.max())` as floats,
    divided by its sum.  Reported: all the mass on `q.argmax()` (the FIRST maximiser - ties are then never chosen, unlike at any finite
    epsilon) or a bare `return q.argmax()`.  No such branch: nothing to check."""
    q, eps = spec['quality'], spec['eps']
    for n in ast.walk(fi.node):
        if not (isinstance(n, ast.If) and isinstance(n.test, ast.Compare) and len(n.test.ops) == 1 and isinstance(n.test.ops[0], ast.Eq)):
            continue
        sides = [U(n.test.left), U(n.test.comparators[0])]
        if eps not in sides or not any(x in ('np.inf', 'numpy.inf', 'math.inf', "float('inf')") for x in sides):
            continue
        rets = [r for st in n.body for r in ast.walk(st) if isinstance(r, ast.Return) and r.value is not None]
        if not rets:
            continue          # the branch only adjusts epsilon and falls through to the softmax
        defs = {}
        for st in n.body:
            for a in ast.walk(st):
                if isinstance(a, ast.Assign) and len(a.targets) == 1 and isinstance(a.targets[0], ast.Name):
                    defs.setdefault(a.targets[0].id, []).append(a.value)
        stores = [a for st in n.body for a in ast.walk(st) if isinstance(a, ast.Assign) and isinstance(a.targets[0], ast.Subscript)]
        for r in rets:
            v = r.value
            t = U(v).replace(' ', '')
            if t in ('%s.argmax()' % q, 'np.argmax(%s)' % q):
                ctx.ob('noiseless-limit', fi, r, False, 'the limit of the mechanism for an infinite epsilon is uniform over the candidates of maximal quality; '
                       '`%s` always answers the first of them' % U(v), construct='infinite-epsilon branch of ' + fi.name)
                continue
            p = next((k.value for k in v.keywords if k.arg == 'p'), None) if isinstance(v, ast.Call) and U(v.func).endswith('choice') else None
            if p is None:
                raise AnalysisError('%s: the infinite-epsilon branch returns `%s`, which is in no recognised form' % (fi.qualname, U(v)[:80]))
            normalised = False
            if isinstance(p, ast.BinOp) and isinstance(p.op, ast.Div) and U(p.right).replace(' ', '') in ('%s.sum()' % U(p.left), 'np.sum(%s)' % U(p.left)):
                p, normalised = p.left, True
            base = defs.get(p.id, [None])[0] if isinstance(p, ast.Name) and len(defs.get(p.id, [])) == 1 else p
            bt = U(base).replace(' ', '') if base is not None else ''
            maxq = ('%s==%s.max()' % (q, q), '%s==np.max(%s)' % (q, q), '%s>=%s.max()' % (q, q))
            indicator = any(bt in ('(%s).astype(float)' % m, '(%s)*1.0' % m, 'np.where(%s,1.0,0.0)' % m, '(%s).astype(np.float64)' % m) for m in maxq)
            onehot = bt in ('np.zeros(%s.size)' % q, 'np.zeros(len(%s))' % q, 'np.zeros_like(%s)' % q, 'np.zeros_like(%s,dtype=float)' % q) and any(
                isinstance(a.targets[0].value, ast.Name) and isinstance(p, ast.Name) and a.targets[0].value.id == p.id and
                U(a.targets[0].slice).replace(' ', '') in ('%s.argmax()' % q, 'np.argmax(%s)' % q) for a in stores)
            if indicator:
                ctx.ob('noiseless-limit', fi, r, normalised, 'infinite epsilon: uniform over the candidates of maximal quality (`%s`%s)'
                       % (U(base)[:60], ', normalised' if normalised else ', NOT normalised: the probabilities do not sum to one when qualities tie'),
                       construct='infinite-epsilon branch of ' + fi.name)
            elif onehot:
                ctx.ob('noiseless-limit', fi, r, False, 'the limit of the mechanism for an infinite epsilon is uniform over the candidates of maximal quality; '
                       'the source puts all the mass on `%s.argmax()`, the FIRST of them: tied candidates are never chosen, unlike at any finite epsilon' % q,
                       construct='infinite-epsilon branch of ' + fi.name)
            else:
                raise AnalysisError('%s: the distribution drawn from in the infinite-epsilon branch, `%s`, is in no recognised form' % (fi.qualname, U(base)[:80]))


def check_pareto(ctx):
    """pareto_efficient(costs) limits which candidates a generalized-exponential-mechanism score is compared against: the points no other
    point beats in BOTH cost columns.  Recognised: the shrinking-mask loop of the original; or, for two columns, a sweep in lexicographic
    order - sorted primarily by one column (numpy.lexsort sorts by its LAST key first), a point is kept iff its value in the OTHER column
    is below the running minimum of the points before it.  Sorting primarily by the very column the sweep compares collapses the front to
    (almost) a single point."""
    if not ctx.repo.has_func(MECH, 'pareto_efficient'):
        raise AnalysisError('anchor vanished: pareto_efficient')
    fi = ctx.repo.func(MECH, 'pareto_efficient')
    ctx.analysed(fi)
    c = fi.params[0]
    src = U(fi.node)
    from ..srcmodel import alpha_text
    loops = [x for x in ast.walk(fi.node) if isinstance(x, ast.For)]
    if loops:
        # the original: for i, c_ in enumerate(costs): if eff[i]: eff[eff] = np.any(costs[eff] <= c_, axis=1)
        stores = [a_ for a_ in ast.walk(loops[0]) if isinstance(a_, ast.Assign) and isinstance(a_.targets[0], ast.Subscript)]
        val = stores[0].value if len(stores) == 1 else None
        cmp_ = None
        if len(loops) == 1 and isinstance(val, ast.Call) and U(val.func) in ('np.any', 'numpy.any') and len(val.args) == 1 and isinstance(val.args[0], ast.Compare) \
                and len(val.args[0].ops) == 1 and any(k.arg == 'axis' and U(k.value) == '1' for k in val.keywords):
            l_, op_, r_ = val.args[0].left, val.args[0].ops[0], val.args[0].comparators[0]
            FLIP = {ast.LtE: ast.GtE, ast.GtE: ast.LtE, ast.Lt: ast.Gt, ast.Gt: ast.Lt}
            if U(r_).replace(' ', '').startswith(c + '[') and type(op_) in FLIP:
                l_, op_, r_ = r_, FLIP[type(op_)](), l_
            if U(l_).replace(' ', '').startswith(c + '[') and isinstance(r_, ast.Name):
                cmp_ = type(op_)
        if cmp_ is None:
            raise AnalysisError('pareto_efficient: the mask loop is in no recognised form')
        ctx.ob('pareto-front', fi, stores[0], cmp_ is ast.LtE, 'shrinking-mask loop: a point stays while some cost of it is <= the pivot\'s (the pivot itself '
               'included); the source compares with `%s`' % {ast.LtE: '<=', ast.Lt: '<', ast.GtE: '>=', ast.Gt: '>'}.get(cmp_, '?'))
        return
    ls = [x for x in ast.walk(fi.node) if isinstance(x, ast.Call) and U(x.func) in ('np.lexsort', 'numpy.lexsort') and len(x.args) == 1
          and isinstance(x.args[0], (ast.Tuple, ast.List)) and len(x.args[0].elts) == 2]
    if len(ls) != 1:
        raise AnalysisError('pareto_efficient: neither the mask loop nor a lexicographic sweep')
    import re
    keys = [U(k).replace(' ', '') for k in ls[0].args[0].elts]
    col = lambda t: (re.fullmatch(re.escape(c) + r'\[:,(\d)\]', t) or [None, None])[1]
    k0, k1 = col(keys[0]), col(keys[1])
    if k0 is None or k1 is None or {k0, k1} != {'0', '1'}:
        raise AnalysisError('pareto_efficient: lexsort keys `%s` are in no recognised form' % keys)
    primary = k1                       # the LAST key is the primary sort key
    order = [a_.targets[0].id for a_ in ast.walk(fi.node) if isinstance(a_, ast.Assign) and a_.value is ls[0] and isinstance(a_.targets[0], ast.Name)]
    if not order:
        raise AnalysisError('pareto_efficient: the sort order is not kept in a local')
    swept = [re.fullmatch(re.escape(c) + r'\[' + order[0] + r',(\d)\]', U(a_.value).replace(' ', '')) for a_ in ast.walk(fi.node) if isinstance(a_, ast.Assign)]
    swept = [m_.group(1) for m_ in swept if m_]
    acc = [x for x in ast.walk(fi.node) if isinstance(x, ast.Call) and U(x.func) in ('np.minimum.accumulate', 'numpy.minimum.accumulate')]
    if len(swept) != 1 or len(acc) != 1:
        raise AnalysisError('pareto_efficient: the sweep over the sorted points is in no recognised form')
    strict = any(isinstance(x, ast.Compare) and isinstance(x.ops[0], ast.Lt) for x in ast.walk(fi.node))
    ctx.ob('pareto-front', fi, ls[0], swept[0] != primary and strict,
           'sweep in lexicographic order: sorted primarily by column %s (the last key of lexsort), a point is kept iff its column-%s cost is strictly below the '
           'running minimum before it%s' % (primary, swept[0], '' if swept[0] != primary else
           ': the sweep compares the very column the points are sorted by, so only the first point of the order survives (plus ties) - the front '
           'collapses and the scores are compared against the wrong candidates'), construct='lexicographic sweep of pareto_efficient')


def check_primitive(ctx, fi, spec, flags):
    ex = SymExec(fi, flags=flags, call_hook=vec_hook, vectors=True)
    ex.ssa = True
    known = spec.get('params')
    for p in fi.params:
        if p != 'self':
            ex.env[p] = sym(p) if p in (spec['eps'], spec['sens'], 'sensitivity') else Opaque(p, 'param')
            d_ = fi.defaults().get(p)
            if known is not None and p not in known and isinstance(d_, ast.Constant) and isinstance(d_.value, (int, float)) and not isinstance(d_.value, bool):
                # an optional parameter added later: the primitive is judged in its default configuration (what a caller passes is the caller's)
                from ..symexpr import const as _const
                ex.env[p] = _const(d_.value)
    if spec.get('base') and flags.get(spec['base']) is None and spec.get('base') in flags:
        ex.env.pop(spec['base'], None)
    # optional overrides (`sensitivity=None`: "use the built-in value"): the primitive is judged in its default configuration here,
    # what a caller passes explicitly is judged at the call site by the budget analysis (C05)
    for p_, d_ in fi.defaults().items():
        if isinstance(d_, ast.Constant) and d_.value is None and p_ not in flags and p_ not in (spec['eps'], spec['quality'], spec.get('base')) \
                and p_ in ('sensitivity',):
            ex.flags[p_] = None
            ex.env.pop(p_, None)
    ex.run()
    (lexpr, how), site = find_logits(ex, fi)
    label = ', '.join('%s=%s' % kv for kv in sorted(flags.items())) or 'default'
    L = ex.value(lexpr)
    if not isinstance(L, Alg) or not L.is_rat():
        raise AnalysisError('%s [%s]: logits `%s` are outside the calibration dialect' % (fi.qualname, label, U(lexpr)[:60]))
    L = L.rat()
    # the quality symbol: follow the quality variable to its symbol
    qv = ex.env.get(spec['quality'])
    qsym = spec['quality']
    if isinstance(qv, Alg) and qv.is_rat() and len(qv.rat().symbols()) == 1 and qv.eq(sym(list(qv.rat().symbols())[0])):
        qsym = list(qv.rat().symbols())[0]      # the quality vector is a plain copy / array view of another local
    if qsym not in L.symbols():
        # the quality vector lives in a local of another name: it is the vector symbol the shift `max(.)` / `lse(.)` refers to, or the only
        # symbol of the logits that is neither the budget nor the sensitivity
        syms = set(L.symbols())
        shifted = {x[4:-1] for x in syms if x.startswith(('max(', 'lse(', 'min(')) and x.endswith(')')} & syms
        others = {x for x in syms if x.split('@')[0] not in (spec['eps'], spec['sens'], 'sensitivity', spec.get('base'))
                  and not x.startswith(('max(', 'min(', 'lse(', 'log('))}
        if len(shifted) == 1:
            qsym = shifted.pop()
        elif len(others) == 1:
            qsym = others.pop()
    coef = L.diff(qsym)
    linear = qsym not in coef.symbols()
    eps = ex.env.get(spec['eps'])
    if spec['sens'] is not None:
        sens = ex.env.get(spec['sens'])
    else:
        sens = ex.env.get('sensitivity')
        if not isinstance(sens, Alg) and isinstance(eps, Alg) and linear and not coef.iszero():
            # the primitive computes its own sensitivity in a local (whatever it is called): read it off the coefficient eps/(2*sens)
            sens = Alg(eps.rat() / (Rat.const(2) * coef))
    if not isinstance(eps, Alg) or not isinstance(sens, Alg):
        raise AnalysisError('%s [%s]: eps / sensitivity not scalar' % (fi.qualname, label))
    want = eps.rat() / sens.rat() if flags.get('monotonic') else eps.rat() / (Rat.const(2) * sens.rat())
    ctx.ob('logits-calibrated', fi, site, linear and coef.eq(want),
           '[%s] d logits / d quality = %r; required %r (%s)' % (label, coef, want,
                                                                  'monotonic: eps/sensitivity' if flags.get('monotonic') else 'eps/(2*sensitivity)'),
           construct='%s [%s]' % (U(lexpr)[:70], label))
    rest = L - coef * Rat.sym(qsym)
    allowed_prefix = ('max(', 'min(', 'lse(', 'log(')
    bad = []
    for s in rest.symbols():
        base = s.split('@')[0]
        if base in (spec['eps'], spec['sens'], 'sensitivity', 'coef') or s.startswith(allowed_prefix):
            continue
        if spec.get('base') and base == spec['base']:
            continue
        bad.append(s)
    ctx.ob('shift-only', fi, site, not bad and qsym not in rest.symbols(),
           '[%s] additive part of the logits: %r%s' % (label, rest, ('; unexpected terms: %s' % bad) if bad else ''),
           construct='shift of %s [%s]' % (U(lexpr)[:60], label))
    if spec['q'] == 'worst_approximated':
        want_s = Rat.const(2 if flags.get('bounded') else 1)
        ctx.ob('sensitivity-flag', fi, site, sens.rat().eq(want_s),
               '[%s] the L1 error of a marginal changes by at most %s between neighbours; the selection uses sensitivity %r'
               % (label, '2 (replace one record)' if flags.get('bounded') else '1 (add/remove one record)', sens),
               construct='sensitivity [%s]' % label)


def check_key_alignment(ctx):
    fi = ctx.repo.nfunc(MECH, 'Mechanism.exponential_mechanism')
    qual, base = 'qualities', 'base_measure'
    comps = {}
    for s in walk_shallow(fi.node):
        if isinstance(s, ast.Assign) and len(s.targets) == 1 and isinstance(s.targets[0], ast.Name) \
                and s.targets[0].id in (qual, base):
            for n in ast.walk(s.value):
                if isinstance(n, ast.ListComp):
                    comps.setdefault(s.targets[0].id, []).append((s, n))
            if s.targets[0].id == base and not any(isinstance(n, ast.ListComp) for n in ast.walk(s.value)) \
                    and any(isinstance(n, ast.Call) and isinstance(n.func, ast.Attribute) and n.func.attr == 'values'
                            for n in ast.walk(s.value)):
                ctx.ob('key-aligned', fi, s, False,
                       'base-measure vector taken from dict.values(): paired with the qualities by position, not by key')
    if qual not in comps:
        raise AnalysisError('exponential_mechanism: dict-mode quality vector construction not found')
    sq, cq = comps[qual][0]
    it_q = U(cq.generators[0].iter)
    ok_q = U(cq.elt) == '%s[%s]' % (qual, U(cq.generators[0].target))
    ctx.ob('key-aligned', fi, sq, ok_q, 'quality vector must be [qualities[key] for key in <keys>]')
    for sb, cb in comps.get(base, []) + base_vectors(fi, base, [id(x[1]) for x in comps.get(base, [])]):
        ok = U(cb.generators[0].iter) == it_q and U(cb.elt) == '%s[%s]' % (base, U(cb.generators[0].target)) \
            and not cb.generators[0].ifs
        ctx.ob('key-aligned', fi, sb, ok,
               'base-measure vector must be indexed by the same key list `%s` as the quality vector' % it_q)
    for q in ('Mechanism.exponential_mechanism', 'Mechanism.generalized_exponential_mechanism'):
        check_log_measure(ctx, ctx.repo.nfunc(MECH, q), base)
    # the returned key comes from the same list
    rets = [r for r in walk_shallow(fi.node) if isinstance(r, ast.Return)]
    for r in rets:
        ok = isinstance(r.value, ast.Subscript) and U(r.value.value) == it_q
        ctx.ob('key-aligned', fi, r, ok, 'the selected index must be mapped back through the same key list')


def expanded_value(fi, stmt):
    """the value assigned by `stmt` with the locals of its own block that were assigned just before it substituted (helper bodies that
    the front end inlined leave such temporaries behind)"""
    from ..srcmodel import clone
    par = getattr(stmt, '_parent', None)
    block = None
    for f in ('body', 'orelse'):
        b = getattr(par, f, None)
        if isinstance(b, list) and stmt in b:
            block = b
    env = {}

    def subst(e):
        e = clone(e)

        class R(ast.NodeTransformer):
            def visit_Name(self, n):
                if isinstance(n.ctx, ast.Load) and n.id in env:
                    return clone(env[n.id])
                return n
        return R().visit(ast.Expression(body=e)).body
    for s_ in block or []:
        if s_ is stmt:
            break
        if isinstance(s_, ast.Assign) and len(s_.targets) == 1 and isinstance(s_.targets[0], ast.Name):
            env[s_.targets[0].id] = subst(s_.value)
        else:
            for n in ast.walk(s_):
                if isinstance(n, ast.Name) and isinstance(n.ctx, ast.Store):
                    env.pop(n.id, None)
    return subst(stmt.value)


def base_stores(fi, base):
    return [s for s in walk_shallow(fi.node) if isinstance(s, ast.Assign) and len(s.targets) == 1 and isinstance(s.targets[0], ast.Name)
            and s.targets[0].id == base]


def base_vectors(fi, base, seen):
    """(store, comprehension) for base-measure vectors built through temporaries"""
    out = []
    for s in base_stores(fi, base):
        if any(isinstance(n, ast.ListComp) for n in ast.walk(s.value)):
            continue
        e = expanded_value(fi, s)
        for n in ast.walk(e):
            if isinstance(n, ast.ListComp) and id(n) not in seen:
                out.append((s, n))
    return out


WRAPPERS = ('np.asarray', 'np.array', 'numpy.asarray', 'numpy.array', 'np.asanyarray', 'np.ascontiguousarray')


def check_log_measure(ctx, fi, base):
    """A base measure given by key is a measure: its log is added to the scaled scores, and a candidate of measure 0 gets log-measure
    -inf, i.e. is never selected.  The vector must be numpy.log of the weights as they are - clamping the weights (or the log) to a finite
    floor lets a zero-measure candidate win whenever its score leads by enough."""
    for s in base_stores(fi, base):
        e = expanded_value(fi, s)
        if not any(isinstance(n, ast.ListComp) and base in U(n) for n in ast.walk(e)):
            continue

        def strip(x):
            while isinstance(x, ast.Call) and U(x.func) in WRAPPERS and len(x.args) == 1 and not \
                    [k for k in x.keywords if k.arg != 'dtype' or U(k.value) not in ('float', 'np.float64')]:
                x = x.args[0]
            return x
        x = strip(e)
        clamps = [U(c.func) for c in ast.walk(e) if isinstance(c, ast.Call) and U(c.func).split('.')[-1] in
                  ('maximum', 'clip', 'fmax', 'nan_to_num', 'where', 'max', 'log1p')]
        shifted = [b for b in ast.walk(e) if isinstance(b, ast.BinOp) and isinstance(b.op, (ast.Add, ast.Sub))]
        is_log = isinstance(x, ast.Call) and U(x.func) in ('np.log', 'numpy.log') and len(x.args) == 1 and isinstance(strip(x.args[0]), ast.ListComp) \
            and not strip(x.args[0]).generators[0].ifs and isinstance(strip(x.args[0]).elt, ast.Subscript)
        if not is_log and not clamps and not shifted:
            raise AnalysisError('%s: base-measure vector `%s` is in no recognised form' % (fi.qualname, U(e)[:80]))
        ctx.ob('log-measure', fi, s, is_log,
               'the keyed base measure enters the logits as numpy.log of the weights themselves (0 -> -inf: never selected); got `%s`%s'
               % (U(e)[:90], (' - clamped by %s' % ', '.join(clamps)) if clamps else ''), construct='log of the base measure in ' + fi.qualname)


def check_gem(ctx):
    fi = ctx.repo.nfunc(MECH, 'Mechanism.generalized_exponential_mechanism')
    calls = [c for c in calls_in(fi.node) if U(c.func) == 'self.exponential_mechanism']
    if len(calls) != 1:
        raise AnalysisError('generalized_exponential_mechanism: expected one call of self.exponential_mechanism')
    c = calls[0]
    eps = kwarg(c, 'epsilon', 1)
    sens = kwarg(c, 'sensitivity', 2)
    reassigned = any(isinstance(s, (ast.Assign, ast.AugAssign)) and 'epsilon' in
                     [U(t) for t in (s.targets if isinstance(s, ast.Assign) else [s.target])] for s in walk_shallow(fi.node))
    ok = eps is not None and U(eps) == 'epsilon' and not reassigned and sens is not None and U(sens) in ('1.0', '1')
    ctx.ob('forwards-eps', fi, c, ok, 'must select with its own epsilon, unchanged, and sensitivity 1 (scores are pre-scaled); '
           'passes eps=`%s`, sensitivity=`%s`' % (U(eps) if eps is not None else None, U(sens) if sens is not None else None))
    # the base measure in the convention of the callee: exponential_mechanism takes the LOG of a base measure given as a dict (keyed like
    # the qualities) and adds an array as it is (an array must already be a log-measure)
    base = kwarg(c, 'base_measure', 3)
    if base is not None and isinstance(base, ast.Name):
        bname = base.id
        for st in ast.walk(fi.node):
            if isinstance(st, ast.Assign) and len(st.targets) == 1 and U(st.targets[0]) == bname:
                v = expanded_value(fi, st)
                logged = any(isinstance(x, ast.Call) and U(x.func).split('.')[-1] in ('log', 'log2', 'log10') for x in ast.walk(v))
                is_dict = isinstance(v, (ast.DictComp, ast.Dict)) or (isinstance(v, ast.Call) and U(v.func) == 'dict')
                is_arr = not is_dict and (isinstance(v, (ast.ListComp, ast.List)) or (isinstance(v, ast.Call) and U(v.func).split('.')[-1] in ('log', 'array', 'asarray')))
                if not (is_dict or is_arr):
                    raise AnalysisError('generalized_exponential_mechanism: base measure re-defined as `%s`, neither a dict nor an array' % U(v)[:60])
                ok_b = (is_dict and not logged) or (is_arr and logged)
                ctx.ob('logits-calibrated', fi, st, ok_b,
                       'the base measure handed on must follow the callee\'s convention (a dict holds the measure itself - the callee takes the log; an '
                       'array holds the log-measure): `%s` is a %s of %s values%s'
                       % (U(st)[:70], 'dict' if is_dict else 'array', 'logged' if logged else 'raw',
                          '' if ok_b else (': the measure is logged twice' if is_dict else ': the measure is added without its log')),
                       construct='base measure convention in generalized_exponential_mechanism')


def check_helpers(ctx):
    repo = ctx.repo
    for name, sparam, kind in (('laplace_noise_scale', 'l1_sensitivity', 'laplace'), ('gaussian_noise_scale', 'l2_sensitivity', 'gauss')):
        fi = repo.nfunc(MECH, 'Mechanism.' + name)
        ctx.analysed(fi)
        for bounded in (True, False):
            def hook(call, ex):
                t = U(call)
                if 'ana_gaussian_mech' in t or 'gaussian_mech' in t:
                    args = [U(a) for a in call.args]
                    return sym('sigma_cal(%s)' % ','.join(args))
                return None

            class SubscriptEval(SymExec):
                def value(self, e):
                    if isinstance(e, ast.Subscript) and isinstance(e.value, ast.Call) and U(e.slice) == "'sigma'":
                        r = hook(e.value, self)
                        if r is not None:
                            return r
                    return super().value(e)
            # evaluate `a * f(...)['sigma']` by rewriting the subscript into its call
            ex = SubscriptEval(fi, flags={'self.bounded': bounded}, call_hook=hook)
            for p in fi.params[1:]:
                ex.env[p] = sym(p)
            ex.run()
            if len(ex.returns) != 1:
                raise AnalysisError('%s: expected one return' % fi.qualname)
            stmt, val = ex.returns[0]
            if not isinstance(val, Alg):
                # product with a subscripted call: evaluate factors separately
                v = stmt.value
                val = None
                if isinstance(v, ast.BinOp) and isinstance(v.op, ast.Mult):
                    a, b = ex.value(v.left), ex.value(v.right)
                    if isinstance(a, Alg) and isinstance(b, Alg):
                        val = a * b
                if val is None:
                    raise AnalysisError('%s: return value outside the dialect: `%s`' % (fi.qualname, U(stmt.value)))
            k = const(2 if bounded else 1)
            if kind == 'laplace':
                want = k * sym(sparam) / sym('epsilon')
            else:
                want = k * sym(sparam) * sym('sigma_cal(epsilon,delta)')
            ctx.ob('scale-helper', fi, stmt, val.eq(want), '[bounded=%s] returns %r; required %r' % (bounded, val, want),
                   construct='%s [bounded=%s]' % (U(stmt), bounded))
    check_best_noise(ctx)
    for name, dist in (('gaussian_noise', 'normal'), ('laplace_noise', 'laplace')):
        fi = repo.nfunc(MECH, 'Mechanism.' + name)
        ctx.analysed(fi)
        scale_p, size_p = fi.params[1], fi.params[2]
        rets = [r for r in walk_shallow(fi.node) if isinstance(r, ast.Return)]
        reass = [s for s in walk_shallow(fi.node) if isinstance(s, (ast.Assign, ast.AugAssign))]
        ok = False
        detail = 'unrecognised'
        if len(rets) == 1 and isinstance(rets[0].value, ast.Call):
            c = rets[0].value
            loc = kwarg(c, 'loc', 0)
            scale = kwarg(c, 'scale', 1)
            size = kwarg(c, 'size', 2)
            ok = U(c.func).endswith('.' + dist) and loc is not None and U(loc) in ('0', '0.0') and scale is not None \
                and U(scale) == scale_p and size is not None and U(size) == size_p and not reass
            detail = '%s(loc=%s, scale=%s, size=%s)' % (U(c.func), U(loc) if loc is not None else None,
                                                       U(scale) if scale is not None else None, U(size) if size is not None else None)
        elif len(rets) == 1 and isinstance(rets[0].value, ast.BinOp) and isinstance(rets[0].value.op, ast.Mult) and not reass:
            # scale * <standard draw>: a location-scale family, s * D(0, 1) is D(0, s) (the same variates from the same stream)
            v = rets[0].value
            fac, c = (v.left, v.right) if isinstance(v.right, ast.Call) else (v.right, v.left)
            if not (isinstance(c, ast.Call) and U(fac) == scale_p):
                raise AnalysisError('%s: the returned noise `%s` is in no recognised form' % (fi.qualname, U(v)[:80]))
            fn = U(c.func).split('.')[-1]
            if fn == 'standard_normal' and dist == 'normal':
                size = kwarg(c, 'size', 0)
                ok = size is not None and U(size) == size_p and len(c.args) + len(c.keywords) == 1
                detail = '%s * standard_normal(size=%s)' % (scale_p, U(size) if size is not None else None)
            elif fn == dist:
                loc, scale, size = kwarg(c, 'loc', 0), kwarg(c, 'scale', 1), kwarg(c, 'size', 2)
                ok = (loc is None or U(loc) in ('0', '0.0')) and (scale is None or U(scale) in ('1', '1.0')) and size is not None and U(size) == size_p
                detail = '%s * %s(loc=%s, scale=%s, size=%s)' % (scale_p, fn, U(loc) if loc is not None else 'default 0', U(scale) if scale is not None else 'default 1',
                                                             U(size) if size is not None else None)
                if not ok and loc is not None and U(loc) == size_p:
                    detail += ' - the first positional parameter of %s is the LOCATION: one variate centred at the requested size is drawn and broadcast over the cells' % fn
            else:
                raise AnalysisError('%s: the returned noise `%s` draws from `%s`, which is not a recognised sampler' % (fi.qualname, U(v)[:80], U(c.func)))
        elif len(rets) == 1 and not isinstance(rets[0].value, ast.Call) and not reass:
            raise AnalysisError('%s: the returned noise `%s` is in no recognised form' % (fi.qualname, U(rets[0].value)[:80]))
        ctx.ob('sampler-identity', fi, rets[0] if rets else fi.node, ok,
               'must draw %s noise with loc 0 and exactly the scale `%s` it is given; draws %s' % (dist, scale_p, detail))


def lift_conditionals(e):
    """f(a if c else b, x if c else y)  ->  f(a, x) if c else f(b, y)   (one shared test)"""
    from ..engines.blockeval import T
    if isinstance(e, ast.IfExp):
        return ast.IfExp(test=e.test, body=lift_conditionals(e.body), orelse=lift_conditionals(e.orelse))
    if isinstance(e, ast.Call):
        tests = {T(a.test) for a in e.args if isinstance(a, ast.IfExp)}
        if len(tests) == 1:
            test = [a.test for a in e.args if isinstance(a, ast.IfExp)][0]
            yes = ast.Call(func=e.func, args=[a.body if isinstance(a, ast.IfExp) else a for a in e.args], keywords=e.keywords)
            no = ast.Call(func=e.func, args=[a.orelse if isinstance(a, ast.IfExp) else a for a in e.args], keywords=e.keywords)
            return ast.IfExp(test=test, body=lift_conditionals(yes), orelse=lift_conditionals(no))
    return e


def check_best_noise(ctx):
    """best_noise_distribution: each sampler it hands out is bound to exactly the value its own scale helper returned.
    Decided on the expanded result (locals, tuple/conditional assignment and single-exit spellings looked through)."""
    from ..engines.blockeval import BlockEval
    from ..normalise import single_exit
    fi = ctx.repo.nfunc(MECH, 'Mechanism.best_noise_distribution')
    ctx.analysed(fi)
    stmts, _ = single_exit(clone(fi.body), '__ret__')
    be = BlockEval(fi.qualname)
    be.run(stmts)
    R = be.env.get('__ret__')
    if R is None:
        raise AnalysisError('best_noise_distribution: no result')
    leaves = []

    def walk(e):
        if isinstance(e, ast.IfExp):
            walk(e.body)
            walk(e.orelse)
        else:
            leaves.append(e)
    walk(lift_conditionals(R))
    n = 0
    for c in leaves:
        if not (isinstance(c, ast.Call) and U(c.func) in ('partial', 'functools.partial')):
            raise AnalysisError('best_noise_distribution: result `%s` is not a partial(sampler, scale)' % U(c)[:80])
        n += 1
        sampler = U(c.args[0]) if c.args else None
        src = c.args[1] if len(c.args) > 1 else None
        helper = {'self.laplace_noise': 'self.laplace_noise_scale', 'self.gaussian_noise': 'self.gaussian_noise_scale'}.get(sampler)
        ok = bool(helper) and isinstance(src, ast.Call) and U(src.func) == helper and \
            all(isinstance(a, ast.Name) and a.id in fi.params for a in src.args) and len(c.args) == 2 and not c.keywords
        ctx.ob('sampler-identity', fi, fi.node, ok,
               'the sampler `%s` must be bound to exactly what `%s(...)` returned for the caller\'s own parameters; bound to `%s`'
               % (sampler, helper, U(src) if src is not None else None), construct='result ' + U(c)[:100])
    if n == 0:
        raise AnalysisError('best_noise_distribution: no partial(...) return found')


def check_inputs_unmodified(ctx):
    """A selection / release helper is called once per round on the same stored answers, measurements and candidate lists: an in-place
    update (`x -= ...`, `out=`) that reaches an ELEMENT of an argument (or an array argument itself) corrupts what later rounds read.
    Origin analysis (E2) over mechanisms/; scalar sensitivity parameters (`*_sensitivity *= 2.0` rebinds a number) are exempt."""
    from ..engines.alias import Scope
    files = [f for f in ('mechanisms/mwem+pgm.py', 'mechanisms/mst.py', 'mechanisms/aim.py', 'mechanisms/adaptive_grid.py', 'mechanisms/mechanism.py')
             if ctx.repo.exists(f)]
    scope = Scope(ctx.repo, files, {})
    scope.solve()
    n = 0
    for (rel, q), summ in sorted(scope.summaries.items()):
        if not ctx.repo.has_func(rel, q):
            continue
        fi = ctx.repo.func(rel, q)
        seen = set()
        for site in summ.sites:
            k = (getattr(site.node, 'lineno', 0), getattr(site.node, 'col_offset', 0), site.what)
            if k in seen:
                continue
            seen.add(k)
            n += 1
            bad = sorted(t for t in site.origins if (t.startswith('Pe:') or (t.startswith('P:') and not t.endswith('sensitivity'))) and not t.endswith(':self'))
            ctx.ob('inputs-unmodified', fi, site.node, not bad,
                   '%s acts on %s' % (site.what, 'objects of this call' if not bad else
                                      'the caller\'s data (%s): the same answers / measurements are read again by later rounds' % ', '.join(bad)))
    ctx.floor('in-place sites in mechanisms/', n, 10)

"""Idiom rules that hold for any function (applied by the property rules to the functions they analyse)."""
import ast

from ..srcmodel import AnalysisError, U, canon_compare


def scan_pop(ctx, fi, rule='exactly-once'):
    """`while i < len(L): ... L.pop(i) ... i += 1`: a scan that removes elements while it walks the list.  After L.pop(i) the next element
    has moved INTO position i, so on a path that removes the element the index must stay; advancing it as well skips that element (it is
    never examined).  One obligation per such loop; nothing is claimed about loops that are not of this idiom."""
    n = 0
    for w in [x for x in ast.walk(fi.node) if isinstance(x, ast.While)]:
        t = canon_compare(w.test)
        if not (isinstance(t, ast.Compare) and len(t.ops) == 1 and isinstance(t.ops[0], ast.Lt) and isinstance(t.left, ast.Name)
                and isinstance(t.comparators[0], ast.Call) and U(t.comparators[0].func) == 'len' and len(t.comparators[0].args) == 1):
            continue
        i, L = t.left.id, U(t.comparators[0].args[0])

        def pops(node):
            k = 0
            for x in ast.walk(node):
                if isinstance(x, ast.Call) and isinstance(x.func, ast.Attribute) and x.func.attr == 'pop' and U(x.func.value) == L \
                        and len(x.args) == 1 and U(x.args[0]) == i:
                    k += 1
                if isinstance(x, ast.Delete) and any(U(tg) == '%s[%s]' % (L, i) for tg in x.targets):
                    k += 1
            return k

        def incs(node):
            k = 0
            for x in ast.walk(node):
                if isinstance(x, ast.AugAssign) and U(x.target) == i and isinstance(x.op, ast.Add):
                    k += 1
                if isinstance(x, ast.Assign) and any(U(tg) == i for tg in x.targets) and U(x.value).replace(' ', '') in (i + '+1', '1+' + i):
                    k += 1
            return k
        if not pops(w) or not incs(w):
            continue

        def paths(stmts):
            """-> list of (pops, incs) per path through the statement list"""
            out = [(0, 0)]
            for s in stmts:
                if isinstance(s, ast.If):
                    tp = pops(s.test)
                    alts = [(a + tp, b) for a, b in paths(s.body)] + [(a + tp, b) for a, b in paths(s.orelse)]
                elif isinstance(s, (ast.For, ast.While, ast.Try, ast.With)):
                    if pops(s) or incs(s):
                        raise AnalysisError('%s: the scan `%s` removes / advances inside a nested block' % (fi.qualname, U(w.test)))
                    alts = [(0, 0)]
                else:
                    alts = [(pops(s), incs(s))]
                out = [(a + c, b + d) for a, b in out for c, d in alts]
                if len(out) > 256:
                    raise AnalysisError('%s: too many paths through the scan `%s`' % (fi.qualname, U(w.test)))
                if isinstance(s, (ast.Continue, ast.Break, ast.Return, ast.Raise)):
                    break
            return out
        ps = paths(w.body)
        both = [p for p in ps if p[0] and p[1]]
        n += 1
        ctx.ob(rule, fi, w, not both,
               'scan of `%s` by index `%s` that removes elements with %s.pop(%s): on the path that removes the element the index must stay (the '
               'next element has moved into position %s)%s' % (L, i, L, i, i, '' if not both else
                                                                '; here a path both removes and advances: the element after every removed one is never examined'),
               construct='scan ' + U(w.test))
    return n


def default_resolved_first(ctx, fi, rule='loss-form'):
    """A parameter p that defaults to None ("use the configured value") is resolved by `if p is None: p = E` / `p = E if p is None else p`.
    Every other read of p must come after that statement: a test made on the unresolved value (`callable(p)`, `p == 'L1'`) sees None on
    the default path and takes the branch for "none of these" although the configured value would have taken another.
    Works on the function as written (top-level statement order).  One obligation per resolved parameter."""
    raw = getattr(fi, 'original', fi)
    n = 0
    for p, d in raw.defaults().items():
        if not (isinstance(d, ast.Constant) and d.value is None):
            continue
        res = None
        for i, st in enumerate(raw.node.body):
            if isinstance(st, ast.If) and isinstance(st.test, ast.Compare) and len(st.test.ops) == 1 and isinstance(st.test.ops[0], ast.Is) \
                    and U(st.test.left) == p and U(st.test.comparators[0]) == 'None' \
                    and any(isinstance(b, ast.Assign) and any(U(t) == p for t in b.targets) for b in st.body):
                res = (i, st)
                break
            if isinstance(st, ast.Assign) and any(U(t) == p for t in st.targets) and isinstance(st.value, ast.IfExp) \
                    and U(st.value.test).replace(' ', '') in ('%sisNone' % p, '%sisnotNone' % p):
                res = (i, st)
                break
            if isinstance(st, ast.Assign) and any(U(t) == p for t in st.targets) and isinstance(st.value, ast.BoolOp) and isinstance(st.value.op, ast.Or) \
                    and U(st.value.values[0]) == p:
                res = (i, st)
                break
        if res is None:
            continue
        early = [x for st in raw.node.body[:res[0]] for x in ast.walk(st) if isinstance(x, ast.Name) and x.id == p and isinstance(x.ctx, ast.Load)]
        n += 1
        first = early[0] if early else None
        stmt = None
        if first is not None:
            stmt = next(st for st in raw.node.body[:res[0]] if any(x is first for x in ast.walk(st)))
        ctx.ob(rule, fi, stmt if stmt is not None else res[1], not early,
               'parameter `%s` defaults to None and is resolved by `%s`; %s' % (p, U(res[1]).split('\n')[0][:60],
               'nothing reads it before that' if not early else
               '`%s` reads it BEFORE the resolution: on the default path it sees None, not the configured value' % U(stmt).split('\n')[0][:70]),
               construct='resolution of the default of `%s` in %s' % (p, raw.qualname))
    return n


def aligned_zips(ctx, fi, rule):
    """zip(A, B) pairs the i-th element of A with the i-th of B.  When A was obtained by FILTERING a list that was aligned with B (a
    comprehension with an `if`, over B or over a list built element by element from B) and B was not filtered the same way, the positions
    no longer correspond: every element after the first one dropped is paired with an earlier row.
    Index spaces: a parameter / any other sequence is its own base; `[f(x) for x in S]` keeps the space of S; an `if` adds a filter;
    zip(A, B) with one base and different filters is reported.  Different bases: nothing is claimed."""
    raw = getattr(fi, 'original', fi)
    defs = {}
    for st in ast.walk(raw.node):
        if isinstance(st, ast.Assign) and len(st.targets) == 1 and isinstance(st.targets[0], ast.Name):
            defs.setdefault(st.targets[0].id, []).append(st.value)

    def space(e, depth=0):
        """-> (base text, tuple of filter texts) or None"""
        if depth > 8:
            return None
        while isinstance(e, ast.Call) and isinstance(e.func, ast.Name) and e.func.id in ('list', 'tuple', 'enumerate') and len(e.args) == 1:
            e = e.args[0]
        if isinstance(e, ast.Call) and U(e.func) in ('np.array', 'np.asarray', 'numpy.array') and len(e.args) == 1:
            e = e.args[0]
        if isinstance(e, ast.Name):
            ds = defs.get(e.id, [])
            if len(ds) == 1:
                return space(ds[0], depth + 1)
            if not ds:
                return (e.id, ())
            return None
        if isinstance(e, (ast.ListComp, ast.GeneratorExp)) and len(e.generators) == 1:
            g = e.generators[0]
            s = space(g.iter, depth + 1)
            if s is None:
                return None
            return (s[0], s[1] + tuple(U(c) for c in g.ifs))
        if isinstance(e, ast.Call) and isinstance(e.func, ast.Name) and e.func.id == 'zip' and e.args:
            ss = [space(a, depth + 1) for a in e.args]
            if any(s is None for s in ss):
                return None
            bases = {s[0] for s in ss}
            if len(bases) == 1:
                return max(ss, key=lambda s: len(s[1]))
            return None
        if isinstance(e, ast.Call) and isinstance(e.func, ast.Name) and e.func.id == 'filter' and len(e.args) == 2:
            s = space(e.args[1], depth + 1)
            return None if s is None else (s[0], s[1] + (U(e.args[0]),))
        if isinstance(e, (ast.Attribute, ast.Subscript)):
            return (U(e), ())
        return None
    n = 0
    for z in [c for c in ast.walk(raw.node) if isinstance(c, ast.Call) and isinstance(c.func, ast.Name) and c.func.id == 'zip' and len(c.args) >= 2]:
        ss = [space(a) for a in z.args]
        if any(s is None for s in ss) or len({s[0] for s in ss}) != 1:
            continue
        n += 1
        same = len({s[1] for s in ss}) == 1
        ctx.ob(rule, fi, z, same,
               '`%s` pairs sequences by position; both derive from `%s`%s' % (U(z)[:70], ss[0][0], ' with the same elements kept' if same else
               ', but %s: after the first dropped element every later one is paired with an earlier row'
               % '; '.join('`%s` keeps only the elements with %s' % (U(a)[:30], ' and '.join(s[1])) if s[1] else '`%s` keeps all' % U(a)[:30]
                           for a, s in zip(z.args, ss))), construct='alignment of ' + U(z)[:50])
    return n


def mutable_default_state(ctx, fi, rule):
    """A parameter with a mutable default (`options={}`) is ONE object shared by all calls that omit the argument.  Writing a key into it
    is harmless only if that key is written on EVERY path before the container is handed on (`**options`, passed as an argument, returned):
    a key written on some paths only survives from an earlier call on the others (e.g. the callback of the previous estimation).
    Other in-place changes (append / update / setdefault / pop / del / op=) of such a parameter are reported as they are.  A parameter that is
    re-bound to a copy first is not shared.  One obligation per parameter that is written at all."""
    raw = getattr(fi, 'original', fi)
    n = 0
    for p, d in raw.defaults().items():
        mutable = isinstance(d, (ast.Dict, ast.List, ast.Set)) or (isinstance(d, ast.Call) and U(d.func) in ('dict', 'list', 'set', 'defaultdict'))
        if not mutable:
            continue
        body = raw.node.body
        # re-bound before any write?
        first_write = None
        rebound_first = False
        all_keys, other = set(), []
        for x in ast.walk(raw.node):
            if isinstance(x, ast.Subscript) and isinstance(x.ctx, (ast.Store, ast.Del)) and U(x.value) == p:
                if isinstance(x.slice, ast.Constant):
                    all_keys.add(repr(x.slice.value))
                else:
                    other.append(getattr(x, '_parent', x))
            if isinstance(x, ast.Call) and isinstance(x.func, ast.Attribute) and U(x.func.value) == p and \
                    x.func.attr in ('append', 'extend', 'update', 'setdefault', 'pop', 'popitem', 'clear', 'insert', 'remove', 'add', 'discard'):
                other.append(x)
            if isinstance(x, ast.AugAssign) and U(x.target) == p:
                other.append(x)
        if not all_keys and not other:
            continue
        for st in body:
            if isinstance(st, ast.Assign) and any(U(t) == p for t in st.targets):
                rebound_first = True
                break
            if any((isinstance(x, ast.Subscript) and isinstance(x.ctx, (ast.Store, ast.Del)) and U(x.value) == p) or
                   (isinstance(x, ast.Call) and isinstance(x.func, ast.Attribute) and U(x.func.value) == p) or
                   (isinstance(x, ast.AugAssign) and U(x.target) == p) for x in ast.walk(st)):
                break
        if rebound_first:
            continue
        n += 1
        problems = []
        for x in other:
            problems.append('`%s` changes the shared default in place' % U(x)[:50])

        def reads(node):
            """uses of p that hand it on / read it (not the stores themselves)"""
            out = []
            for x in ast.walk(node):
                if isinstance(x, ast.Name) and x.id == p and isinstance(x.ctx, ast.Load):
                    par = getattr(x, '_parent', None)
                    if isinstance(par, ast.Subscript) and par.value is x and isinstance(par.ctx, (ast.Store, ast.Del)):
                        continue
                    out.append(x)
            return out

        def run(stmts, must):
            for st in stmts:
                if isinstance(st, ast.If):
                    for x in reads(st.test):
                        check(x, must)
                    a = run(st.body, set(must))
                    b = run(st.orelse, set(must))
                    must = a & b
                elif isinstance(st, (ast.For, ast.While)):
                    for x in reads(st.iter if isinstance(st, ast.For) else st.test):
                        check(x, must)
                    run(st.body, set(must))
                elif isinstance(st, (ast.With, ast.Try)):
                    must = run(st.body, must)
                else:
                    for x in reads(st):
                        check(x, must)
                    for x in ast.walk(st):
                        if isinstance(x, ast.Subscript) and isinstance(x.ctx, ast.Store) and U(x.value) == p and isinstance(x.slice, ast.Constant):
                            must = must | {repr(x.slice.value)}
            return must

        def check(x, must):
            missing = sorted(all_keys - must)
            if missing:
                st_ = x
                while getattr(st_, '_parent', None) is not None and not isinstance(st_, ast.stmt):
                    st_ = st_._parent
                problems.append('`%s` uses `%s` on a path where the key(s) %s have not been written by this call: they keep the value an '
                                'earlier call left in the shared default' % (U(st_).split('\n')[0][:60], p, ', '.join(missing)))
        run(body, set())
        ctx.ob(rule, fi, raw.node, not problems,
               'parameter `%s` of %s defaults to a mutable object shared between calls; %s' % (p, raw.qualname, '; '.join(problems[:3]) if problems else
               'every key this method writes into it is written on every path before it is handed on'),
               construct='shared default `%s` of %s' % (p, raw.qualname))
    return n


def minimal_scan(ctx, node_fi, rule):
    """`for s in sorted(F, key=len): if any(set(t) < set(s) for t in found): <skip>; found.append(s)` collects the MINIMAL members of a
    family of sets by walking it from small to large.  A member that contains an already found one is not minimal and is skipped with
    `continue`; `break` would also drop every later (larger) member, although a larger set can be incomparable with everything found
    so far - it is minimal too.  One obligation per such scan (functions nested in `node_fi` included)."""
    raw = getattr(node_fi, 'original', node_fi)
    n = 0
    for lp in [x for x in ast.walk(raw.node) if isinstance(x, ast.For) and isinstance(x.target, ast.Name)]:
        it = lp.iter
        if isinstance(it, ast.Name):
            defs = [a.value for a in ast.walk(raw.node) if isinstance(a, ast.Assign) and len(a.targets) == 1 and U(a.targets[0]) == it.id]
            it = defs[0] if len(defs) == 1 else it
        if not (isinstance(it, ast.Call) and U(it.func) == 'sorted' and any(k.arg == 'key' and U(k.value) in ('len',) for k in it.keywords)):
            continue
        if any(k.arg == 'reverse' for k in it.keywords):
            continue
        s = lp.target.id
        if not lp.body or not isinstance(lp.body[0], ast.If) or lp.body[0].orelse or len(lp.body[0].body) != 1:
            continue
        guard, act = lp.body[0].test, lp.body[0].body[0]
        if not isinstance(act, (ast.Continue, ast.Break)):
            continue
        if not (isinstance(guard, ast.Call) and U(guard.func) == 'any' and len(guard.args) == 1 and isinstance(guard.args[0], (ast.GeneratorExp, ast.ListComp))
                and len(guard.args[0].generators) == 1):
            continue
        g = guard.args[0].generators[0]
        found = U(g.iter)
        t = U(g.target)
        cmp_ = U(guard.args[0].elt).replace(' ', '')
        if cmp_ not in ('set(%s)<set(%s)' % (t, s), 'set(%s)<=set(%s)' % (t, s), 'set(%s).issubset(%s)' % (t, s), 'set(%s)>set(%s)' % (s, t),
                        'set(%s)>=set(%s)' % (s, t)):
            continue
        appends = [c for st in lp.body[1:] for c in ast.walk(st) if isinstance(c, ast.Call) and isinstance(c.func, ast.Attribute)
                   and c.func.attr in ('append', 'add') and U(c.func.value) == found and len(c.args) == 1 and U(c.args[0]) == s]
        if not appends:
            continue
        n += 1
        ctx.ob(rule, node_fi, act, isinstance(act, ast.Continue),
               'scan of `%s` from small to large that keeps the members containing no member kept so far (`%s`): a member that is not minimal is '
               'skipped with `continue`%s' % (U(it)[:50], found, '' if isinstance(act, ast.Continue) else
               '; `break` ends the scan, although a later, larger member can be incomparable with everything kept so far and minimal as well'),
               construct='minimal-members scan over ' + U(lp.iter)[:40])
    return n


def buffered_accumulation(ctx, fi, rule):
    """`X[I] += V` with I a LIST / ARRAY of positions is a buffered update in numpy: a position that occurs several times in I receives
    only the last of its contributions (numpy.add.at / a loop accumulates them all).  Reported when I is a local collection that can hold a
    position more than once: a list filled by `append` inside a loop with something other than the variable of the outermost loop between
    its initialisation and the append.  Nothing is claimed about other index expressions (slices, masks, scalar positions)."""
    raw = getattr(fi, 'original', fi)
    n = 0
    inits = {}
    for a in ast.walk(raw.node):
        if isinstance(a, ast.Assign) and len(a.targets) == 1:
            tg, v = a.targets[0], a.value
            if isinstance(tg, ast.Name) and isinstance(v, ast.List) and not v.elts:
                inits[tg.id] = a
            elif isinstance(tg, ast.Tuple) and isinstance(v, ast.Tuple) and len(tg.elts) == len(v.elts):
                for t_, v_ in zip(tg.elts, v.elts):
                    if isinstance(t_, ast.Name) and isinstance(v_, ast.List) and not v_.elts:
                        inits[t_.id] = a
    for st in ast.walk(raw.node):
        if not (isinstance(st, ast.AugAssign) and isinstance(st.target, ast.Subscript) and isinstance(st.target.slice, ast.Name)):
            continue
        I = st.target.slice.id
        if I not in inits:
            continue
        appends = [c for c in ast.walk(raw.node) if isinstance(c, ast.Call) and isinstance(c.func, ast.Attribute) and c.func.attr == 'append'
                   and U(c.func.value) == I and len(c.args) == 1]
        if not appends:
            continue
        may_repeat = False
        for c in appends:
            loops = []
            x = c
            while getattr(x, '_parent', None) is not None and x is not raw.node:
                x = x._parent
                if isinstance(x, (ast.For, ast.While)):
                    loops.append(x)
            if not loops:
                continue
            outer = loops[-1]
            outer_vars = set()
            if isinstance(outer, ast.For):
                outer_vars = {t_.id for t_ in ast.walk(outer.target) if isinstance(t_, ast.Name)}
            v = c.args[0]
            if not (isinstance(v, ast.Name) and v.id in outer_vars and len(loops) == 1):
                may_repeat = True
        if not may_repeat:
            continue
        n += 1
        ctx.ob(rule, fi, st, False,
               '`%s`: `%s` is a list of positions collected in a loop and can name a position several times; a fancy-index update is buffered, '
               'so such a position receives only the LAST of its contributions (numpy.add.at, or adding inside the loop, sums them)'
               % (U(st)[:60], I), construct='accumulation through the index list `%s`' % I)
    return n


def stale_pivot(ctx, fi, rule):
    """`for k in KEYS: if D[k] == D[p]: D[k] = E` relabels the entries of D that carry the label of entry p.  When the loop reaches k == p it
    overwrites D[p] itself, and every later comparison is made against the NEW label: entries after p keep the old one.  The label has to
    be read into a local before the loop (`old = D[p]; for k ..: if D[k] == old: ..`).  Reported when p is not the loop variable, is not
    assigned in the loop, and the comparison reads `D[p]` inside the loop that stores into D."""
    raw = getattr(fi, 'original', fi)
    n = 0
    for lp in [x for x in ast.walk(raw.node) if isinstance(x, ast.For) and isinstance(x.target, ast.Name)]:
        k = lp.target.id
        for st in ast.walk(lp):
            if not (isinstance(st, ast.If) and isinstance(st.test, ast.Compare) and len(st.test.ops) == 1 and isinstance(st.test.ops[0], (ast.Eq, ast.Is))):
                continue
            l, r = st.test.left, st.test.comparators[0]
            for a, b in ((l, r), (r, l)):
                if not (isinstance(a, ast.Subscript) and isinstance(b, ast.Subscript) and U(a.value) == U(b.value) and isinstance(a.value, ast.Name)):
                    continue
                D = a.value.id
                if not (U(a.slice) == k and isinstance(b.slice, ast.Name) and b.slice.id != k):
                    continue
                p = b.slice.id
                stores = [s_ for s_ in st.body if isinstance(s_, ast.Assign) and len(s_.targets) == 1 and isinstance(s_.targets[0], ast.Subscript)
                          and U(s_.targets[0].value) == D and U(s_.targets[0].slice) == k]
                assigned_p = any(isinstance(x, ast.Name) and x.id == p and isinstance(x.ctx, ast.Store) for x in ast.walk(lp))
                if not stores or assigned_p:
                    continue
                n += 1
                ctx.ob(rule, fi, st, False,
                       'the loop over `%s` relabels the entries of `%s` equal to `%s[%s]` - and `%s[%s]` is one of the entries it overwrites: from that '
                       'iteration on the comparison is made against the new label, and the entries after `%s` keep the old one (read the label into a '
                       'local before the loop)' % (U(lp.iter)[:30], D, D, p, D, p, p), construct='relabelling against `%s[%s]`' % (D, p))
    return n


def horner_index_dtype(ctx, fi, rule):
    """A flat cell index accumulated as `idx = idx * n + col` takes its element type from its FIRST value.  Columns read from a data frame
    (`.values`) have the frame's type - uint8 / int8 for small public data - and the accumulation then wraps around silently once the index
    exceeds that type's range.  The accumulator must start from an explicit platform-integer cast (`.astype(int)` / int64)."""
    raw = getattr(fi, 'original', fi)
    n = 0
    for st in ast.walk(raw.node):
        acc = None
        if isinstance(st, ast.Assign) and len(st.targets) == 1 and isinstance(st.targets[0], ast.Name) and isinstance(st.value, ast.BinOp) \
                and isinstance(st.value.op, ast.Add) and isinstance(st.value.left, ast.BinOp) and isinstance(st.value.left.op, ast.Mult) \
                and st.targets[0].id in (U(st.value.left.left), U(st.value.left.right)):
            acc = st.targets[0].id
        if acc is None:
            continue
        inits = [a for a in ast.walk(raw.node) if isinstance(a, ast.Assign) and len(a.targets) == 1 and U(a.targets[0]) == acc and a is not st]
        if len(inits) != 1:
            continue
        v = inits[0].value
        names = {U(a.targets[0]): a.value for a in ast.walk(raw.node) if isinstance(a, ast.Assign) and len(a.targets) == 1 and isinstance(a.targets[0], ast.Name)}

        def from_frame(e, depth=0):
            if depth > 4:
                return False
            for x in ast.walk(e):
                if isinstance(x, ast.Attribute) and x.attr in ('values',) or (isinstance(x, ast.Call) and U(x.func).endswith('to_numpy')):
                    return True
                if isinstance(x, ast.Name) and x.id in names and x.id != acc and from_frame(names[x.id], depth + 1):
                    return True
            return False
        cast = any(isinstance(x, ast.Call) and isinstance(x.func, ast.Attribute) and x.func.attr == 'astype' and x.args
                   and U(x.args[0]) in ('int', 'np.int64', 'np.intp', 'numpy.int64', "'int64'") for x in ast.walk(v))
        zeros = isinstance(v, ast.Call) and U(v.func) in ('np.zeros', 'numpy.zeros') and any(k.arg == 'dtype' and U(k.value) in ('int', 'np.int64', 'np.intp') for k in v.keywords)
        if not from_frame(v) and not cast and not zeros:
            continue
        n += 1
        ctx.ob(rule, fi, inits[0], cast or zeros,
               'flat cell index `%s` accumulated as `%s`: it starts as `%s`, %s' % (acc, U(st)[:50], U(v)[:50],
               'cast to the platform integer' if (cast or zeros) else 'which has the element type of the data frame - for uint8 / int8 columns the index '
               'wraps around as soon as it exceeds that type\'s range, and records are counted in the wrong cells'),
               construct='element type of the cell index `%s`' % acc)
    return n


def grouped_runs(ctx, node_fi, rule):
    """`itertools.groupby(X, key=g)` yields one group per RUN of equal g-values: it partitions X by g only if X is ordered so that equal
    g-values are adjacent - sorted by g itself or by an injective function of it (its position in a duplicate-free sequence, a tuple
    starting with it).  A sort key that several g-values can share - the SIZE of an attribute (`domain[a]`), a length - lets their
    elements interleave: the same g-value then comes in several runs, and a dict built from the groups keeps only the last of them.
    One obligation per groupby whose input is sorted in the same function; a sort key this rule cannot relate to g is an analysis error."""
    import re
    raw = getattr(node_fi, 'original', node_fi)
    n = 0

    def keytext(k):
        if k is None:
            return '_e'
        if isinstance(k, ast.Lambda) and len(k.args.args) == 1:
            a = k.args.args[0].arg
            body = ast.parse(U(k.body), mode='eval').body

            class Rn(ast.NodeTransformer):
                def visit_Name(self, x):
                    return ast.copy_location(ast.Name(id='_e', ctx=x.ctx), x) if x.id == a else x
            return U(Rn().visit(body)).replace(' ', '')
        if U(k) in ('operator.itemgetter(0)', 'itemgetter(0)'):
            return '_e[0]'
        return None
    for call in [c for c in ast.walk(raw.node) if isinstance(c, ast.Call) and U(c.func) in ('itertools.groupby', 'groupby') and c.args]:
        X = call.args[0]
        kg = next((k.value for k in call.keywords if k.arg == 'key'), call.args[1] if len(call.args) > 1 else None)
        ks = None
        found = False
        if isinstance(X, ast.Call) and U(X.func) == 'sorted' and X.args:
            ks, found = next((k.value for k in X.keywords if k.arg == 'key'), None), True
        elif isinstance(X, ast.Name):
            for st in ast.walk(raw.node):
                if getattr(st, 'lineno', 10 ** 9) > call.lineno:
                    continue
                if isinstance(st, ast.Call) and isinstance(st.func, ast.Attribute) and st.func.attr == 'sort' and U(st.func.value) == X.id:
                    ks, found = next((k.value for k in st.keywords if k.arg == 'key'), None), True
                if isinstance(st, ast.Assign) and len(st.targets) == 1 and U(st.targets[0]) == X.id and isinstance(st.value, ast.Call) \
                        and U(st.value.func) == 'sorted':
                    ks, found = next((k.value for k in st.value.keywords if k.arg == 'key'), None), True
        if not found:
            continue
        g, s = keytext(kg), keytext(ks)
        if g is None or s is None:
            raise AnalysisError('%s: groupby / sort keys `%s` / `%s` in no recognised form' % (raw.qualname, U(kg)[:40] if kg is not None else None,
                                                                                            U(ks)[:40] if ks is not None else None))
        ge = re.escape(g)
        if s == g or re.fullmatch(r'[\w\.]+\.index\(%s\)' % ge, s) or re.fullmatch(r'\(%s,.*\)' % ge, s) or re.fullmatch(r'(str|repr|id)\(%s\)' % ge, s) \
                or (g != '_e' and s == '_e'):
            ok, why = True, 'equal group keys are adjacent'
        elif re.fullmatch(r'(self\.)?\w*domain\[%s\]' % ge, s) or re.fullmatch(r'len\(%s\)' % ge, s) or re.fullmatch(r'[\w\.]*\.size\(%s\)' % ge, s) \
                or re.fullmatch(r'[\w\.]*shape\[.*\]', s):
            ok, why = False, ('the sort key `%s` is a SIZE, which different group keys share: their elements interleave (the sort is stable), the same key '
                              'comes in several runs and a mapping built from the groups keeps only the last run' % s.replace('_e', 'e'))
        else:
            raise AnalysisError('%s: groupby by `%s` over a sequence sorted by `%s`: whether equal group keys end up adjacent is not decided' % (raw.qualname, g, s))
        n += 1
        ctx.ob(rule, node_fi, call, ok, 'groupby(%s, key: %s) partitions its input only if equal keys are adjacent; the input is sorted by `%s`: %s'
               % (U(X)[:30], g.replace('_e', 'e'), s.replace('_e', 'e'), why), construct='grouping of `%s`' % U(X)[:40])
    return n


def measurement_keys_kept(ctx, node_fi, rule):
    """A measurement (Q, y, noise, proj) states y ~ Q @ marginal(proj) with the cells of the marginal laid out in the attribute order GIVEN by
    proj.  Code that re-packs the measurements may change the TYPE of proj (tuple(proj), a bare name wrapped as (proj,)) but not its ORDER:
    `domain.canonical(proj)`, `sorted(proj)`, a set - applied to proj alone - leave Q and y in the old layout, and the loss then compares y
    with the cells of a transposed table.  One obligation per re-packed proj (comprehension over the measurements, or a 4-tuple stored /
    appended inside a loop over them); an expression this rule cannot classify is an analysis error."""
    raw = getattr(node_fi, 'original', node_fi)
    helpers = {}
    for d in ast.walk(raw.node):
        if isinstance(d, ast.FunctionDef) and d is not raw.node and len(d.args.args) == 1 and len(d.body) == 1 and isinstance(d.body[0], ast.Return) \
                and d.body[0].value is not None:
            helpers[d.name] = (d.args.args[0].arg, d.body[0].value)
        if isinstance(d, ast.Assign) and len(d.targets) == 1 and isinstance(d.targets[0], ast.Name) and isinstance(d.value, ast.Lambda) and len(d.value.args.args) == 1:
            helpers[d.targets[0].id] = (d.value.args.args[0].arg, d.value.body)

    def verdict(e, p, depth=0):
        # -> (True, '') order kept | (False, why) reordered | None unknown
        if isinstance(e, ast.Name) and e.id == p:
            return True, ''
        if isinstance(e, ast.Tuple) and len(e.elts) == 1:
            return verdict(e.elts[0], p, depth)
        if isinstance(e, ast.IfExp):
            a, b = verdict(e.body, p, depth), verdict(e.orelse, p, depth)
            if a is None or b is None:
                return None
            return (True, '') if a[0] and b[0] else (a if not a[0] else b)
        if isinstance(e, ast.Call) and len(e.args) == 1 and not e.keywords:
            f = U(e.func)
            if f in ('tuple', 'list'):
                return verdict(e.args[0], p, depth)
            if f in helpers and depth < 3:
                hp, hb = helpers[f]
                inner = verdict(e.args[0], p, depth)
                if inner is None or not inner[0]:
                    return inner
                return verdict(hb, hp, depth + 1)
            if f.endswith('.canonical') or f in ('sorted', 'set', 'frozenset', 'reversed') or f.endswith('.project'):
                inner = verdict(e.args[0], p, depth)
                if inner is not None:
                    return False, '`%s` puts the attributes into another order (Q and y keep the old one)' % U(e)[:60]
        if isinstance(e, ast.Subscript) and U(e.slice).replace(' ', '') == '::-1' and verdict(e.value, p, depth) is not None:
            return False, '`%s` reverses the attributes (Q and y keep the old order)' % U(e)[:60]
        return None
    n = 0
    sites = []
    for c in ast.walk(raw.node):
        if isinstance(c, (ast.ListComp, ast.GeneratorExp)) and len(c.generators) == 1 and isinstance(c.generators[0].target, ast.Tuple) \
                and len(c.generators[0].target.elts) == 4 and isinstance(c.elt, ast.Tuple) and len(c.elt.elts) == 4 \
                and all(isinstance(x, ast.Name) for x in c.generators[0].target.elts):
            sites.append((c, c.generators[0].target.elts[3].id, c.elt.elts[3]))
        if isinstance(c, ast.For) and isinstance(c.target, ast.Tuple) and len(c.target.elts) == 4 and all(isinstance(x, ast.Name) for x in c.target.elts):
            p = c.target.elts[3].id
            q3 = [x.id for x in c.target.elts[:3]]
            for t in ast.walk(c):
                if isinstance(t, ast.Tuple) and len(t.elts) == 4 and isinstance(t.ctx, ast.Load) and [U(x) for x in t.elts[:3]] == q3 and t is not c.target:
                    # proj re-bound inside the loop body before the tuple is built?
                    rebinds = [a for a in ast.walk(c) if isinstance(a, ast.Assign) and len(a.targets) == 1 and U(a.targets[0]) == p]
                    e = t.elts[3]
                    if rebinds and isinstance(e, ast.Name) and e.id == p and len(rebinds) == 1:
                        e = rebinds[0].value
                    sites.append((t, p, e))
    for node, p, e in sites:
        if not any(isinstance(x, ast.Name) and x.id == p for x in ast.walk(e)):
            continue          # another quantity in that position: not a re-packed proj
        v = verdict(e, p)
        if v is None:
            raise AnalysisError('%s: the measurement key `%s` is re-packed as `%s`, which this analysis cannot classify' % (raw.qualname, p, U(e)[:60]))
        n += 1
        ctx.ob(rule, node_fi, node, v[0], 'the attribute order of a measurement\'s `%s` is the layout of its Q and y and must be kept when the measurement is '
               're-packed; `%s`%s' % (p, U(e)[:60], '' if v[0] else ': ' + v[1]), construct='re-packed measurement key `%s`' % U(e)[:50])
    return n


def covering_relation(ctx, fi, rule, graph='G'):
    """RegionGraph.build_graph: an edge r1 -> r2 exactly when r2 is a proper sub-region of r1 with NO region strictly in between (the
    covering relation of the regions under inclusion).  Read on set-builder terms from the one `add_edge(r1, r2)` inside the loops over
    the regions:
        r2 ranges over the regions with set(r2) < set(r1)                       (as a condition, or as a filtered list `below`)
        kept unless  any(set(r2) < set(r3) [and set(r3) < set(r1)] for r3 in ..)  (r3 over the regions, or over `below`)
    A test between r2 and r3 by CARDINALITY (`len(r2) < len(r3)`) selects the largest sub-regions, not the maximal ones: a small sub-region
    incomparable with the large ones loses its edge and is never made consistent with r1."""
    import re
    raw = getattr(fi, 'original', fi)
    adds = [c for c in ast.walk(raw.node) if isinstance(c, ast.Call) and isinstance(c.func, ast.Attribute) and c.func.attr == 'add_edge'
            and len(c.args) == 2 and all(isinstance(a, ast.Name) for a in c.args)]
    cands = []
    for c in adds:
        # enclosing loops / tests
        chain, n = [], c
        while getattr(n, '_parent', None) is not None and n is not raw.node:
            n = n._parent
            chain.append(n)
        loops = [x for x in chain if isinstance(x, ast.For) and isinstance(x.target, ast.Name)]
        tests = [x for x in chain if isinstance(x, ast.If)]
        if len(loops) >= 2 and tests:
            cands.append((c, loops, tests))
    if not cands:
        return 0
    n_ob = 0
    for c, loops, tests in cands:
        r1, r2 = c.args[0].id, c.args[1].id
        by_var = {lp.target.id: lp for lp in loops}
        if r1 not in by_var or r2 not in by_var:
            continue
        conds = []
        for t in tests:
            conds.extend(t.test.values if isinstance(t.test, ast.BoolOp) and isinstance(t.test.op, ast.And) else [t.test])
        sub = 'set(%s)<set(%s)' % (r2, r1)
        it2 = by_var[r2].iter
        below = None
        if isinstance(it2, ast.Name):
            ds = [a.value for a in ast.walk(raw.node) if isinstance(a, ast.Assign) and len(a.targets) == 1 and U(a.targets[0]) == it2.id]
            if len(ds) == 1 and isinstance(ds[0], ast.ListComp) and len(ds[0].generators) == 1 and len(ds[0].generators[0].ifs) == 1 and \
                    U(ds[0].elt) == U(ds[0].generators[0].target) and \
                    U(ds[0].generators[0].ifs[0]).replace(' ', '') == 'set(%s)<set(%s)' % (U(ds[0].elt), r1):
                below = it2.id
        ctext = [U(x).replace(' ', '') for x in conds]
        proper = below is not None or sub in ctext or ('set(%s)>set(%s)' % (r1, r2)) in ctext
        between = [x for x in conds if isinstance(x, ast.UnaryOp) and isinstance(x.op, ast.Not) and isinstance(x.operand, ast.Call) and U(x.operand.func) == 'any'
                   and len(x.operand.args) == 1 and isinstance(x.operand.args[0], (ast.GeneratorExp, ast.ListComp)) and len(x.operand.args[0].generators) == 1]
        if not proper or len(between) != 1:
            continue
        g = between[0].operand.args[0]
        r3 = U(g.generators[0].target)
        src = U(g.generators[0].iter)
        parts = g.elt.values if isinstance(g.elt, ast.BoolOp) and isinstance(g.elt.op, ast.And) else [g.elt]
        ptext = sorted(U(x).replace(' ', '') for x in parts) + sorted(U(x).replace(' ', '') for x in g.generators[0].ifs)
        lo, hi = 'set(%s)<set(%s)' % (r2, r3), 'set(%s)<set(%s)' % (r3, r1)
        lo2, hi2 = 'set(%s)>set(%s)' % (r3, r2), 'set(%s)>set(%s)' % (r1, r3)
        norm_ = sorted({lo2: lo, hi2: hi}.get(x, x) for x in ptext)
        ok = None
        if below is not None and src == below and norm_ in ([lo], sorted([lo, hi])):
            ok = True
        elif src not in (below,) and norm_ == sorted([lo, hi]):
            ok = True
        elif any(re.fullmatch(r'len\(%s\)[<>]=?len\(%s\)' % (re.escape(a), re.escape(b)), x) for x in norm_ for a, b in ((r2, r3), (r3, r2))):
            ok = False
            why = ('`%s` compares the regions by CARDINALITY: it keeps the largest sub-regions of `%s`, not the maximal ones - a smaller sub-region that '
                   'is contained in none of the larger ones loses its edge' % (U(g.elt)[:60], r1))
        elif src not in (below,) and norm_ == [lo]:
            ok = False
            why = 'the region in between is not required to lie below `%s` (`%s` alone): any larger region anywhere removes the edge' % (r1, lo)
        if ok is None:
            raise AnalysisError('%s: the "no region in between" test `%s` is in no recognised form' % (raw.qualname, U(between[0])[:90]))
        n_ob += 1
        ctx.ob(rule, fi, between[0], ok, 'edge %s -> %s iff %s is a proper sub-region of %s with no region strictly in between (inclusion, both sides)%s'
               % (r1, r2, r2, r1, '' if ok else ': ' + why), construct='covering relation of the regions')
    return n_ob


def inclusive_closures(ctx, fi, rule, attrs=('forebears', 'downp')):
    """RegionGraph.build_graph: `forebears[r]` / `downp[r]` are the ancestors / descendants of r TOGETHER WITH r itself (the message sets of
    the region-graph propagation take differences against them: without r the region's own edges are counted as coming from outside).
    Inclusive: `set([r] + X[r])`, `{r} | ..`, a traversal from r (`dfs_preorder_nodes`, `bfs_tree`, `descendants_at_distance` are not
    accepted: only the preorder / `nx.descendants(..) | {r}`); exclusive: `nx.descendants(G, r)` / `nx.ancestors(G, r)` / `set(X[r])` alone."""
    import re
    raw = getattr(fi, 'original', fi)
    n = 0
    for a in ast.walk(raw.node):
        if not (isinstance(a, ast.Assign) and len(a.targets) == 1 and isinstance(a.targets[0], ast.Attribute) and U(a.targets[0].value) == 'self'
                and a.targets[0].attr in attrs):
            continue
        v = a.value
        if not (isinstance(v, ast.DictComp) and len(v.generators) == 1 and isinstance(v.generators[0].target, ast.Name) and U(v.key) == v.generators[0].target.id):
            raise AnalysisError('%s: `self.%s` is not built region by region' % (raw.qualname, a.targets[0].attr))
        r = v.generators[0].target.id
        t = U(v.value).replace(' ', '')
        re_r = re.escape(r)
        incl = (re.fullmatch(r'set\(\[%s\]\+.+\)' % re_r, t) or re.fullmatch(r'set\(.+\+\[%s\]\)' % re_r, t) or re.fullmatch(r'\{%s\}\|.+' % re_r, t)
                or re.fullmatch(r'.+\|\{%s\}' % re_r, t) or re.fullmatch(r'set\((nx|networkx)\.dfs_preorder_nodes\(\w+,%s\)\)' % re_r, t)
                or re.fullmatch(r'set\((nx|networkx)\.(dfs|bfs)_tree\(\w+,%s\)(\.nodes(\(\))?)?\)' % re_r, t))
        excl = (re.fullmatch(r'(set\()?(nx|networkx)\.(descendants|ancestors)\(\w+,%s\)\)?' % re_r, t) or re.fullmatch(r'set\(self\.\w+\[%s\]\)' % re_r, t)
                or re.fullmatch(r'set\(\w+\.(neighbors|successors|predecessors)\(%s\)\)' % re_r, t))
        if not incl and not excl:
            raise AnalysisError('%s: `self.%s[%s] = %s` is in no recognised form' % (raw.qualname, a.targets[0].attr, r, U(v.value)[:60]))
        n += 1
        ctx.ob(rule, fi, a, bool(incl), 'self.%s[%s] holds the %s of %s together with %s itself; built as `%s`%s' % (
            a.targets[0].attr, r, 'ancestors' if a.targets[0].attr == attrs[0] else 'descendants', r, r, U(v.value)[:70],
            '' if incl else ' - without the region itself: the propagation counts its own edges as coming from outside'),
            construct='closure self.%s' % a.targets[0].attr)
    return n


def seeded_generator_scope(ctx, fi, rule):
    """A generator seeded from an argument (`np.random.RandomState(seed)`, `default_rng(seed)`, `random.Random(seed)`) must be created ONCE per
    call of the function that takes the seed.  Created inside a nested function or a loop it restarts with the same seed every time that code
    runs: every column / group / round then draws the SAME stream, the draws are no longer independent of each other.  One obligation per such
    construction that is given a (non-None) seed expression."""
    raw = getattr(fi, 'original', fi)
    n = 0

    def visit(node, inside):
        nonlocal n
        for ch in ast.iter_child_nodes(node):
            if isinstance(ch, (ast.FunctionDef, ast.Lambda)):
                visit(ch, inside + ['the nested function `%s`' % getattr(ch, 'name', '<lambda>')])
                continue
            if isinstance(ch, (ast.For, ast.While)):
                visit(ch, inside + ['a loop'])
                continue
            if isinstance(ch, (ast.ListComp, ast.GeneratorExp, ast.SetComp, ast.DictComp)):
                visit(ch, inside + ['a comprehension'])
                continue
            if isinstance(ch, ast.Call) and U(ch.func).split('.')[-1] in ('RandomState', 'default_rng', 'Random', 'Generator') and ch.args \
                    and not (isinstance(ch.args[0], ast.Constant) and ch.args[0].value is None):
                seed_names = {x.id for x in ast.walk(ch.args[0]) if isinstance(x, ast.Name)}
                if seed_names & set(raw.params):
                    n += 1
                    ctx.ob(rule, fi, ch, not inside, 'the generator seeded with `%s` is created %s' % (U(ch.args[0]), 'once per call' if not inside else
                           'inside %s: it restarts from the same seed every time that code runs, so every use draws the same stream' % inside[-1]),
                           construct='seeded generator `%s`' % U(ch)[:50])
            visit(ch, inside)
    visit(raw.node, [])
    return n


def reachability_tables(ctx, fi, rule):
    """RegionGraph.build_graph: `self.descendants[r]` are the regions reachable from r along parent -> child edges, `self.ancestors[r]` those
    from which r is reachable.  With G the parent -> child DAG and H = G.reverse() each table may be read off a transitive closure
    (`closure(G).neighbors(r)`), or asked of networkx directly (`nx.descendants(G, r)`, `nx.ancestors(G, r)`, or either on H with the roles swapped).
    `nx.ancestors(H, r)` are the DESCENDANTS of r: stored as the ancestors they make every two parents of a region 'share an ancestor' - the region
    itself - and the pruning of the minimal region graph keeps a single parent edge per region."""
    raw = getattr(fi, 'original', fi)
    assigns = {}
    for a in ast.walk(raw.node):
        if isinstance(a, ast.Assign) and len(a.targets) == 1 and isinstance(a.targets[0], ast.Name):
            assigns.setdefault(a.targets[0].id, []).append(a.value)
        if isinstance(a, ast.Assign) and len(a.targets) == 1 and isinstance(a.targets[0], ast.Tuple) and isinstance(a.value, ast.Tuple):
            for t_, v_ in zip(a.targets[0].elts, a.value.elts):
                if isinstance(t_, ast.Name):
                    assigns.setdefault(t_.id, []).append(v_)
    fwd = {n for n, vs in assigns.items() if any(isinstance(v, ast.Call) and U(v.func) in ('nx.DiGraph', 'networkx.DiGraph') and not v.args for v in vs)}
    if len(fwd) != 1:
        raise AnalysisError('build_graph: the parent -> child graph was not found')
    G = fwd.pop()
    direction = {G: 1}
    changed = True
    while changed:
        changed = False
        for n, vs in assigns.items():
            if n in direction:
                continue
            for v in vs:
                t = U(v).replace(' ', '')
                for g, d in list(direction.items()):
                    if t == '%s.reverse()' % g or t == 'nx.reverse(%s)' % g or t == '%s.reverse(copy=True)' % g:
                        direction[n] = -d
                    elif t in ('nx.transitive_closure(%s)' % g, 'nx.transitive_closure_dag(%s)' % g):
                        direction[n] = d
                if n in direction:
                    changed = True
                    break
    n_ob = 0
    for a in ast.walk(raw.node):
        if not (isinstance(a, ast.Assign) and len(a.targets) == 1 and isinstance(a.targets[0], ast.Attribute) and U(a.targets[0].value) == 'self'
                and a.targets[0].attr in ('descendants', 'ancestors') and isinstance(a.value, ast.DictComp) and len(a.value.generators) == 1):
            continue
        r = U(a.value.generators[0].target)
        v = a.value.value
        while isinstance(v, ast.Call) and U(v.func) in ('list', 'set', 'sorted', 'tuple') and len(v.args) == 1:
            v = v.args[0]
        t = U(v).replace(' ', '')
        import re
        got = None
        m = re.fullmatch(r'(\w+)\.(neighbors|successors)\(%s\)' % re.escape(r), t)
        if m and m.group(1) in direction:
            got = direction[m.group(1)]
        m = re.fullmatch(r'(\w+)\.predecessors\(%s\)' % re.escape(r), t)
        if m and m.group(1) in direction:
            got = -direction[m.group(1)]
        m = re.fullmatch(r'(?:nx|networkx)\.(descendants|ancestors)\((\w+),%s\)' % re.escape(r), t)
        if m and m.group(2) in direction:
            got = direction[m.group(2)] * (1 if m.group(1) == 'descendants' else -1)
        if got is None:
            raise AnalysisError('build_graph: `self.%s[%s] = %s` is in no recognised form' % (a.targets[0].attr, r, U(a.value.value)[:60]))
        want = 1 if a.targets[0].attr == 'descendants' else -1
        n_ob += 1
        ctx.ob(rule, fi, a, got == want, 'self.%s[%s] must hold the regions %s %s along the parent -> child edges; `%s` yields the regions %s' % (
            a.targets[0].attr, r, 'reachable from' if want == 1 else 'that reach', r, U(a.value.value)[:60],
            'reachable from it' if got == 1 else 'that reach it'), construct='reachability table self.%s' % a.targets[0].attr)
    return n_ob


def reduce_without_start(ctx, fi, rule):
    """`reduce(f, X)` without a start value raises TypeError when X is empty (the builtin `sum` it usually replaces returns 0).  X is followed to
    the collection it ranges over: a FILTERED selection (`[cl for cl in self.cliques if v in cl]`: the factors of an attribute - none for an
    attribute no measurement mentions) can be empty and needs a guard (`if len(S) == 0: continue`, `if not S: ..`, an enclosing `if S:`); the
    members of a clique / region (the loop variable of a walk over `self.cliques` / `self.regions`) are never empty.  Returns the number of
    such calls."""
    node = fi.node
    for n_ in ast.walk(node):
        for ch_ in ast.iter_child_nodes(n_):
            ch_._gparent = n_
    n = 0
    for c in [x for x in ast.walk(node) if isinstance(x, ast.Call) and U(x.func) in ('reduce', 'functools.reduce') and len(x.args) == 2 and not x.keywords]:
        n += 1
        X = c.args[1]

        def definition(name, before):
            ds = [a for a in ast.walk(node) if isinstance(a, ast.Assign) and len(a.targets) == 1 and isinstance(a.targets[0], ast.Name)
                  and a.targets[0].id == name]
            return ds[0].value if len(ds) == 1 else None
        if isinstance(X, ast.Name):
            X = definition(X.id, c) or X
        while isinstance(X, ast.Call) and U(X.func) in ('list', 'tuple', 'iter') and len(X.args) == 1:
            X = X.args[0]
        S = None
        filtered = False
        if isinstance(X, (ast.GeneratorExp, ast.ListComp)) and len(X.generators) == 1:
            S = X.generators[0].iter
            filtered = bool(X.generators[0].ifs)
        elif isinstance(X, ast.Call) and isinstance(X.func, ast.Attribute) and X.func.attr == 'values' and not X.args:
            S = X.func.value
        elif isinstance(X, ast.Name):
            S = X
        if S is None:
            raise AnalysisError('%s: `%s` folds `%s` without a start value; whether that can be empty is not decided' % (fi.qualname, U(c)[:60], U(c.args[1])[:40]))
        sname = U(S)
        kind = None            # 'nonempty' | 'maybe-empty'
        if filtered:
            kind = 'maybe-empty'
        elif isinstance(S, ast.Name):
            d = definition(S.id, c)
            if d is not None and isinstance(d, (ast.ListComp, ast.GeneratorExp, ast.SetComp)) and any(g.ifs for g in d.generators):
                kind = 'maybe-empty'
            elif d is not None and isinstance(d, ast.Call) and U(d.func) == 'filter':
                kind = 'maybe-empty'
            else:
                # a loop variable walking the cliques / regions: a clique has at least one attribute
                for lp in [x for x in ast.walk(node) if isinstance(x, ast.For) and isinstance(x.target, ast.Name) and x.target.id == S.id]:
                    if U(lp.iter).replace(' ', '') in ('self.cliques', 'self.regions', 'cliques', 'self.model.cliques') and any(y is c for y in ast.walk(lp)):
                        kind = 'nonempty'
        if kind is None:
            raise AnalysisError('%s: `%s` folds over `%s` without a start value; whether that can be empty is not decided' % (fi.qualname, U(c)[:60], sname[:40]))
        guarded = False
        if kind == 'maybe-empty':
            empties = {'len(%s)==0' % sname, 'not%s' % sname, 'len(%s)<1' % sname, '%s==[]' % sname, 'notlen(%s)' % sname}
            nonempties = {sname, 'len(%s)>0' % sname, 'len(%s)!=0' % sname, 'len(%s)>=1' % sname, 'len(%s)' % sname}
            cur = c
            while cur is not node and cur is not None:
                par = getattr(cur, '_gparent', None)
                if isinstance(par, ast.If):
                    t = U(par.test).replace(' ', '')
                    if (cur in par.body and t in nonempties) or (cur in par.orelse and t in empties):
                        guarded = True
                for fld in ('body', 'orelse'):
                    blk = getattr(par, fld, None) if par is not None else None
                    if isinstance(blk, list) and cur in blk:
                        for st in blk[:blk.index(cur)]:
                            if isinstance(st, ast.If) and U(st.test).replace(' ', '') in empties and st.body \
                                    and isinstance(st.body[-1], (ast.Continue, ast.Return, ast.Raise, ast.Break)):
                                guarded = True
                cur = par
        ok = kind == 'nonempty' or guarded
        ctx.ob(rule, fi, c, ok,
               '`%s` has no start value: %s' % (U(c)[:70], 'it folds the members of a clique, of which there is at least one' if kind == 'nonempty' else
                                                ('`%s` is a filtered selection, and the fold is only reached when it is non-empty' % sname if guarded else
                                                 '`%s` is a filtered selection that is EMPTY for an attribute no measurement mentions (the domain may be larger than the '
                                                 'union of the measured cliques): reduce() of an empty iterable raises TypeError where sum() gave 0' % sname)),
               construct='fold without a start value: `%s`' % U(c)[:50])
    return n

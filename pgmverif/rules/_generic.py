"""Idiom rules that hold for any function (applied by the property rules to the functions they analyse)."""
import ast

from ..srcmodel import AnalysisError, U, canon_compare


def scan_pop(ctx, fi, rule='exactly-once'):
    """`while i < len(L): ... L.pop(i) ... i += 1`: a scan that removes elements while it walks the list.  After L.pop(i) the next element
    has moved INTO position i, so on a path that removes the element the index must stay; advancing it as well skips that element (it is
    never examined).  One obligation per such loop; nothing is claimed about loops that are not of this idiom."""
    n = 0
    for w in [x for x in ast.walk(fi.node) if isinstance(x, ast.While)]:
        t = canon_compare(w.test)
        if not (isinstance(t, ast.Compare) and len(t.ops) == 1 and isinstance(t.ops[0], ast.Lt) and isinstance(t.left, ast.Name)
                and isinstance(t.comparators[0], ast.Call) and U(t.comparators[0].func) == 'len' and len(t.comparators[0].args) == 1):
            continue
        i, L = t.left.id, U(t.comparators[0].args[0])

        def pops(node):
            k = 0
            for x in ast.walk(node):
                if isinstance(x, ast.Call) and isinstance(x.func, ast.Attribute) and x.func.attr == 'pop' and U(x.func.value) == L \
                        and len(x.args) == 1 and U(x.args[0]) == i:
                    k += 1
                if isinstance(x, ast.Delete) and any(U(tg) == '%s[%s]' % (L, i) for tg in x.targets):
                    k += 1
            return k

        def incs(node):
            k = 0
            for x in ast.walk(node):
                if isinstance(x, ast.AugAssign) and U(x.target) == i and isinstance(x.op, ast.Add):
                    k += 1
                if isinstance(x, ast.Assign) and any(U(tg) == i for tg in x.targets) and U(x.value).replace(' ', '') in (i + '+1', '1+' + i):
                    k += 1
            return k
        if not pops(w) or not incs(w):
            continue

        def paths(stmts):
            """-> list of (pops, incs) per path through the statement list"""
            out = [(0, 0)]
            for s in stmts:
                if isinstance(s, ast.If):
                    tp = pops(s.test)
                    alts = [(a + tp, b) for a, b in paths(s.body)] + [(a + tp, b) for a, b in paths(s.orelse)]
                elif isinstance(s, (ast.For, ast.While, ast.Try, ast.With)):
                    if pops(s) or incs(s):
                        raise AnalysisError('%s: the scan `%s` removes / advances inside a nested block' % (fi.qualname, U(w.test)))
                    alts = [(0, 0)]
                else:
                    alts = [(pops(s), incs(s))]
                out = [(a + c, b + d) for a, b in out for c, d in alts]
                if len(out) > 256:
                    raise AnalysisError('%s: too many paths through the scan `%s`' % (fi.qualname, U(w.test)))
                if isinstance(s, (ast.Continue, ast.Break, ast.Return, ast.Raise)):
                    break
            return out
        ps = paths(w.body)
        both = [p for p in ps if p[0] and p[1]]
        n += 1
        ctx.ob(rule, fi, w, not both,
               'scan of `%s` by index `%s` that removes elements with %s.pop(%s): on the path that removes the element the index must stay (the '
               'next element has moved into position %s)%s' % (L, i, L, i, i, '' if not both else
                                                                '; here a path both removes and advances: the element after every removed one is never examined'),
               construct='scan ' + U(w.test))
    return n

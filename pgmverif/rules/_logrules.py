"""Shared L1 / L2 obligations on top of the E3 log-space engine."""
import ast

from ..engines.logspace import LogSpace, classify, RAW, NORM, TOTALNORM, LOGLIN, LIN
from ..srcmodel import AnalysisError, U, header


def analyse(fi, scalar_names=()):
    an = LogSpace(fi, scalar_names)
    an.analyse()
    return an


def L1(ctx, fi, an=None, rule='exp-normalised', skip=()):
    """every exponentiation operand is NORM / TOTALNORM / LOGLIN"""
    an = an or analyse(fi)
    n = 0
    for s in sorted(an.sites.values(), key=lambda s: (s.node.lineno, s.node.col_offset)):
        if id(s.node) in skip:
            continue
        n += 1
        ok = s.cls in (NORM, TOTALNORM, LOGLIN)
        why = s.how or ('operand `%s` is %s%s: %s' % (U(s.operand)[:60], s.cls,
                                                      (' to ' + s.total) if s.total else '', s.form))
        if not ok:
            why = ('exponentiation of an un-normalised log quantity `%s` (overflows / underflows to all-zero for '
                   'large magnitudes); abstract form: %s' % (U(s.operand)[:60], s.form))
        ctx.ob(rule, fi, s.node, ok, why)
    return an, n


def L2_container(ctx, fi, an, total_text, rule='returned-normalised-to-total'):
    """Every table stored into the container the function returns is exp of a TOTALNORM(total_text) value,
    the container starts empty (or is rebuilt element-wise), and there is at least one such store."""
    n = 0
    rets = [(s, v) for s, v, f, env in an.returned]
    conts = set()
    for s, v in rets:
        c = v
        if isinstance(c, ast.Call) and len(c.args) == 1 and isinstance(c.func, ast.Name):
            c = c.args[0]           # CliqueVector(marginals)
        if isinstance(c, ast.Name):
            conts.add(c.id)
    for c in sorted(conts):
        stores = an.stores.get(c, {})
        if not stores:
            continue
        for stmt, cls, total in stores.values():
            n += 1
            ok = cls == TOTALNORM and total == total_text
            ctx.ob(rule, fi, stmt, ok,
                   'table stored into the returned container `%s` is exp of a value that is %s%s; required: normalised '
                   'by its own full logsumexp plus log(%s)' % (c, cls, (' to ' + total) if total else '', total_text))
    return n

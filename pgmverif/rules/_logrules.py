"""Shared L1 / L2 obligations on top of the E3 log-space engine."""
import ast

from ..engines.logspace import LogSpace, classify, RAW, NORM, TOTALNORM, LOGLIN, LIN
from ..srcmodel import kwarg, AnalysisError, U, header


def analyse(fi, scalar_names=()):
    an = LogSpace(fi, scalar_names)
    an.analyse()
    return an


def L1(ctx, fi, an=None, rule='exp-normalised', skip=()):
    """every exponentiation operand is NORM / TOTALNORM / LOGLIN"""
    an = an or analyse(fi)
    n = 0
    for s in sorted(an.sites.values(), key=lambda s: (s.node.lineno, s.node.col_offset)):
        if id(s.node) in skip:
            continue
        n += 1
        ok = s.cls in (NORM, TOTALNORM, LOGLIN)
        why = s.how or ('operand `%s` is %s%s: %s' % (U(s.operand)[:60], s.cls,
                                                      (' to ' + s.total) if s.total else '', s.form))
        if not ok:
            why = ('exponentiation of an un-normalised log quantity `%s` (overflows / underflows to all-zero for '
                   'large magnitudes); abstract form: %s' % (U(s.operand)[:60], s.form))
        ctx.ob(rule, fi, s.node, ok, why)
    return an, n


def L2_container(ctx, fi, an, total_text, rule='returned-normalised-to-total'):
    """Every table stored into the container the function returns is exp of a TOTALNORM(total_text) value,
    the container starts empty (or is rebuilt element-wise), and there is at least one such store."""
    n = 0
    rets = [(s, v) for s, v, f, env in an.returned]
    conts = set()
    for s, v in rets:
        c = v
        if isinstance(c, ast.Call) and len(c.args) == 1 and isinstance(c.func, ast.Name):
            c = c.args[0]           # CliqueVector(marginals)
        # an element-wise copy of the container: {k: C[k].copy() for k in C}  (also list(C.items()) spellings are not needed here)
        if isinstance(c, ast.DictComp) and len(c.generators) == 1 and not c.generators[0].ifs and isinstance(c.generators[0].iter, ast.Name) \
                and isinstance(c.generators[0].target, ast.Name) and U(c.key) == c.generators[0].target.id:
            C_, k_ = c.generators[0].iter.id, c.generators[0].target.id
            if U(c.value).replace(' ', '') in ('%s[%s].copy()' % (C_, k_), '%s[%s]' % (C_, k_)):
                c = c.generators[0].iter
        if isinstance(c, ast.Name):
            conts.add(c.id)
    for c in sorted(conts):
        stores = an.stores.get(c, {})
        if not stores:
            continue
        for stmt, cls, total in stores.values():
            # `C[k] = C[k] + x` / `C[k] = C[k] - x`: a log-space update of an element written out of place (the same thing as `+=`),
            # not the construction of a returned table
            if isinstance(stmt, ast.Assign) and len(stmt.targets) == 1 and isinstance(stmt.value, ast.BinOp) and \
                    isinstance(stmt.value.op, (ast.Add, ast.Sub)) and U(stmt.value.left) == U(stmt.targets[0]):
                continue
            n += 1
            ok = cls == TOTALNORM and total == total_text
            ctx.ob(rule, fi, stmt, ok,
                   'table stored into the returned container `%s` is exp of a value that is %s%s; required: normalised '
                   'by its own full logsumexp plus log(%s)' % (c, cls, (' to ' + total) if total else '', total_text))
    return n


def lse_primitive(ctx, rel='src/mbi/factor.py', qual='Factor.logsumexp', rule='lse-primitive'):
    """Log-sum-exp reductions of a factor must be the trusted, -inf-safe primitive scipy.special.logsumexp, or a
    hand-written max-shifted reduction whose shift is sanitised against non-finite values: a slice that is entirely
    -inf (a structurally impossible attribute value) must give -inf, not NaN."""
    repo = ctx.repo
    fi = repo.nfunc(rel, qual)
    mod = fi.module
    todo, seen = [fi], set()
    n = 0
    while todo:
        f = todo.pop()
        if f.qualname in seen:
            continue
        seen.add(f.qualname)
        ctx.analysed(f)
        hand_rolled = []
        for c in ast.walk(f.node):
            if not isinstance(c, ast.Call):
                continue
            fn = c.func
            d = mod.dotted(fn) if isinstance(fn, (ast.Name, ast.Attribute)) else None
            if d and d.endswith('logsumexp'):
                if d.startswith('scipy.'):
                    n += 1
                    ctx.ob(rule, f, c, True, 'reduction by scipy.special.logsumexp (shift-stable, returns -inf for all -inf input)')
                elif isinstance(fn, ast.Name) and fn.id in mod.funcs and fn.id not in seen:
                    todo.append(mod.funcs[fn.id])      # a local implementation: analyse it
                elif isinstance(fn, ast.Attribute) and U(fn.value) != 'self':
                    pass
            if d and d.split('.')[-1] == 'exp' and d.startswith('numpy.') and c.args:
                hand_rolled.append(c)
        for c in hand_rolled:
            n += 1
            arg = c.args[0]
            ok, why = False, 'exponential of an unshifted array inside a log-sum-exp reduction'
            if isinstance(arg, ast.BinOp) and isinstance(arg.op, ast.Sub):
                shift = arg.right
                sname = U(shift)
                # the shift must be sanitised: an isfinite/isinf/where/nan_to_num construct mentioning it before use
                guards = [g for g in ast.walk(f.node) if isinstance(g, ast.Call) and
                          U(g.func).split('.')[-1] in ('isfinite', 'isinf', 'isneginf', 'where', 'nan_to_num')
                          and any(U(x) == sname for a in g.args for x in ast.walk(a))
                          and getattr(g, 'lineno', 0) <= c.lineno]
                ok = bool(guards)
                why = ('max-shift `%s` %s sanitised against non-finite values before `%s`: a slice of all -inf gives '
                       '(-inf) - (-inf) = NaN otherwise' % (sname, 'is' if ok else 'is NOT', U(c)[:50]))
                # the shift must be taken per output slice: over exactly the axes the sum runs over (keepdims), else a slice far
                # below the global maximum underflows to exp(.) = 0 and its log-sum-exp becomes -inf
                par = getattr(c, '_parent', None)
                while par is not None and not (isinstance(par, ast.Call) and U(par.func).split('.')[-1] == 'sum'):
                    par = getattr(par, '_parent', None) if not isinstance(par, ast.stmt) else None
                if par is not None and isinstance(shift, ast.Name):
                    sum_axis = kwarg(par, 'axis', 1)
                    maxes = [m for st in ast.walk(f.node) if isinstance(st, ast.Assign) and any(U(t) == sname for t in st.targets)
                             for m in ast.walk(st.value) if isinstance(m, ast.Call) and U(m.func).split('.')[-1] in ('max', 'amax')]
                    if maxes:
                        m = maxes[0]
                        is_np = U(m.func).split('.')[0] in ('np', 'numpy')
                        max_axis = kwarg(m, 'axis', 1 if is_np else 0)
                        keep = kwarg(m, 'keepdims', None)
                        if sum_axis is not None and not (isinstance(sum_axis, ast.Constant) and sum_axis.value is None):
                            per_slice = max_axis is not None and U(max_axis) == U(sum_axis) and isinstance(keep, ast.Constant) and keep.value is True
                            ctx.ob(rule, f, m, per_slice,
                                   'the shift of a reduction over axis=%s must be the maximum over the same axes with keepdims=True (one '
                                   'shift per output cell); the shift is `%s`: with a single global shift every slice more than ~745 below '
                                   'the global maximum underflows to -inf' % (U(sum_axis), U(m)), construct='shift axes of the hand-written log-sum-exp')
            ctx.ob(rule, f, c, ok, why)
    if n == 0:
        raise AnalysisError('%s: no log-sum-exp reduction found' % qual)
    return n

"""Variant table.  Each entry: prop, id, kind ('K' kill / 'T' twin), edits [(file, old, new)], optional rule.
`old` must occur exactly once in the current source of `file`; otherwise the variant is reported stale."""

F = 'src/mbi/factor.py'
CV = 'src/mbi/clique_vector.py'
DOM = 'src/mbi/domain.py'
DS = 'src/mbi/dataset.py'
GM = 'src/mbi/graphical_model.py'
INF = 'src/mbi/inference.py'
LI = 'src/mbi/local_inference.py'
PI = 'src/mbi/public_inference.py'
RG = 'src/mbi/region_graph.py'
FG = 'src/mbi/factor_graph.py'

MUTANTS = []


def K(prop, id, edits, rule=None):
    MUTANTS.append({'prop': prop, 'id': id, 'kind': 'K', 'edits': edits, 'rule': rule})


def T(prop, id, edits):
    MUTANTS.append({'prop': prop, 'id': id, 'kind': 'T', 'edits': edits})


# ------------------------------------------------------------------ C14
K('C14', 'sum-positional-axes', [(F, "        axes = self.domain.axes(attrs)\n        values = np.sum(self.values, axis=axes) ",
                                    "        axes = tuple(range(len(attrs)))\n        values = np.sum(self.values, axis=axes) ")], 'axis-by-name')
K('C14', 'expand-moveaxis-swapped', [(F, "values = np.moveaxis(values, range(len(ax)), ax)\n        values = np.broadcast_to",
                                        "values = np.moveaxis(values, ax, range(len(ax)))\n        values = np.broadcast_to")], 'axis-by-name')
K('C14', 'transpose-inverse-perm', [(F, "ax = newdom.axes(self.domain.attrs)", "ax = self.domain.axes(newdom.attrs)")], 'axis-by-name')
K('C14', 'add-no-expand', [(F, "        return Factor(newdom, factor1.values + factor2.values)",
                              "        return Factor(newdom, factor1.values + other.values)")], 'elementwise')
K('C14', 'iadd-no-expand', [(F, "        factor2 = other.expand(self.domain)\n        self.values += factor2.values",
                               "        self.values += other.values")], 'inplace')
K('C14', 'logaddexp-self-twice', [(F, "        factor2 = other.expand(newdom)\n        return Factor(newdom, np.logaddexp(",
                                     "        factor2 = self.expand(newdom)\n        return Factor(newdom, np.logaddexp(")], 'operands')
K('C14', 'max-wrong-newdom', [(F, "        values = np.max(self.values, axis=axes)\n        newdom = self.domain.marginalize(attrs)",
                                 "        values = np.max(self.values, axis=axes)\n        newdom = self.domain.project(attrs)")], 'construct')
K('C14', 'project-no-transpose', [(F, "        return ans.transpose(attrs)", "        return ans")], 'result-domain')
K('C14', 'condition-iter-evidence', [(F, "for a in self.domain]\n        newdom = self.domain.marginalize(evidence.keys())",
                                        "for a in evidence]\n        newdom = self.domain.marginalize(evidence.keys())")], 'index-by-name')
K('C14', 'truediv-no-expand', [(F, "        tmp = other.expand(self.domain)\n        vals = np.divide(self.values, tmp.values, where=tmp.values>0)",
                                  "        tmp = other\n        vals = np.divide(self.values, tmp.values, where=tmp.values>0)")], 'elementwise')
K('C14', 'cv-add-wrong-key', [(CV, "ans = { cl : self[cl] + other[cl] for cl in self }",
                                  "ans = { cl : self[cl] + other[k] for cl, k in zip(self, other) }")], None)
K('C14', 'cv-combine-no-break', [(CV, "                    self[cl2] += other[cl]\n                    break",
                                     "                    self[cl2] += other[cl]")], 'cv-combine')
K('C14', 'cv-combine-reversed-subset', [(CV, "if set(cl) <= set(cl2):", "if set(cl2) <= set(cl):")], 'cv-combine')
K('C14', 'axes-sorted', [(DOM, "return tuple(self.attrs.index(a) for a in attrs)", "return tuple(sorted(self.attrs.index(a) for a in attrs))")], None)
K('C14', 'bp-exp-out-other', [(GM, "beliefs[cl] = beliefs[cl].exp(out=beliefs[cl])", "beliefs[cl] = beliefs[cl].exp(out=potentials[cl])")], 'out-contract')
T('C14', 'sum-method-form', [(F, "        values = np.sum(self.values, axis=axes) ", "        values = self.values.sum(axis=axes) ")])
T('C14', 'sum-newdom-first', [(F, "        axes = self.domain.axes(attrs)\n        values = np.sum(self.values, axis=axes) \n        newdom = self.domain.marginalize(attrs)",
                                 "        newdom = self.domain.marginalize(attrs)\n        axes = self.domain.axes(attrs)\n        values = np.sum(self.values, axis=axes) ")])
T('C14', 'transpose-np-transpose', [(F, "        ax = newdom.axes(self.domain.attrs)\n        values = np.moveaxis(self.values, range(len(ax)), ax)",
                                        "        values = np.transpose(self.values, self.domain.axes(attrs))")])
T('C14', 'add-renamed-locals', [(F, "        factor1 = self.expand(newdom)\n        factor2 = other.expand(newdom)\n        return Factor(newdom, factor1.values + factor2.values)",
                                   "        a = self.expand(newdom)\n        b = other.expand(newdom)\n        vals = a.values + b.values\n        return Factor(newdom, vals)")])
T('C14', 'expand-pad-tuple-literal', [(F, "values = self.values.reshape(self.domain.shape + tuple([1]*dims))",
                                         "values = self.values.reshape(self.domain.shape + (1,)*dims)")])
T('C14', 'cv-combine-issubset', [(CV, "if set(cl) <= set(cl2):", "if set(cl2) >= set(cl):")])
T('C14', 'axes-inline-generator', [(F, "        axes = self.domain.axes(attrs)\n        values = logsumexp(self.values, axis=axes) ",
                                      "        axes = tuple(self.domain.attrs.index(a) for a in attrs)\n        values = logsumexp(self.values, axis=axes) ")])

"""Variant table.  Each entry: prop, id, kind ('K' kill / 'T' twin), edits [(file, old, new)], optional rule.
`old` must occur exactly once in the current source of `file`; otherwise the variant is reported stale."""

F = 'src/mbi/factor.py'
CV = 'src/mbi/clique_vector.py'
DOM = 'src/mbi/domain.py'
DS = 'src/mbi/dataset.py'
GM = 'src/mbi/graphical_model.py'
INF = 'src/mbi/inference.py'
LI = 'src/mbi/local_inference.py'
PI = 'src/mbi/public_inference.py'
RG = 'src/mbi/region_graph.py'
FG = 'src/mbi/factor_graph.py'

MUTANTS = []


def K(prop, id, edits, rule=None):
    MUTANTS.append({'prop': prop, 'id': id, 'kind': 'K', 'edits': edits, 'rule': rule})


def T(prop, id, edits):
    MUTANTS.append({'prop': prop, 'id': id, 'kind': 'T', 'edits': edits})


# ------------------------------------------------------------------ C14
K('C14', 'sum-positional-axes', [(F, "        axes = self.domain.axes(attrs)\n        values = np.sum(self.values, axis=axes) ",
                                    "        axes = tuple(range(len(attrs)))\n        values = np.sum(self.values, axis=axes) ")], 'axis-by-name')
K('C14', 'expand-moveaxis-swapped', [(F, "values = np.moveaxis(values, range(len(ax)), ax)\n        values = np.broadcast_to",
                                        "values = np.moveaxis(values, ax, range(len(ax)))\n        values = np.broadcast_to")], 'axis-by-name')
K('C14', 'transpose-inverse-perm', [(F, "ax = newdom.axes(self.domain.attrs)", "ax = self.domain.axes(newdom.attrs)")], 'axis-by-name')
K('C14', 'add-no-expand', [(F, "        return Factor(newdom, factor1.values + factor2.values)",
                              "        return Factor(newdom, factor1.values + other.values)")], 'elementwise')
K('C14', 'iadd-no-expand', [(F, "        factor2 = other.expand(self.domain)\n        self.values += factor2.values",
                               "        self.values += other.values")], 'inplace')
K('C14', 'logaddexp-self-twice', [(F, "        factor2 = other.expand(newdom)\n        return Factor(newdom, np.logaddexp(",
                                     "        factor2 = self.expand(newdom)\n        return Factor(newdom, np.logaddexp(")], 'operands')
K('C14', 'max-wrong-newdom', [(F, "        values = np.max(self.values, axis=axes)\n        newdom = self.domain.marginalize(attrs)",
                                 "        values = np.max(self.values, axis=axes)\n        newdom = self.domain.project(attrs)")], 'construct')
K('C14', 'project-no-transpose', [(F, "        return ans.transpose(attrs)", "        return ans")], 'result-domain')
K('C14', 'condition-iter-evidence', [(F, "for a in self.domain]\n        newdom = self.domain.marginalize(evidence.keys())",
                                        "for a in evidence]\n        newdom = self.domain.marginalize(evidence.keys())")], 'index-by-name')
K('C14', 'truediv-no-expand', [(F, "        tmp = other.expand(self.domain)\n        vals = np.divide(self.values, tmp.values, where=tmp.values>0)",
                                  "        tmp = other\n        vals = np.divide(self.values, tmp.values, where=tmp.values>0)")], 'elementwise')
K('C14', 'cv-add-wrong-key', [(CV, "ans = { cl : self[cl] + other[cl] for cl in self }",
                                  "ans = { cl : self[cl] + other[k] for cl, k in zip(self, other) }")], None)
K('C14', 'cv-combine-no-break', [(CV, "                    self[cl2] += other[cl]\n                    break",
                                     "                    self[cl2] += other[cl]")], 'cv-combine')
K('C14', 'cv-combine-reversed-subset', [(CV, "if set(cl) <= set(cl2):", "if set(cl2) <= set(cl):")], 'cv-combine')
K('C14', 'axes-sorted', [(DOM, "return tuple(self.attrs.index(a) for a in attrs)", "return tuple(sorted(self.attrs.index(a) for a in attrs))")], None)
K('C14', 'bp-exp-out-other', [(GM, "beliefs[cl] = beliefs[cl].exp(out=beliefs[cl])", "beliefs[cl] = beliefs[cl].exp(out=potentials[cl])")], 'out-contract')
T('C14', 'sum-method-form', [(F, "        values = np.sum(self.values, axis=axes) ", "        values = self.values.sum(axis=axes) ")])
T('C14', 'sum-newdom-first', [(F, "        axes = self.domain.axes(attrs)\n        values = np.sum(self.values, axis=axes) \n        newdom = self.domain.marginalize(attrs)",
                                 "        newdom = self.domain.marginalize(attrs)\n        axes = self.domain.axes(attrs)\n        values = np.sum(self.values, axis=axes) ")])
T('C14', 'transpose-np-transpose', [(F, "        ax = newdom.axes(self.domain.attrs)\n        values = np.moveaxis(self.values, range(len(ax)), ax)",
                                        "        values = np.transpose(self.values, self.domain.axes(attrs))")])
T('C14', 'add-renamed-locals', [(F, "        factor1 = self.expand(newdom)\n        factor2 = other.expand(newdom)\n        return Factor(newdom, factor1.values + factor2.values)",
                                   "        a = self.expand(newdom)\n        b = other.expand(newdom)\n        vals = a.values + b.values\n        return Factor(newdom, vals)")])
T('C14', 'expand-pad-tuple-literal', [(F, "values = self.values.reshape(self.domain.shape + tuple([1]*dims))",
                                         "values = self.values.reshape(self.domain.shape + (1,)*dims)")])
T('C14', 'cv-combine-issubset', [(CV, "if set(cl) <= set(cl2):", "if set(cl2) >= set(cl):")])
T('C14', 'axes-inline-generator', [(F, "        axes = self.domain.axes(attrs)\n        values = logsumexp(self.values, axis=axes) ",
                                      "        axes = tuple(self.domain.attrs.index(a) for a in attrs)\n        values = logsumexp(self.values, axis=axes) ")])
T('C14', 'iadd-equal-domain-fastpath', [(F, "        factor2 = other.expand(self.domain)\n        self.values += factor2.values",
                                           "        if other.domain == self.domain:\n            self.values += other.values\n            return self\n        factor2 = other.expand(self.domain)\n        self.values += factor2.values")])
K('C14', 'iadd-same-attrset-fastpath', [(F, "        factor2 = other.expand(self.domain)\n        self.values += factor2.values",
                                           "        if other.domain.contains(self.domain):\n            self.values += other.values\n            return self\n        factor2 = other.expand(self.domain)\n        self.values += factor2.values")], 'inplace')

# ------------------------------------------------------------------ C08
K('C08', 'md-store-omega-with-trial-mu', [(INF, "        model.potentials = theta\n        model.marginals = mu\n\n        return ans[0]",
                                            "        model.potentials = omega\n        model.marginals = mu\n\n        return ans[0]")], 'pair-at-exit')
K('C08', 'ig-store-mle-z-with-x', [(INF, "        model.marginals = x\n        model.potentials = model.mle(x) ", "        model.marginals = x\n        model.potentials = model.mle(z) ")], 'pair-at-exit')
K('C08', 'rda-store-marginals-only', [(INF, "        model.marginals = w\n        model.potentials = model.mle(w) ", "        model.marginals = w\n")], 'pair-at-exit')
K('C08', 'md-restore-theta-only', [(INF, "                alpha *= 0.5\n\n        model.potentials = theta", "                alpha *= 0.5\n            else:\n                theta = omega\n\n        model.potentials = theta")], 'pair-at-exit')
K('C08', 'md-mu-after-store-update', [(INF, "        model.potentials = theta\n        model.marginals = mu\n\n        return ans[0]",
                                         "        model.potentials = theta\n        theta = theta - alpha*dL\n        model.marginals = model.belief_propagation(theta)\n\n        return ans[0]")], 'pair-at-exit')
K('C08', 'mle-prev-clique-separator', [(GM, "            new = tuple(variables & set(cl))\n            #factor = marginals[cl] / marginals[cl].project(new)\n            variables.update(cl)",
                                          "            new = tuple(variables & set(cl))\n            variables = set(cl)")], 'mle-form')
K('C08', 'mle-update-before-separator', [(GM, "            new = tuple(variables & set(cl))\n            #factor = marginals[cl] / marginals[cl].project(new)\n            variables.update(cl)",
                                            "            variables.update(cl)\n            new = tuple(variables & set(cl))")], 'mle-form')
T('C08', 'md-tuple-store', [(INF, "        model.potentials = theta\n        model.marginals = mu\n\n        return ans[0]",
                              "        model.potentials, model.marginals = theta, mu\n\n        return ans[0]")])
T('C08', 'ig-store-order-swapped', [(INF, "        model.marginals = x\n        model.potentials = model.mle(x) ", "        model.potentials = model.mle(x)\n        model.marginals = x")])
T('C08', 'rda-store-via-self-model', [(INF, "        model.marginals = w\n        model.potentials = model.mle(w) ", "        self.model.marginals = w\n        self.model.potentials = self.model.mle(w) ")])
T('C08', 'md-renamed-locals', [(INF, "                theta = omega - alpha*dL\n                mu = model.belief_propagation(theta)\n                ans = self._marginal_loss(mu)",
                                 "                theta = omega - alpha*dL\n                trial = model.belief_propagation(theta)\n                mu = trial\n                ans = self._marginal_loss(mu)")])

# ------------------------------------------------------------------ C10
K('C10', 'rda-drop-zeros', [(INF, "theta = zeros + -t*(t+1)/(4*L+beta)/self.model.total * gbar ", "theta = -t*(t+1)/(4*L+beta)/self.model.total * gbar ")], 'mask-at-bp')
K('C10', 'setup-mask-only-cold', [(INF, "        model.potentials.combine(self.structural_zeros)\n        if self.warm_start and hasattr(self, 'model'):\n            model.potentials.combine(self.model.potentials)",
                                     "        if self.warm_start and hasattr(self, 'model'):\n            model.potentials.combine(self.model.potentials)\n        else:\n            model.potentials.combine(self.structural_zeros)")], 'mask-at-setup')
K('C10', 'active-writes-zero', [(F, "        vals[idx] = -np.inf", "        vals[idx] = 0")], 'active-form')
K('C10', 'ig-theta-rebuilt', [(INF, "            theta = theta - a/c/total * g", "            theta = -a/c/total * g")], 'mask-at-bp')
K('C10', 'md-theta-scaled', [(INF, "                theta = omega - alpha*dL", "                theta = 0.5*omega - alpha*dL")], 'mask-at-bp')
K('C10', 'setup-no-zero-cliques', [(INF, "        if self.structural_zeros is not None:\n            cliques += list(self.structural_zeros.keys())\n\n        model = GraphicalModel(",
                                       "        model = GraphicalModel(")], 'zero-cliques')
K('C10', 'sub-no-inf-guard', [(F, "        other = Factor(other.domain, np.where(other.values==-np.inf, 0, -other.values))\n        return self + other",
                                 "        other = Factor(other.domain, -other.values)\n        return self + other")], 'inf-guard')
K('C10', 'ctor-skips-singletons', [(INF, "        for cl in structural_zeros:\n            dom = self.domain.project(cl)",
                                       "        for cl in structural_zeros:\n            if len(cl) < 2: continue\n            dom = self.domain.project(cl)")], 'mask-per-key')
T('C10', 'md-theta-plus-neg', [(INF, "                theta = omega - alpha*dL", "                theta = omega + (-alpha)*dL")])
T('C10', 'setup-mask-after-warm', [(INF, "        model.potentials.combine(self.structural_zeros)\n        if self.warm_start and hasattr(self, 'model'):\n            model.potentials.combine(self.model.potentials)",
                                      "        if self.warm_start and hasattr(self, 'model'):\n            model.potentials.combine(self.model.potentials)\n        model.potentials.combine(self.structural_zeros)")])
T('C10', 'sub-isneginf-guard', [(F, "np.where(other.values==-np.inf, 0, -other.values)", "np.where(np.isneginf(other.values), 0, -other.values)")])
T('C10', 'ig-theta-inplace-sub', [(INF, "            theta = theta - a/c/total * g", "            theta -= a/c/total * g")])

# ------------------------------------------------------------------ C16
K('C16', 'gbp-drop-log-total', [(RG, "            belief = potentials[r] + sum(self.messages[r1,r2] for r1,r2 in self.B[r])\n            belief += np.log(self.total) - belief.logsumexp()",
                                   "            belief = potentials[r] + sum(self.messages[r1,r2] for r1,r2 in self.B[r])\n            belief += -belief.logsumexp()")], 'returned-normalised-to-total')
K('C16', 'gbp-normalise-by-potential', [(RG, "            belief = potentials[r] + sum(self.messages[r1,r2] for r1,r2 in self.B[r])\n            belief += np.log(self.total) - belief.logsumexp()",
                                           "            belief = potentials[r] + sum(self.messages[r1,r2] for r1,r2 in self.B[r])\n            belief += np.log(self.total) - potentials[r].logsumexp()")], None)
K('C16', 'cm-raw-exp', [(FG, "            belief += np.log(self.total) - belief.logsumexp()\n            marginals[cl] = belief.exp()", "            marginals[cl] = belief.exp() * self.total")], None)
K('C16', 'cm-cached-logtotal', [(FG, "            belief += np.log(self.total) - belief.logsumexp()\n            marginals[cl] = belief.exp()", "            belief += self.logtotal - belief.logsumexp()\n            marginals[cl] = belief.exp()")], None)
K('C16', 'cm-stale-potentials', [(FG, "            belief = potentials[cl] + sum(mu_n[n][cl] for n in cl)", "            belief = self.potentials[cl] + sum(mu_n[n][cl] for n in cl)")], 'oracle-uses-given-potentials')
K('C16', 'lbp-returns-old-marginals', [(FG, "        self.messages = mu_n, mu_f\n        self.marginals = self.clique_marginals(mu_n, mu_f, potentials)\n        return self.marginals",
                                          "        self.messages = mu_n, mu_f\n        old = self.marginals\n        self.marginals = self.clique_marginals(mu_n, mu_f, potentials)\n        return old")], 'returns-clique-marginals')
T('C16', 'gbp-hoisted-shift', [(RG, "            belief = potentials[r] + sum(self.messages[r1,r2] for r1,r2 in self.B[r])\n            belief += np.log(self.total) - belief.logsumexp()",
                                  "            belief = potentials[r] + sum(self.messages[r1,r2] for r1,r2 in self.B[r])\n            logt = np.log(self.total)\n            shift = logt - belief.logsumexp()\n            belief = belief + shift")])
T('C16', 'cm-one-expression', [(FG, "            belief += np.log(self.total) - belief.logsumexp()\n            marginals[cl] = belief.exp()", "            marginals[cl] = (belief - belief.logsumexp() + np.log(self.total)).exp()")])

# ------------------------------------------------------------------ C18
K('C18', 'fg-no-damping', [(FG, "        self.iters = iters\n        self.damping = 0.5\n", "        self.iters = iters\n")], 'conformance')
K('C18', 'li-reads-convergence', [(LI, "            if model.primal_feasibility(mu) < 1.0:", "            if model.primal_feasibility(mu) < model.convergence:")], 'conformance')
K('C18', 'fg-messages-lazy', [(FG, "        self.messages = self.init_messages()\n", "        if convex:\n            self.messages = self.init_messages()\n")], 'conformance')
K('C18', 'dispatch-drop-pairwise', [(LI, "        elif self.marginal_oracle == 'pairwise':\n            model = FactorGraph(self.domain, cliques, total, convex=False, iters=self.inner_iters)\n", "")], 'dispatch')
K('C18', 'hps-total-dropped', [(RG, "                belief = (pot[r] + sum(messages[c,r] for c in self.children[r]) - sum(messages[r,p] for p in self.parents[r])) / c0[r]\n                belief += np.log(self.total) - belief.logsumexp()",
                                  "                belief = (pot[r] + sum(messages[c,r] for c in self.children[r]) - sum(messages[r,p] for p in self.parents[r])) / c0[r]\n                belief -= belief.logsumexp()")], 'returned-normalised-to-total')
K('C18', 'md-store-swapped', [(LI, "        self.model.potentials = theta\n        self.model.marginals = mu", "        self.model.potentials = mu\n        self.model.marginals = theta")], 'returns-own-iterate')
K('C18', 'feasibility-arity', [(FG, "    def primal_feasibility(self, mu):", "    def primal_feasibility(self, mu, tol):")], 'conformance')
T('C18', 'fg-class-level-damping', [(FG, "class FactorGraph():\n    def __init__", "class FactorGraph():\n    damping = 0.5\n    def __init__"),
                                    (FG, "        self.iters = iters\n        self.damping = 0.5\n", "        self.iters = iters\n")])
T('C18', 'fg-damping-via-helper', [(FG, "        self.iters = iters\n        self.damping = 0.5\n", "        self.iters = iters\n        self.set_defaults()\n"),
                                   (FG, "    def datavector(self, flatten=True):", "    def set_defaults(self):\n        self.damping = 0.5\n\n    def datavector(self, flatten=True):")])

# ------------------------------------------------------------------ C19
K('C19', 'emd-unconditional-accept', [(PI, "        if loss - new_loss >= 0.5*alpha*dL.dot(P-Q):\n            #print(alpha, loss)\n            logP = logQ",
                                         "        logP = logQ\n        if loss - new_loss >= 0.5*alpha*dL.dot(P-Q):\n            #print(alpha, loss)")], 'guarded-replacement')
K('C19', 'emd-total-lost', [(PI, "        logQ += np.log(total) - logsumexp(logQ)", "        logQ += -logsumexp(logQ)")], 'returned-normalised-to-total')
K('C19', 'emd-loss-not-updated', [(PI, "            loss, dL = new_loss, new_dL\n", "            dL = new_dL\n")], 'guarded-replacement')
K('C19', 'emd-loss-at-P', [(PI, "        new_loss, new_dL = loss_and_grad(Q)", "        new_loss, new_dL = loss_and_grad(P)")], 'guarded-replacement')
K('C19', 'estimate-mutates-public', [(PI, "        self.weights = entropic_mirror_descent(loss_and_grad, self.weights, total)\n",
                                        "        self.weights = entropic_mirror_descent(loss_and_grad, self.weights, total)\n        self.public_data.df['weight'] = self.weights\n")], 'public-data-unmodified')
K('C19', 'estimate-total-floor', [(PI, "        self.measurements = measurements\n", "        self.measurements = measurements\n        total = max(total, self.public_data.records)\n")], 'total-pass-through')
K('C19', 'emd-raw-step', [(PI, "        logQ += np.log(total) - logsumexp(logQ)\n        Q = np.exp(logQ)", "        Q = np.exp(logQ)\n        Q *= total / Q.sum()")], 'exp-normalised')
T('C19', 'emd-compare-flipped-form', [(PI, "        if loss - new_loss >= 0.5*alpha*dL.dot(P-Q):", "        if 0.5*alpha*dL.dot(P-Q) <= loss - new_loss:")])
T('C19', 'emd-hoisted-shift', [(PI, "        logQ += np.log(total) - logsumexp(logQ)", "        shift = np.log(total) - logsumexp(logQ)\n        logQ = logQ + shift")])

# ------------------------------------------------------------------ C15
K('C15', 'project-drops-weights', [(DS, "        return Dataset(data, domain, self.weights)", "        return Dataset(data, domain)")], 'project-consistent')
K('C15', 'init-keeps-frame', [(DS, "        self.df = df.loc[:,domain.attrs]", "        self.df = df")], 'column-order')
K('C15', 'init-fastpath-same-width', [(DS, "        self.df = df.loc[:,domain.attrs]", "        if len(df.columns) == len(domain.attrs):\n            self.df = df\n        else:\n            self.df = df.loc[:,domain.attrs]")], 'column-order')
K('C15', 'merge-swapped-attrs', [(DOM, "        return Domain(self.attrs + extra.attrs, self.shape + extra.shape)", "        return Domain(extra.attrs + self.attrs, self.shape + extra.shape)")], 'parallel-domain')
K('C15', 'datavector-n-edges', [(DS, "        bins = [range(n+1) for n in self.domain.shape]", "        bins = [range(n) for n in self.domain.shape]")], 'histogram')
K('C15', 'datavector-no-weights', [(DS, "np.histogramdd(self.df.values, bins, weights=self.weights)[0]", "np.histogramdd(self.df.values, bins)[0]")], 'histogram')
# behaviour-preserving: the constructor re-selects the columns by name in domain order (found by the near-miss round)
T('C15', 'project-sorted-cols', [(DS, "        data = self.df.loc[:,cols]", "        data = self.df.loc[:,sorted(cols)]")])
K('C15', 'project-domain-sorted', [(DS, "        domain = self.domain.project(cols)", "        domain = self.domain.project(sorted(cols))")], 'project-consistent')
K('C15', 'size-truthiness', [(DOM, "        if attrs == None:", "        if not attrs:")], 'none-test')
K('C15', 'marginalize-set-diff', [(DOM, "        proj = [a for a in self.attrs if not a in attrs]", "        proj = list(set(self.attrs) - set(attrs))")], 'order-filter')
K('C15', 'canonical-request-order', [(DOM, "        return tuple(a for a in self.attrs if a in attrs)", "        return tuple(a for a in attrs if a in self.attrs)")], 'order-filter')
K('C15', 'drop-sets-df', [(DS, "        proj = [c for c in self.domain if c not in cols]\n        return self.project(proj)", "        proj = [c for c in self.domain if c not in cols]\n        self.df = self.df.loc[:, proj]\n        return self.project(proj)")], 'owner')
T('C15', 'project-cols-listed', [(DS, "        data = self.df.loc[:,cols]\n        domain = self.domain.project(cols)", "        data = self.df.loc[:,list(cols)]\n        domain = self.domain.project(cols)")])
T('C15', 'init-bracket-selection', [(DS, "        self.df = df.loc[:,domain.attrs]", "        self.df = df[list(domain.attrs)]")])
T('C15', 'size-is-none', [(DOM, "        if attrs == None:", "        if attrs is None:")])
T('C15', 'datavector-arange', [(DS, "        bins = [range(n+1) for n in self.domain.shape]", "        bins = [np.arange(n+1) for n in self.domain.shape]")])
K('C14', 'sum-none-truthiness', [(F, "    def sum(self, attrs = None):\n        if attrs is None:", "    def sum(self, attrs = None):\n        if not attrs:")], 'none-test')

# ------------------------------------------------------------------ C07
CDP = 'mechanisms/cdp2adp.py'
K('C07', 'rho-return-rhomax', [(CDP, "    return rhomin", "    return rhomax")], 'sound-side')
K('C07', 'rho-test-flipped', [(CDP, "        rho=(rhomin+rhomax)/2\n        if cdp_delta(rho,eps)<=delta:", "        rho=(rhomin+rhomax)/2\n        if cdp_delta(rho,eps)>delta:")], 'sound-side')
K('C07', 'eps-branches-swapped', [(CDP, "            epsmax=eps\n        else:\n            epsmin=eps", "            epsmin=eps\n        else:\n            epsmax=eps")], 'sound-side')
K('C07', 'delta-exponent-sign', [(CDP, "math.exp((alpha-1)*(alpha*rho-eps)+alpha*math.log1p(-1/alpha))", "math.exp((alpha-1)*(alpha*rho+eps)+alpha*math.log1p(-1/alpha))")], 'delta-formula')
K('C07', 'amin-below-one', [(CDP, "    amin=1.01 ", "    amin=0.5 ")], 'alpha-range')
K('C07', 'delta-no-denominator', [(CDP, "+alpha*math.log1p(-1/alpha)) / (alpha-1.0)", "+alpha*math.log1p(-1/alpha))")], 'delta-formula')
K('C07', 'orientation-flipped', [(CDP, "        if derivative<0:\n            amin=alpha\n        else:\n            amax=alpha", "        if derivative>0:\n            amin=alpha\n        else:\n            amax=alpha")], 'orientation')
K('C07', 'derivative-wrong', [(CDP, "derivative = (2*alpha-1)*rho-eps+math.log1p(-1.0/alpha)", "derivative = (2*alpha+1)*rho-eps+math.log1p(-1.0/alpha)")], 'derivative')
K('C07', 'rho-seed-closed-form', [(CDP, "    rhomin=0.0 ", "    rhomin=eps**2/(4*math.log(1/delta)) ")], 'sound-seed')
K('C07', 'amax-too-small', [(CDP, "    amax=(eps+1)/(2*rho)+2", "    amax=(1+eps/rho)/2+2")], 'alpha-range')
K('C07', 'eps-seed-no-rho', [(CDP, "    epsmax=rho+2*math.sqrt(rho*math.log(1/delta))", "    epsmax=2*math.sqrt(rho*math.log(1/delta))")], 'sound-seed')
K('C07', 'eps-args-swapped', [(CDP, "        eps=(epsmin+epsmax)/2\n        if cdp_delta(rho,eps)<=delta:", "        eps=(epsmin+epsmax)/2\n        if cdp_delta(eps,rho)<=delta:")], 'sound-side')
K('C07', 'delta-zero-case-removed', [(CDP, "    assert eps>=0\n    if rho==0: return 0 #degenerate case\n\n    #search for best alpha", "    assert eps>=0\n\n    #search for best alpha")], 'sound-seed')
T('C07', 'log-instead-of-log1p', [(CDP, "derivative = (2*alpha-1)*rho-eps+math.log1p(-1.0/alpha)", "derivative = (2*alpha-1)*rho-eps+math.log(1-1.0/alpha)")])
T('C07', 'derivative-ge-swapped', [(CDP, "        if derivative<0:\n            amin=alpha\n        else:\n            amax=alpha", "        if derivative>=0:\n            amax=alpha\n        else:\n            amin=alpha")])
T('C07', 'midpoint-half', [(CDP, "        rho=(rhomin+rhomax)/2", "        rho=0.5*(rhomin+rhomax)")])
T('C07', 'amax-wider', [(CDP, "    amax=(eps+1)/(2*rho)+2", "    amax=(eps+1)/(2*rho)+3")])
T('C07', 'delta-factored', [(CDP, "math.exp((alpha-1)*(alpha*rho-eps)+alpha*math.log1p(-1/alpha)) / (alpha-1.0)", "math.exp(alpha*(alpha-1)*rho-(alpha-1)*eps+alpha*math.log1p(-1/alpha)) / (alpha-1)")])

# ------------------------------------------------------------------ C20
MECH = 'mechanisms/mechanism.py'
MST = 'mechanisms/mst.py'
AG = 'mechanisms/adaptive_grid.py'
MWEM = 'mechanisms/mwem+pgm.py'
AIM = 'mechanisms/aim.py'
K('C20', 'em-coef-one', [(MECH, "            p = softmax(0.5*epsilon/sensitivity*q)\n", "            p = softmax(1.0*epsilon/sensitivity*q)\n")], 'logits-calibrated')
K('C20', 'em-drop-sensitivity', [(MECH, "            p = softmax(0.5*epsilon/sensitivity*q + base_measure)", "            p = softmax(0.5*epsilon*q + base_measure)")], 'logits-calibrated')
K('C20', 'paf-raw-exp', [(MECH, "        q = qualities - qualities.max()\n        p = np.exp(0.5*epsilon/sensitivity*q)", "        q = qualities\n        p = np.exp(0.5*epsilon/sensitivity*q)")], 'stable')
K('C20', 'mst-coef-always-one', [(MST, "    coef = 1.0 if monotonic else 0.5\n    scores = coef*eps/sensitivity*q\n", "    coef = 1.0\n    scores = coef*eps/sensitivity*q\n")], 'logits-calibrated')
K('C20', 'mst-monotonic-inverted', [(MST, "    coef = 1.0 if monotonic else 0.5\n    scores = coef*eps/sensitivity*q\n", "    coef = 0.5 if monotonic else 1.0\n    scores = coef*eps/sensitivity*q\n")], 'logits-calibrated')
K('C20', 'mst-raw-exp', [(MST, "    probas = np.exp(scores - logsumexp(scores))\n    return prng.choice(q.size, p=probas)", "    probas = np.exp(scores)\n    probas = probas / probas.sum()\n    return prng.choice(q.size, p=probas)")], 'stable')
T('C20', 'ag-shifted-exp-renormalised', [(AG, "    probas = np.exp(scores - logsumexp(scores))\n    return prng.choice(q.size, p=probas)", "    probas = np.exp(scores)\n    probas = probas / probas.sum()\n    return prng.choice(q.size, p=probas)")])
K('C20', 'mwem-bounded-sens-one', [(MWEM, "    sensitivity = 2.0 if bounded else 1.0", "    sensitivity = 1.0")], 'sensitivity-flag')
K('C20', 'mwem-squared-eps', [(MWEM, "softmax(0.5*eps/sensitivity*(errors - errors.max()))", "softmax(0.5*eps*eps/sensitivity*(errors - errors.max()))")], 'logits-calibrated')
K('C20', 'laplace-scale-no-double', [(MECH, "        if self.bounded: l1_sensitivity *= 2.0\n", "        if self.bounded: l1_sensitivity *= 1.0\n")], 'scale-helper')
K('C20', 'gauss-scale-sqrt2', [(MECH, "        if self.bounded: l2_sensitivity *= 2.0\n", "        if self.bounded: l2_sensitivity *= np.sqrt(2.0)\n")], 'scale-helper')
K('C20', 'gauss-variance-as-scale', [(MECH, "        return self.prng.normal(0, sigma, size)", "        return self.prng.normal(0, sigma**2, size)")], 'sampler-identity')
K('C20', 'base-measure-values', [(MECH, "                base_measure = np.log([base_measure[key] for key in keys])\n        else:\n            qualities = np.array(qualities)",
                                   "                base_measure = np.log(list(base_measure.values()))\n        else:\n            qualities = np.array(qualities)")], 'key-aligned')
K('C20', 'gem-halves-eps', [(MECH, "key = self.exponential_mechanism(scores, epsilon, 1.0, base_measure=base_measure)", "key = self.exponential_mechanism(scores, 2*epsilon, 1.0, base_measure=base_measure)")], 'forwards-eps')
K('C20', 'em-extra-data-term', [(MECH, "            p = softmax(0.5*epsilon/sensitivity*q)\n", "            p = softmax(0.5*epsilon/sensitivity*q + 0.1*q*q)\n")], None)
T('C20', 'em-coef-spelled', [(MECH, "            p = softmax(0.5*epsilon/sensitivity*q)\n", "            p = softmax(epsilon/(2*sensitivity)*q)\n")])
T('C20', 'mst-two-step-coef', [(MST, "    scores = coef*eps/sensitivity*q\n", "    scale = coef*eps/sensitivity\n    scores = scale*q\n")])
T('C20', 'laplace-scale-ifexp', [(MECH, "        if self.bounded: l1_sensitivity *= 2.0\n        return l1_sensitivity / epsilon", "        return (2.0 if self.bounded else 1.0) * l1_sensitivity / epsilon")])
T('C20', 'sampler-keywords', [(MECH, "        return self.prng.laplace(0, b, size)", "        return self.prng.laplace(loc=0, scale=b, size=size)")])

# ------------------------------------------------------------------ C09
MI = 'src/mbi/mixture_inference.py'
_VAR = "                    variances = np.append(variances, noise**2 * np.dot(v, v))"
K('C09', 'inf-noise-not-squared', [(INF, _VAR, "                    variances = np.append(variances, noise * np.dot(v, v))")], 'variance-form')
K('C09', 'inf-no-floor', [(INF, "                total = max(1, estimate)", "                total = estimate")], 'floor-and-default')
K('C09', 'inf-append-outside-test', [(INF, "                if np.allclose(Q.T.dot(v), o):\n" + _VAR + "\n                    estimates = np.append(estimates, np.dot(v, y))",
                                          "                if np.allclose(Q.T.dot(v), o):\n" + _VAR + "\n                estimates = np.append(estimates, np.dot(v, y))")], 'guarded-append')
K('C09', 'inf-floor-supplied-total', [(INF, "        #if not self.warm_start or not hasattr(self, 'model'):\n        # initialize the model and parameters\n        cliques = [m[3] for m in measurements] \n        if self.structural_zeros is not None:\n            cliques += list(self.structural_zeros.keys())\n\n        model = GraphicalModel(",
                                           "        total = max(1, total)\n        cliques = [m[3] for m in measurements] \n        if self.structural_zeros is not None:\n            cliques += list(self.structural_zeros.keys())\n\n        model = GraphicalModel(")], 'pass-through')
K('C09', 'inf-average-by-variance', [(INF, "                variance = 1.0 / np.sum(1.0 / variances)\n                estimate = variance * np.sum(estimates / variances)\n                total = max(1, estimate)",
                                          "                estimate = np.average(estimates, weights=variances)\n                total = max(1, estimate)")], 'combination-form')
K('C09', 'li-lsmr-default-tol', [(LI, "                v = lsmr(Q.T, o, atol=0, btol=0)[0]", "                v = lsmr(Q.T, o)[0]")], 'sibling-agreement')
K('C09', 'pi-test-other-operator', [(PI, "        if np.allclose(Q.T.dot(v), o):", "        if np.allclose(Q.dot(Q.T.dot(v)), Q.dot(o)):")], 'same-system')
K('C09', 'pi-estimate-uses-o', [(PI, "            estimates = np.append(estimates, np.dot(v, y))", "            estimates = np.append(estimates, np.dot(o, y))")], 'estimate-form')
K('C09', 'mi-default-zero', [(MI, "    if estimates.size == 0:\n        return 1", "    if estimates.size == 0:\n        return 0")], 'floor-and-default')
K('C09', 'pi-caller-scales-total', [(PI, "        if total is None:\n            total = estimate_total(measurements)\n        self.measurements = measurements", "        if total is None:\n            total = estimate_total(measurements)\n        total = float(int(total))\n        self.measurements = measurements")], 'pass-through')
T('C09', 'inf-variance-inlined', [(INF, "                variance = 1.0 / np.sum(1.0 / variances)\n                estimate = variance * np.sum(estimates / variances)\n                total = max(1, estimate)",
                                       "                estimate = np.sum(estimates / variances) / np.sum(1.0 / variances)\n                total = max(1, estimate)"),
                                  (LI, "                variance = 1.0 / np.sum(1.0 / variances)\n                estimate = variance * np.sum(estimates / variances)\n                total = max(1, estimate)",
                                       "                estimate = np.sum(estimates / variances) / np.sum(1.0 / variances)\n                total = max(1, estimate)"),
                                  (PI, "        variance = 1.0 / np.sum(1.0 / variances)\n        estimate = variance * np.sum(estimates / variances)\n        return max(1, estimate)",
                                       "        estimate = np.sum(estimates / variances) / np.sum(1.0 / variances)\n        return max(1, estimate)"),
                                  (MI, "        variance = 1.0 / np.sum(1.0 / variances)\n        estimate = variance * np.sum(estimates / variances)\n        return max(1, estimate)",
                                       "        estimate = np.sum(estimates / variances) / np.sum(1.0 / variances)\n        return max(1, estimate)")])
K('C09', 'li-approx-default-total', [(LI, "            model = RegionGraph(self.domain, cliques, total, convex=False, iters=self.inner_iters)", "            model = RegionGraph(self.domain, cliques, convex=False, iters=self.inner_iters)")], 'pass-through')

# ------------------------------------------------------------------ C04
K('C04', 'setup-no-break', [(INF, "                    self.groups[cl].append(m)\n                    break", "                    self.groups[cl].append(m)")], 'exactly-once')
K('C04', 'loss-c-squared', [(INF, "                c = 1.0/noise\n", "                c = 1.0/noise**2\n")], None)
K('C04', 'grad-drops-c', [(INF, "                    grad = c*(Q.T @ diff)", "                    grad = Q.T @ diff")], 'gradient-form')
K('C04', 'grad-l1-uses-diff', [(INF, "                    grad = c*(Q.T @ sign)", "                    grad = c*(Q.T @ diff)")], 'gradient-form')
K('C04', 'loss-not-halved', [(INF, "                    loss += 0.5*(diff @ diff)", "                    loss += (diff @ diff)")], 'loss-form')
K('C04', 'lip-noise-not-squared', [(INF, "                    eigs[cl] += eig * n / p / noise**2", "                    eigs[cl] += eig * n / p / noise")], 'lipschitz-form')
K('C04', 'lip-model-order', [(INF, "            for cl in sorted(self.model.cliques, key=self.model.domain.size):\n                if set(proj) <= set(cl):\n                    n = self.domain.size(cl)",
                                   "            for cl in self.model.cliques:\n                if set(proj) <= set(cl):\n                    n = self.domain.size(cl)")], 'sibling-order')
K('C04', 'setup-model-order', [(INF, "            for cl in sorted(cliques, key=model.domain.size):", "            for cl in cliques:")], 'sibling-order')
K('C04', 'fix-no-list-to-tuple', [(INF, "            if type(proj) is list:\n                proj = tuple(proj)\n", "")], 'spelling')
K('C04', 'fix-tuple-of-str', [(INF, "            if type(proj) is not tuple:\n                proj = (proj,)", "            if type(proj) is not tuple:\n                proj = tuple(proj)")], 'spelling')
K('C04', 'loss-skip-project-full-clique', [(INF, "                mu2 = mu.project(proj)", "                mu2 = mu if len(proj) == len(cl) else mu.project(proj)")], 'projection-order')
K('C04', 'loss-grad-wrong-domain', [(INF, "                gradient[cl] += self.Factor(mu2.domain, grad)", "                gradient[cl] += self.Factor(mu.domain.project(sorted(proj)), grad)")], 'projection-order')
K('C04', 'lip-n-over-p-dropped', [(INF, "                    eigs[cl] += eig * n / p / noise**2", "                    eigs[cl] += eig / noise**2")], 'lipschitz-form')
K('C04', 'estimate-skips-fix', [(INF, "        measurements = self.fix_measurements(measurements)\n        options['callback'] = callback", "        self.fix_measurements(measurements)\n        options['callback'] = callback")], 'spelling')
T('C04', 'loss-diff-divided', [(INF, "                diff = c*(Q @ x - y)", "                diff = (Q @ x - y) / noise")])
T('C04', 'loss-grad-via-dot', [(INF, "                    grad = c*(Q.T @ diff)", "                    grad = Q.T.dot(diff) * c")])
T('C04', 'loss-sum-of-squares', [(INF, "                    loss += 0.5*(diff @ diff)", "                    loss += 0.5*np.sum(diff**2)")])
T('C04', 'lip-term-regrouped', [(INF, "                    eigs[cl] += eig * n / p / noise**2", "                    eigs[cl] += (eig / noise**2) * (n / p)")])
T('C04', 'both-sorted-via-self-domain', [(INF, "            for cl in sorted(cliques, key=model.domain.size):", "            for cl in sorted(cliques, key=self.domain.size):")])
K('C18', 'li-grad-drops-c', [(LI, "                    grad = c*(Q.T @ diff)", "                    grad = Q.T @ diff")], 'gradient-form')
K('C18', 'li-setup-no-break', [(LI, "                    self.groups[cl].append(m)\n                    break", "                    self.groups[cl].append(m)")], 'exactly-once')
K('C19', 'pi-loss-grad-inconsistent', [(PI, "            diff = c*(Q @ x - y)", "            diff = Q @ x - y"), (PI, "                loss += 0.5*(diff @ diff)", "                loss += 0.5*c*(diff @ diff)")], None)
K('C19', 'pi-weight-grad-wrong-clique', [(PI, "                idx = est.project(cl).df.values", "                idx = est.df.values[:, :len(cl)]")], 'gradient-form')

# ------------------------------------------------------------------ C13
JT = 'src/mbi/junction_tree.py'
K('C13', 'bp-no-copy', [(GM, "        beliefs = { cl : potentials[cl].copy() for cl in potentials }", "        beliefs = { cl : potentials[cl] for cl in potentials }")], 'A1-no-foreign-mutation')
K('C13', 'warm-alias-old-potentials', [(INF, "        model.potentials = CliqueVector.zeros(self.domain, model.cliques)\n        model.potentials.combine(self.structural_zeros)\n        if self.warm_start and hasattr(self, 'model'):\n            model.potentials.combine(self.model.potentials)",
                                            "        model.potentials = CliqueVector.zeros(self.domain, model.cliques)\n        if self.warm_start and hasattr(self, 'model'):\n            model.potentials = self.model.potentials\n        model.potentials.combine(self.structural_zeros)")], 'A1-no-foreign-mutation')
K('C13', 'measurements-sorted-in-place', [(INF, "        ans = []\n        for Q, y, noise, proj in measurements:", "        ans = []\n        measurements.sort(key=lambda m: len(m[3]))\n        for Q, y, noise, proj in measurements:")], 'A1-no-foreign-mutation')
K('C13', 'groups-only-in-init', [(INF, "        self.groups = defaultdict(lambda: [])\n", ""), (INF, "        self.history = []\n", "        self.history = []\n        self.groups = defaultdict(lambda: [])\n")], None)
K('C13', 'iters-decremented', [(INF, "        model.potentials = theta\n        model.marginals = mu\n", "        model.potentials = theta\n        model.marginals = mu\n        self.iters -= 1\n")], 'A3-config-read-only')
K('C13', 'setup-reuses-model', [(INF, "        model = GraphicalModel(self.domain,cliques,total,elimination_order=self.elim_order)\n",
                                     "        if getattr(self, '_cliques', None) == cliques:\n            model = self.model\n            model.total = total\n        else:\n            model = GraphicalModel(self.domain,cliques,total,elimination_order=self.elim_order)\n        self._cliques = list(cliques)\n")], None)
K('C13', 'warm-keeps-total', [(INF, "        if total is None:\n            # find the minimum variance estimate of the total given the measurements\n            variances = np.array([])",
                                   "        if total is None and self.warm_start and hasattr(self, 'model'):\n            total = self.model.total\n        if total is None:\n            # find the minimum variance estimate of the total given the measurements\n            variances = np.array([])")], 'A2b-warm-start-use')
K('C13', 'y-normalised-in-place', [(INF, "            assert np.isscalar(noise), 'noise must be a real value, given ' + str(noise)\n", "            assert np.isscalar(noise), 'noise must be a real value, given ' + str(noise)\n            y /= noise\n")], 'A1-no-foreign-mutation')
K('C13', 'options-conditional-key', [(INF, "        options['callback'] = callback\n        if callback is None and self.log:", "        if callback is not None:\n            options['callback'] = callback\n        if callback is None and self.log:")], 'A4-mutable-default')
K('C13', 'stochastic-default-order', [(JT, "            order = self._greedy_order(stochastic=False)[0]\n        elif", "            order = self._greedy_order(stochastic=True)[0]\n        elif")], 'A5-rng-guard')
K('C13', 'ig-mutates-model-potentials', [(INF, "            theta = theta - a/c/total * g\n", "            theta.combine(-a/c/total * g)\n")], 'A1-no-foreign-mutation')
K('C13', 'zeros-spec-popped', [(INF, "            fact = structural_zeros[cl]\n            self.structural_zeros[cl] = self.Factor.active(dom,fact)", "            fact = structural_zeros[cl]\n            fact.sort()\n            self.structural_zeros[cl] = self.Factor.active(dom,fact)")], 'A1-no-foreign-mutation')
T('C13', 'options-copied', [(INF, "        measurements = self.fix_measurements(measurements)\n        options['callback'] = callback", "        measurements = self.fix_measurements(measurements)\n        options = dict(options)\n        options['callback'] = callback")])
T('C13', 'bp-deepcopy', [(GM, "        beliefs = { cl : potentials[cl].copy() for cl in potentials }", "        beliefs = { cl : deepcopy(potentials[cl]) for cl in potentials }")])
T('C13', 'md-inplace-on-fresh-theta', [(INF, "                theta = omega - alpha*dL\n", "                theta = omega - alpha*dL\n                theta.combine(CliqueVector({}))\n")])

# ------------------------------------------------------------------ C01
_LSE_OLD = "        axes = self.domain.axes(attrs)\n        values = logsumexp(self.values, axis=axes) "
K('C01', 'bp-no-copy', [(GM, "        beliefs = { cl : potentials[cl].copy() for cl in potentials }", "        beliefs = { cl : potentials[cl] for cl in potentials }")], 'bp-on-copies')
K('C01', 'bp-drop-logZ', [(GM, "            beliefs[cl] += np.log(self.total) - logZ\n", "            beliefs[cl] += np.log(self.total)\n")], None)
K('C01', 'bp-no-division', [(GM, "                tau = beliefs[i] - messages[(j,i)]", "                tau = beliefs[i]")], 'bp-equations')
K('C01', 'bp-wrong-reverse-key', [(GM, "                tau = beliefs[i] - messages[(j,i)]", "                tau = beliefs[i] - messages[(i,j)]")], 'bp-equations')
K('C01', 'bp-absorb-into-sender', [(GM, "            beliefs[j] += messages[(i,j)]", "            beliefs[i] += messages[(i,j)]")], 'bp-equations')
K('C01', 'bp-marginalise-separator', [(GM, "            sep = beliefs[i].domain.invert(self.sep_axes[(i,j)])", "            sep = self.sep_axes[(i,j)]")], 'bp-equations')
# (was listed as a breaking variant until round 5: the scalar product sanitises +inf to the largest double, and -inf + 1.8e308 = -inf,
#  so a structural zero on both sides stays a zero - see twins/C10-p5)
T('C01', 'sub-via-sanitised-scalar-product', [(F, "        other = Factor(other.domain, np.where(other.values==-np.inf, 0, -other.values))\n        return self + other",
                                 "        return self + -1*other")])
K('C01', 'sub-via-raw-negation', [(F, "        other = Factor(other.domain, np.where(other.values==-np.inf, 0, -other.values))\n        return self + other",
                                 "        return self + Factor(other.domain, -other.values)")], 'inf-guard')
K('C01', 'logsumexp-handrolled-unguarded', [(F, _LSE_OLD, "        axes = self.domain.axes(attrs)\n        shift = self.values.max(axis=axes, keepdims=True)\n        values = np.log(np.exp(self.values - shift).sum(axis=axes)) + shift.squeeze(axis=axes)")], 'lse-primitive')
K('C01', 'logsumexp-naive', [(F, _LSE_OLD, "        axes = self.domain.axes(attrs)\n        values = np.log(np.exp(self.values).sum(axis=axes))")], 'lse-primitive')
K('C01', 'triangulate-no-working-fill', [(JT, "            edges |= tmp\n            G.add_edges_from(tmp)\n            G.remove_node(node)", "            edges |= tmp\n            G.remove_node(node)")], 'elimination-fill-in')
K('C01', 'triangulate-remove-first', [(JT, "            tmp = set(itertools.combinations(G.neighbors(node), 2))\n            edges |= tmp\n            G.add_edges_from(tmp)\n            G.remove_node(node)",
                                         "            tmp = set(itertools.combinations(G.neighbors(node), 2))\n            G.remove_node(node)\n            edges |= tmp\n            G.add_edges_from(tmp)")], 'elimination-fill-in')
T('C01', 'bp-hoisted-shift', [(GM, "        for cl in self.cliques:\n            beliefs[cl] += np.log(self.total) - logZ\n", "        shift = np.log(self.total) - logZ\n        for cl in self.cliques:\n            beliefs[cl] += shift\n")])
T('C01', 'logsumexp-handrolled-guarded', [(F, _LSE_OLD, "        axes = self.domain.axes(attrs)\n        shift = self.values.max(axis=axes, keepdims=True)\n        shift = np.where(np.isfinite(shift), shift, 0)\n        values = np.log(np.exp(self.values - shift).sum(axis=axes)) + shift.squeeze(axis=axes)")])
T('C01', 'bp-tau-ifexp', [(GM, "            if (j,i) in messages:\n                tau = beliefs[i] - messages[(j,i)]\n            else:\n                tau = beliefs[i]", "            tau = beliefs[i] - messages[(j,i)] if (j,i) in messages else beliefs[i]")])
T('C14', 'logsumexp-handrolled-guarded', [(F, _LSE_OLD, "        axes = self.domain.axes(attrs)\n        shift = self.values.max(axis=axes, keepdims=True)\n        shift = np.where(np.isfinite(shift), shift, 0)\n        values = np.log(np.exp(self.values - shift).sum(axis=axes)) + shift.squeeze(axis=axes)")])

# ------------------------------------------------------------------ C02
K('C02', 'project-canonical-order', [(GM, "        return ans.project(attrs)", "        return ans.project(self.domain.canonical(attrs))")], 'requested-order')
K('C02', 'project-cached-full-clique', [(GM, "                    return self.marginals[cl].project(attrs)", "                    mu = self.marginals[cl]\n                    return mu if len(attrs) == len(cl) else mu.project(attrs)")], 'requested-order')
K('C02', 'datavector-raw-exp', [(GM, "        ans = np.exp(logp - logp.logsumexp())", "        ans = np.exp(logp)\n        ans = ans / ans.sum()")], 'exp-normalised')
K('C02', 'datavector-no-expand', [(GM, "        wgt = ans.domain.size() / self.domain.size()\n        return ans.expand(self.domain).datavector(flatten) * wgt * self.total", "        return ans.datavector(flatten) * self.total")], 'requested-order')
K('C02', 'cache-other-potentials', [(GM, "        self.marginals = self.belief_propagation(self.potentials)\n        sep = self.sep_axes", "        self.marginals = self.belief_propagation(self.potentials * 1.0)\n        sep = self.sep_axes")], 'cache-rule')
K('C02', 've-total-dropped', [(GM, "    return (ans - ans.logsumexp() + np.log(total)).exp()", "    return (ans - ans.logsumexp()).exp()")], 've-equations')
K('C02', 'many-wrong-key', [(GM, "                    answers[proj] = results[attr].project(proj)", "                    answers[attr] = results[attr].project(proj)")], 'requested-order')
K('C02', 'project-elim-all', [(GM, "        elim = self.domain.invert(attrs)", "        elim = self.domain.invert(attrs[:1])")], 've-equations')
K('C02', 'krondot-sorted-attrs', [(GM, "        elim = self.domain.attrs\n        for attr, Q in zip(elim, matrices):", "        elim = sorted(self.domain.attrs)\n        for attr, Q in zip(elim, matrices):")], 'requested-order')
T('C02', 've-normalisation-split', [(GM, "    return (ans - ans.logsumexp() + np.log(total)).exp()", "    ans = ans - ans.logsumexp()\n    ans = ans + np.log(total)\n    return ans.exp()")])
T('C02', 'project-tuple-always', [(GM, "        if type(attrs) is list:\n            attrs = tuple(attrs)\n        if hasattr(self, 'marginals'):", "        attrs = tuple(attrs)\n        if hasattr(self, 'marginals'):")])

# ------------------------------------------------------------------ C06
K('C06', 'mwem-total-always', [(MWEM, "    total = data.records if bounded else None", "    total = data.records")], 'public-sink')
K('C06', 'aim-anneal-on-true-marginal', [(AIM, "            if np.linalg.norm(w-z, 1) <= sigma*np.sqrt(2/np.pi)*n:", "            if np.linalg.norm(w-x, 1) <= sigma*np.sqrt(2/np.pi)*n:")], 'public-sink')
K('C06', 'mst-data-dependent-scale', [(MST, "        y = x + np.random.normal(loc=0, scale=sigma/wgt, size=x.size)", "        y = x + np.random.normal(loc=0, scale=sigma/wgt*(1 + 1/(1+x.sum())), size=x.size)")], 'public-sink')
K('C06', 'ag-unnoised-plausibility', [(AG, "            est = Q1.T @ y[: Q1.shape[0]]\n", "            est = Q1.T @ (Q @ mu)[: Q1.shape[0]]\n")], 'public-sink')
K('C06', 'mst-zero-noise', [(MST, "        y = x + np.random.normal(loc=0, scale=sigma/wgt, size=x.size)", "        y = x + 0*np.random.normal(loc=0, scale=sigma/wgt, size=x.size)")], 'public-sink')
K('C06', 'aim-true-answers-logged', [(AIM, "            measurements.append((Q, y, sigma, cl))\n            z = model.project(cl).datavector()", "            measurements.append((Q, x, sigma, cl))\n            z = model.project(cl).datavector()")], 'public-sink')
K('C06', 'mst-argmax-select', [(MST, "        idx = exponential_mechanism(wgts, epsilon, sensitivity=1.0)\n        e = candidates[idx]\n        T.add_edge(*e)", "        idx = int(np.argmax(wgts))\n        e = candidates[idx]\n        T.add_edge(*e)")], 'public-sink')
K('C06', 'mst-skip-undo', [(MST, "    return undo_compress_fn(synth)", "    return synth")], 'domain-restored')
K('C06', 'mst-threshold-on-records', [(MST, "        sup = y >= 3*sigma", "        sup = y >= min(3*sigma, data.records / y.size)")], 'public-sink')
K('C06', 'aim-engine-on-projected-domain', [(AIM, "        engine = FactoredInference(data.domain,iters=1000,warm_start=True,structural_zeros=zeros)", "        engine = FactoredInference(data.project(oneway[0]).domain,iters=1000,warm_start=True,structural_zeros=zeros)")], 'domain-restored')
K('C06', 'mwem-rounds-from-data', [(MWEM, "    if rounds is None:\n        rounds = len(data.domain)", "    if rounds is None:\n        rounds = min(len(data.domain), data.records)")], 'public-sink')
T('C06', 'mst-noisy-helper', [(MST, "        y = x + np.random.normal(loc=0, scale=sigma/wgt, size=x.size)", "        noisy = lambda v, s: v + np.random.normal(loc=0, scale=s, size=v.size)\n        y = noisy(x, sigma/wgt)")])
T('C06', 'aim-renamed-locals', [(AIM, "            x = data.project(cl).datavector()\n            y = x + self.gaussian_noise(sigma, n)\n            measurements.append((Q, y, sigma, cl))", "            truth = data.project(cl).datavector()\n            noisy = truth + self.gaussian_noise(sigma, n)\n            y = noisy\n            measurements.append((Q, y, sigma, cl))")])
T('C06', 'mst-rng-alias', [(MST, "        y = x + np.random.normal(loc=0, scale=sigma/wgt, size=x.size)", "        rng = np.random\n        y = x + rng.normal(loc=0, scale=sigma/wgt, size=x.size)")])
K('C18', 'rg-feasibility-relative', [(RG, "        return 0 if count==0 else ans/count", "        return 0 if count==0 else ans/(count*self.total)")], 'feasibility-form')

# ------------------------------------------------------------------ C05
K('C05', 'mst-sigma-too-small', [(MST, "    sigma = np.sqrt(3/(2*rho))", "    sigma = np.sqrt(1/(2*rho))")], 'budget')
K('C05', 'mst-select-half-budget', [(MST, "    cliques = select(data, rho/3.0, log1)", "    cliques = select(data, rho/2.0, log1)")], 'budget')
K('C05', 'mst-coef-one', [(MST, "    coef = 1.0 if monotonic else 0.5", "    coef = 1.0")], 'budget')
K('C05', 'mwem-bounded-sens-one', [(MWEM, "        marginal_sensitivity = np.sqrt(2) if bounded else 1.0", "        marginal_sensitivity = 1.0")], 'budget')
K('C05', 'mwem-bounded-not-forwarded', [(MWEM, "ax = worst_approximated(workload_answers, est, candidates, exp_eps, bounded=bounded)", "ax = worst_approximated(workload_answers, est, candidates, exp_eps)")], 'budget')
K('C05', 'ag-step3-no-sqrt-count', [(AG, "    step3_sigma = np.sqrt(len(step2_queries)) * np.sqrt(0.5 / rho_step_3)", "    step3_sigma = np.sqrt(0.5 / rho_step_3)")], 'budget')
K('C05', 'aim-sigma-halved-before-release', [(AIM, "            rho_used += 1.0/8 * epsilon**2 + 0.5/sigma**2\n", "            rho_used += 1.0/8 * epsilon**2 + 0.5/sigma**2\n            sigma /= 2\n")], 'ledger-charge')
K('C05', 'aim-guard-half', [(AIM, "            if self.rho - rho_used < 2*(0.5/sigma**2 + 1.0/8 * epsilon**2):", "            if self.rho - rho_used < 0.5*(0.5/sigma**2 + 1.0/8 * epsilon**2):")], 'ledger-guard')
K('C05', 'mst-extra-release', [(MST, "        Q = sparse.eye(x.size)\n        measurements.append( (Q, y, sigma/wgt, proj) )", "        Q = sparse.eye(x.size)\n        y2 = x + np.random.normal(loc=0, scale=sigma/wgt, size=x.size)\n        measurements.append( (Q, 0.5*(y+y2), sigma/wgt, proj) )")], 'budget')
K('C05', 'aim-stale-round-cost', [(AIM, "        t = 0\n        terminate = False", "        t = 0\n        round_cost = 1.0/8 * epsilon**2 + 0.5/sigma**2\n        terminate = False"),
                                   (AIM, "            rho_used += 1.0/8 * epsilon**2 + 0.5/sigma**2\n", "            rho_used += round_cost\n")], None)
K('C05', 'mwem-selection-uses-l2-sens', [(MWEM, "ax = worst_approximated(workload_answers, est, candidates, exp_eps, bounded=bounded)", "ax = worst_approximated(workload_answers, est, candidates, exp_eps, bounded=False)")], 'budget')
K('C05', 'aim-final-round-overspends', [(AIM, "                sigma = np.sqrt(1 / (2*0.9*remaining))", "                sigma = np.sqrt(1 / (2*0.9*self.rho))")], 'ledger-guard')
K('C05', 'ag-release-unnormalised-query', [(AG, "            y = Q @ mu + np.random.normal(loc=0, scale=step1_sigma, size=Q.shape[0])", "            y = Q @ mu + np.random.normal(loc=0, scale=step1_sigma/2, size=Q.shape[0])")], 'budget')
T('C05', 'mst-sigma-respelled', [(MST, "    sigma = np.sqrt(3/(2*rho))", "    sigma = (1.5/rho)**0.5")])
T('C05', 'aim-charge-split', [(AIM, "            rho_used += 1.0/8 * epsilon**2 + 0.5/sigma**2\n", "            rho_used += 1.0/8 * epsilon**2\n            rho_used += 0.5/sigma**2\n")])
T('C05', 'mwem-sigma-respelled', [(MWEM, "        sigma = np.sqrt(0.5 / (alpha*rho_per_round))", "        sigma = np.sqrt(1 / (2*alpha*rho_per_round))")])


# ------------------------------------------------------------------ every property: the reformatted tree must give the same verdict
for _p in ['C11', 'C12', 'C01', 'C02', 'C04', 'C05', 'C06', 'C07', 'C08', 'C09', 'C10', 'C13', 'C14', 'C15', 'C16', 'C18', 'C19', 'C20']:
    MUTANTS.append({'prop': _p, 'id': 'reformatted-tree', 'kind': 'T', 'edits': 'REFORMAT'})
K('C08', 'setup-stale-marginals', [(INF, "        model.potentials = CliqueVector.zeros(self.domain, model.cliques)\n        model.potentials.combine(self.structural_zeros)", "        model.potentials = CliqueVector.zeros(self.domain, model.cliques)\n        model.marginals = model.belief_propagation(model.potentials)\n        model.potentials.combine(self.structural_zeros)")], 'pair-at-exit')
T('C08', 'setup-marginals-in-sync', [(INF, "            model.potentials.combine(self.model.potentials)\n        self.model = model  ", "            model.potentials.combine(self.model.potentials)\n        model.marginals = model.belief_propagation(model.potentials)\n        self.model = model  ")])
K('C07', 'tolerant-zero-test', [(CDP, "def cdp_delta_standard(rho,eps):", "def _iszero(rho):\n    return math.isclose(rho,0.0,abs_tol=1e-7)\n\ndef cdp_delta_standard(rho,eps):"),
                                (CDP, "    assert eps>=0\n    if rho==0: return 0 #degenerate case\n\n    #search for best alpha", "    assert eps>=0\n    if _iszero(rho): return 0 #degenerate case\n\n    #search for best alpha")], None)
K('C07', 'fallback-standard-bound', [(CDP, "    #now calculate delta\n", "    if alpha-1.01<1e-9:\n        return min(cdp_delta_standard(rho,eps),1.0)\n    #now calculate delta\n")], 'early-exit')
K('C07', 'eps-early-exit-small-rho', [(CDP, "    if delta>=1 or rho==0: return 0.0 #if delta>=1 or rho=0 then anything goes", "    if delta>=1 or rho<1e-7: return 0.0 #if delta>=1 or rho=0 then anything goes")], 'early-exit')
T('C07', 'exact-zero-helper', [(CDP, "def cdp_delta_standard(rho,eps):", "def _iszero(rho):\n    return rho == 0\n\ndef cdp_delta_standard(rho,eps):"),
                               (CDP, "    assert eps>=0\n    if rho==0: return 0 #degenerate case\n\n    #search for best alpha", "    assert eps>=0\n    if _iszero(rho): return 0 #degenerate case\n\n    #search for best alpha")])
K('C20', 'em-unshifted-helper-with-base', [(MECH, "def pareto_efficient(costs):", "def normalize(logits):\n    w = np.exp(logits)\n    return w / w.sum()\n\ndef pareto_efficient(costs):"),
                                           (MECH, "            p = softmax(0.5*epsilon/sensitivity*q + base_measure)", "            p = normalize(0.5*epsilon/sensitivity*q + base_measure)")], 'stable')
K('C20', 'best-noise-std-as-scale', [(MECH, "        if np.sqrt(2)*b < sigma:\n            return partial(self.laplace_noise, b)", "        laplace_std = np.sqrt(2)*b\n        if laplace_std < sigma:\n            return partial(self.laplace_noise, laplace_std)")], 'sampler-identity')
T('C20', 'em-shifted-helper-no-base', [(MECH, "def pareto_efficient(costs):", "def normalize(logits):\n    w = np.exp(logits)\n    return w / w.sum()\n\ndef pareto_efficient(costs):"),
                                       (MECH, "            p = softmax(0.5*epsilon/sensitivity*q)\n", "            p = normalize(0.5*epsilon/sensitivity*q)\n")])
K('C04', 'groups-never-reset', [(INF, "        self.groups = defaultdict(lambda: [])\n", ""), (INF, "        self.history = []\n", "        self.history = []\n        self.groups = defaultdict(list)\n")], 'exactly-once')
K('C04', 'fix-identity-lookalike', [(INF, "            if Q is None:\n                Q = sparse.eye(self.domain.size(proj))", "            if Q is None or (Q.shape[0] == Q.shape[1] and np.all(Q.diagonal() == 1)):\n                Q = sparse.eye(self.domain.size(proj))")], 'spelling')
T('C04', 'fix-q-converted', [(INF, "            if Q is None:\n                Q = sparse.eye(self.domain.size(proj))", "            if Q is None:\n                Q = sparse.eye(self.domain.size(proj))\n            elif isinstance(Q, np.ndarray):\n                Q = sparse.csr_matrix(Q)")])
K('C09', 'setup-reuses-model-total-lost', [(INF, "        model = GraphicalModel(self.domain,cliques,total,elimination_order=self.elim_order)\n", "        if self.warm_start and hasattr(self, 'model') and list(self.model.cliques) == cliques:\n            model = self.model\n        else:\n            model = GraphicalModel(self.domain,cliques,total,elimination_order=self.elim_order)\n")], 'pass-through')
K('C09', 'pi-preallocated-arrays', [(PI, "    variances = np.array([])\n    estimates = np.array([])\n    for Q, y, noise, proj in measurements:", "    variances = np.zeros(len(measurements))\n    estimates = np.zeros(len(measurements))\n    k = 0\n    for Q, y, noise, proj in measurements:"),
                                   (PI, "            variances = np.append(variances, noise**2 * np.dot(v, v))\n            estimates = np.append(estimates, np.dot(v, y))\n    if estimates.size == 0:", "            variances[k] = noise**2 * np.dot(v, v)\n            estimates[k] = np.dot(v, y)\n            k += 1\n    if k == 0:")], 'guarded-append')
K('C14', 'condition-take-loop-stale-axes', [(F, "        slices = [evidence[a] if a in evidence else slice(None) for a in self.domain]\n        newdom = self.domain.marginalize(evidence.keys())\n        values = self.values[tuple(slices)]",
                                               "        newdom = self.domain.marginalize(evidence.keys())\n        values = self.values\n        for a in evidence:\n            if a in self.domain:\n                values = values.take(evidence[a], axis=self.domain.axes([a])[0])")], 'axis-by-name')
K('C14', 'factor-dot-positional', [(F, "    def datavector(self, flatten=True):\n        \"\"\" Materialize the data vector \"\"\"", "    def dot(self, other):\n        return np.dot(self.datavector(), other.datavector())\n\n    def datavector(self, flatten=True):\n        \"\"\" Materialize the data vector \"\"\"")], 'elementwise')
K('C01', 'tree-forest-for-disjoint', [(JT, "            wgt = len(set(c1) & set(c2))\n            complete.add_edge(c1, c2, weight=-wgt)", "            wgt = len(set(c1) & set(c2))\n            if wgt > 0:\n                complete.add_edge(c1, c2, weight=-wgt)")], 'tree-connected')
_ALIAS = (INF, "        gbar = CliqueVector({ cl : self.Factor.zeros(domain.project(cl)) for cl in cliques })\n        zeros = CliqueVector({ cl : self.Factor.zeros(domain.project(cl)) for cl in cliques })\n",
          "        gbar = zeros = CliqueVector({ cl : self.Factor.zeros(domain.project(cl)) for cl in cliques })\n")
_NOSAN = (F, "            new_values = np.nan_to_num(other*self.values)", "            new_values = other*self.values")
K('C10', 'rda-alias-and-unsanitised-mul', [_ALIAS, _NOSAN], 'mask-not-scaled')
T('C10', 'rda-gbar-aliases-zeros-alone', [_ALIAS])
T('C10', 'mul-unsanitised-alone', [_NOSAN])
K('C15', 'size-numpy-prod', [(DOM, "            return reduce(lambda x,y: x*y, self.shape, 1)", "            return int(np.prod(self.shape))"), (DOM, "from functools import reduce", "from functools import reduce\nimport numpy as np")], 'exact-size')
K('C15', 'datavector-bins-from-shape', [(DS, "        ans = np.histogramdd(self.df.values, bins, weights=self.weights)[0]", "        ans = np.histogramdd(self.df.values, self.domain.shape, weights=self.weights)[0]")], 'histogram')
T('C01', 'bp-message-by-projection', [(GM, "            messages[(i,j)] = tau.logsumexp(sep)", "            messages[(i,j)] = tau.project(self.sep_axes[(i,j)], agg='logsumexp')")])
K('C06', 'aim-total-under-misbound-flag', [(AIM, "        zeros = self.structural_zeros\n", "        zeros = self.structural_zeros\n        total = data.records if self.bounded else None\n"),
                                           (AIM, "        model = engine.estimate(measurements)\n\n        t = 0", "        model = engine.estimate(measurements, total)\n\n        t = 0")], 'public-sink')
K('C06', 'mst-transform-drops-attribute', [(MST, "    newdom = Domain.fromdict(newdom)\n    return Dataset(df, newdom)\n\ndef reverse_data", "    newdom = { col : n for col, n in newdom.items() if supports[col].any() }\n    newdom = Domain.fromdict(newdom)\n    return Dataset(df, newdom)\n\ndef reverse_data")], 'domain-restored')
T('C06', 'aim-total-under-genuine-flag', [(AIM, "        super(AIM, self).__init__(epsilon, delta, prng)", "        super(AIM, self).__init__(epsilon, delta, False, prng)"),
                                          (AIM, "        zeros = self.structural_zeros\n", "        zeros = self.structural_zeros\n        total = data.records if self.bounded else None\n"),
                                          (AIM, "        model = engine.estimate(measurements)\n\n        t = 0", "        model = engine.estimate(measurements, total)\n\n        t = 0")])

# ------------------------------------------------------------------ C12 (structural clauses only)
K('C12', 'triangulate-no-working-fill', [(JT, "            edges |= tmp\n            G.add_edges_from(tmp)\n            G.remove_node(node)", "            edges |= tmp\n            G.remove_node(node)")], 'elimination-fill-in')
K('C12', 'tree-forest-for-disjoint', [(JT, "            wgt = len(set(c1) & set(c2))\n            complete.add_edge(c1, c2, weight=-wgt)", "            wgt = len(set(c1) & set(c2))\n            if wgt > 0:\n                complete.add_edge(c1, c2, weight=-wgt)")], 'tree-connected')
K('C12', 'schedule-one-direction', [(JT, "        messages = [(a,b) for a,b in self.tree.edges()] + [(b,a) for a,b in self.tree.edges()]", "        messages = [(a,b) for a,b in self.tree.edges()]")], 'schedule')
K('C12', 'schedule-dependency-includes-reverse', [(JT, "                if m1[1] == m2[0] and m1[0] != m2[1]:", "                if m1[1] == m2[0]:")], 'schedule')
K('C12', 'schedule-not-sorted', [(JT, "        return list(nx.topological_sort(G)) ", "        return list(G.nodes()) ")], 'schedule')
K('C12', 'schedule-drops-isolated-messages', [(JT, "        G.add_nodes_from(messages)\n        G.add_edges_from(edges)", "        G.add_edges_from(edges)")], 'schedule')
K('C12', 'separator-union', [(JT, "        return { (i,j) : tuple(set(i)&set(j)) for i,j in self.mp_order() }", "        return { (i,j) : tuple(set(i)|set(j)) for i,j in self.mp_order() }")], 'separators')
K('C12', 'cliques-of-model-graph', [(JT, "cliques = sorted([self.domain.canonical(c) for c in nx.find_cliques(tri)])", "cliques = sorted([self.domain.canonical(c) for c in nx.find_cliques(self.graph)])")], 'cliques-of-triangulation')
K('C12', 'graph-skips-unmeasured-attrs', [(JT, "        G.add_nodes_from(self.domain.attrs)\n", "")], 'graph-from-cliques')
K('C12', 'triangulate-given-order-ignored', [(JT, "        tri, cost = self._triangulated(order)", "        tri, cost = self._triangulated(self._greedy_order(stochastic=False)[0])")], 'order-modes')
K('C12', 'triangulated-without-model-edges', [(JT, "        tri = nx.Graph(self.graph)\n        tri.add_edges_from(edges)", "        tri = nx.Graph()\n        tri.add_edges_from(edges)")], 'elimination-fill-in')
T('C12', 'schedule-loop-vars-renamed', [(JT, "        for m1 in messages:\n            for m2 in messages:\n                if m1[1] == m2[0] and m1[0] != m2[1]:\n                    edges.add( (m1, m2) )", "        for u in messages:\n            for w in messages:\n                if u[1] == w[0] and u[0] != w[1]:\n                    edges.add( (u, w) )")])
MUTANTS.append({'prop': 'C12', 'id': 'reformatted-tree', 'kind': 'T', 'edits': 'REFORMAT'})
K('C16', 'lbp-identity-across-containers', [(FG, "                for v in cl:\n                    complement = [var for var in cl if var is not v]", "                for v in [a for a in self.domain if a in cl]:\n                    complement = [var for var in cl if var is not v]")], 'identity-compare')
T('C16', 'lbp-equality-compare', [(FG, "                    complement = [var for var in cl if var is not v]", "                    complement = [var for var in cl if var != v]")])
T('C14', 'sub-via-neg', [(F, "        other = Factor(other.domain, np.where(other.values==-np.inf, 0, -other.values))\n        return self + other", "        neg = Factor(other.domain, np.where(other.values==-np.inf, 0, -other.values))\n        return self + neg")])

# ---- round-2 strengthening: restart point of the local line search (C18), value-based rules (C07/C09/C12/C15) ----------------
_IADD = ("    def __sub__(self, other):\n        return self + -1*other\n",
         "    def __sub__(self, other):\n        return self + -1*other\n\n    def __iadd__(self, other):\n        for cl in self:\n            self[cl] = self[cl] + (other if np.isscalar(other) else other[cl])\n        return self\n\n    def __isub__(self, other):\n        return self.__iadd__(-1*other)\n")
K('C18', 'inplace-step-mutates-restart-point', [(CV, _IADD[0], _IADD[1]), (LI, "            theta = theta - alpha*dL\n", "            theta -= alpha*dL\n")], 'restart-point')
T('C18', 'augmented-step-without-inplace-operator', [(LI, "            theta = theta - alpha*dL\n", "            theta -= alpha*dL\n")])
T('C18', 'inplace-operator-unused', [(CV, _IADD[0], _IADD[1])])
K('C18', 'restart-point-combined-in-place', [(LI, "            l, dL = self._marginal_loss(mu)\n            theta = theta - alpha*dL\n", "            l, dL = self._marginal_loss(mu)\n            theta.combine(-alpha*dL)\n")], 'restart-point')
T('C18', 'feasibility-comprehension', [('src/mbi/region_graph.py', "        ans = 0\n        count = 0\n        for r in self.cliques:\n            for s in self.children[r]:\n                x = mu[r].project(s).datavector()\n                y = mu[s].datavector()\n                err = np.linalg.norm(x-y, 1)\n                ans += err\n                count += 1\n        return 0 if count==0 else ans/count",
   "        errors = [np.linalg.norm(mu[r].project(s).datavector() - mu[s].datavector(), 1) for r in self.cliques for s in self.children[r]]\n        if len(errors) == 0:\n            return 0\n        return sum(errors) / len(errors)")])
K('C18', 'feasibility-max-instead-of-mean', [('src/mbi/region_graph.py', "        return 0 if count==0 else ans/count", "        return 0 if count==0 else ans")], 'feasibility-form')
T('C09', 'pi-guard-clause-and-pairs', [(PI, "        if np.allclose(Q.T.dot(v), o):\n            variances = np.append(variances, noise**2 * np.dot(v, v))\n            estimates = np.append(estimates, np.dot(v, y))",
   "        if not np.allclose(Q.T.dot(v), o):\n            continue\n        variances = np.append(variances, noise**2 * v.dot(v))\n        estimates = np.append(estimates, v.dot(y))")])
T('C09', 'mi-floor-as-conditional', [(MI, "        return max(1, estimate)", "        return estimate if estimate > 1 else 1")])
K('C09', 'mi-floor-conditional-wrong-side', [(MI, "        return max(1, estimate)", "        return estimate if estimate < 1 else 1")], 'floor-and-default')
T('C07', 'rho-search-mirrored-tuple-update', [('mechanisms/cdp2adp.py', "        if cdp_delta(rho,eps)<=delta:\n            rhomin=rho\n        else:\n            rhomax=rho", "        rhomin,rhomax = (rho,rhomax) if delta>=cdp_delta(rho,eps) else (rhomin,rho)")])
K('C07', 'rho-search-tuple-update-swapped', [('mechanisms/cdp2adp.py', "        if cdp_delta(rho,eps)<=delta:\n            rhomin=rho\n        else:\n            rhomax=rho", "        rhomin,rhomax = (rhomin,rho) if delta>=cdp_delta(rho,eps) else (rho,rhomax)")], 'sound-side')
T('C15', 'marginalize-via-invert', [(DOM, "        proj = [a for a in self.attrs if not a in attrs]\n        return self.project(proj)", "        return self.project(self.invert(attrs))")])
K('C15', 'marginalize-via-canonical', [(DOM, "        proj = [a for a in self.attrs if not a in attrs]\n        return self.project(proj)", "        return self.project(self.canonical(attrs))")], 'order-filter')
T('C15', 'drop-via-domain-invert', [(DS, "        proj = [c for c in self.domain if c not in cols]\n        return self.project(proj)", "        return self.project(self.domain.invert(cols))")])
T('C12', 'dependencies-as-set-comprehension', [(JT, "        for m1 in messages:\n            for m2 in messages:\n                if m1[1] == m2[0] and m1[0] != m2[1]:\n                    edges.add( (m1, m2) )\n", "        edges = {(m1, m2) for m1 in messages for m2 in messages if m1[1] == m2[0] and m1[0] != m2[1]}\n")])
K('C12', 'dependencies-comprehension-weakened', [(JT, "        for m1 in messages:\n            for m2 in messages:\n                if m1[1] == m2[0] and m1[0] != m2[1]:\n                    edges.add( (m1, m2) )\n", "        edges = {(m1, m2) for m1 in messages for m2 in messages if m1[1] == m2[0]}\n")], 'schedule')
T('C12', 'weighted-edges-from-generator', [(JT, "        for c1, c2 in itertools.combinations(cliques, 2):\n            wgt = len(set(c1) & set(c2))\n            complete.add_edge(c1, c2, weight=-wgt)\n", "        complete.add_weighted_edges_from((c1, c2, -len(set(c1) & set(c2))) for c1, c2 in itertools.combinations(cliques, 2))\n")])
K('C12', 'weighted-edges-positive-weight', [(JT, "        for c1, c2 in itertools.combinations(cliques, 2):\n            wgt = len(set(c1) & set(c2))\n            complete.add_edge(c1, c2, weight=-wgt)\n", "        complete.add_weighted_edges_from((c1, c2, len(set(c1) & set(c2))) for c1, c2 in itertools.combinations(cliques, 2))\n")], 'tree-connected')

# ------------------------------------------------------------------ C11 (generator of synthetic records; partial claim)
K('C11', 'rows-rounded-default', [(GM, "        total = int(self.total) if rows is None else rows", "        total = int(round(self.total)) if rows is None else rows")], 'rows-default')
K('C11', 'extra-units-with-replacement', [(GM, "                idx = np.random.choice(counts.size, extra, False, frac / frac.sum())", "                idx = np.random.choice(counts.size, extra, True, frac/frac.sum())")], 'count-conservation')
K('C11', 'extra-units-uniform', [(GM, "                idx = np.random.choice(counts.size, extra, False, frac / frac.sum())", "                idx = np.random.choice(counts.size, extra, False)")], 'count-conservation')
K('C11', 'counts-not-rescaled', [(GM, "            counts *= total / counts.sum()\n", "")], 'count-conservation')
K('C11', 'sample-wrong-size', [(GM, "                return np.random.choice(counts.size, total, True, probas)", "                return np.random.choice(counts.size, counts.size, True, probas)")], 'count-conservation')
K('C11', 'marginal-axes-swapped', [(GM, "            marg = self.project(proj + (col,)).datavector(flatten=False)", "            marg = self.project((col,) + proj).datavector(flatten=False)")], 'site-pairing')
K('C11', 'groupby-sorted-keys', [(GM, "                df = df.groupby(list(proj), group_keys=False).apply(foo)", "                df = df.groupby(sorted(proj), group_keys=False).apply(foo)")], 'site-pairing')
K('C11', 'group-asked-for-total', [(GM, "                vals = synthetic_col(marg[idx], group.shape[0])", "                vals = synthetic_col(marg[idx], total)")], 'site-pairing')
K('C11', 'no-conditioning', [(GM, "            proj = tuple(relevant)\n", "            proj = ()\n")], 'conditioning')
K('C11', 'used-not-recorded', [(GM, "            used.add(col)\n", "")], 'conditioning')
K('C11', 'values-one-based', [(GM, "            vals = np.repeat(np.arange(counts.size), integ)", "            vals = np.repeat(np.arange(1, counts.size+1), integ)")], 'support')
K('C11', 'flattened-marginal', [(GM, "        marg = self.project([col]).datavector(flatten=False)\n        df.loc[:,col]", "        marg = self.project([col]).datavector()\n        df.loc[:,col]")], 'site-pairing')
T('C11', 'choice-keywords', [(GM, "                idx = np.random.choice(counts.size, extra, False, frac / frac.sum())", "                idx = np.random.choice(counts.size, size=extra, replace=False, p=frac/frac.sum())")])
T('C11', 'rescale-not-in-place', [(GM, "            counts *= total / counts.sum()\n", "            counts = counts * total / counts.sum()\n")])
T('C11', 'rows-if-else', [(GM, "        total = int(self.total) if rows is None else rows", "        if rows is None:\n            total = int(self.total)\n        else:\n            total = rows")])
T('C11', 'group-len', [(GM, "                vals = synthetic_col(marg[idx], group.shape[0])", "                vals = synthetic_col(marg[idx], len(group))")])
T('C11', 'condition-on-all-generated', [(GM, "            proj = tuple(relevant)\n", "            proj = tuple(used)\n")])
T('C11', 'generator-locals-renamed', [(GM, "            frac, integ = np.modf(counts)\n            integ = integ.astype(int)\n            extra = total - integ.sum()\n            if extra > 0:\n                idx = np.random.choice(counts.size, extra, False, frac / frac.sum())\n                integ[idx] += 1\n            vals = np.repeat(np.arange(counts.size), integ)",
   "            remainder, whole = np.modf(counts)\n            whole = whole.astype(int)\n            missing = total - whole.sum()\n            if missing > 0:\n                lucky = np.random.choice(counts.size, missing, False, remainder/remainder.sum())\n                whole[lucky] += 1\n            vals = np.repeat(np.arange(counts.size), whole)")])

# ---- C16: sibling agreement of the GBP message sets (seed C16-1)
RGF = 'src/mbi/region_graph.py'
K('C16', 'gbp-D-includes-internal-edges', [(RGF, "                            for p1 in set(self.parents[d]) - {r} - set(self.descendants[r]):\n                                D[p,r].add((p1,d))", "                            for p1 in set(self.parents[d]) - {r}:\n                                D[p,r].add((p1,d))")], 'gbp-message-sets')
K('C16', 'gbp-N-around-receiver', [(RGF, "                        for s in self.parents[p]:\n                            N[p,r].add((s,p))", "                        for s in self.parents[r]:\n                            N[p,r].add((s,r))")], 'gbp-message-sets')
K('C16', 'gbp-D-keeps-own-edge', [(RGF, "                        for s in set(self.parents[r]) - {p}:\n                            D[p,r].add((s,r))", "                        for s in set(self.parents[r]):\n                            D[p,r].add((s,r))")], 'gbp-message-sets')
T('C16', 'gbp-D-loop-vars-renamed', [(RGF, "                        for d in self.descendants[r]:\n                            for p1 in set(self.parents[d]) - {r} - set(self.descendants[r]):\n                                D[p,r].add((p1,d))", "                        for below in self.descendants[r]:\n                            for outside in set(self.parents[below]) - {r} - set(self.descendants[r]):\n                                D[p,r].add((outside,below))")])

# ---- near-miss round (round 3)
_CDP = 'mechanisms/cdp2adp.py'
K('C07', 'rho-search-width-tolerance-exit', [(_CDP, "        rho=(rhomin+rhomax)/2\n", "        rho=(rhomin+rhomax)/2\n        if rhomax-rhomin<=1e-9: break\n")], 'search-termination')
T('C07', 'rho-search-fixed-point-exit', [(_CDP, "        rho=(rhomin+rhomax)/2\n", "        rho=(rhomin+rhomax)/2\n        if rho<=rhomin or rho>=rhomax: break\n")])
T('C07', 'delta-formula-rewritten-by-identity', [(_CDP, "    delta = math.exp((alpha-1)*(alpha*rho-eps)+alpha*math.log1p(-1/alpha)) / (alpha-1.0)", "    delta = math.exp((alpha-1)*(alpha*rho-eps+math.log1p(-1/alpha))) / alpha")])
K('C07', 'delta-formula-denominator-only', [(_CDP, "    delta = math.exp((alpha-1)*(alpha*rho-eps)+alpha*math.log1p(-1/alpha)) / (alpha-1.0)", "    delta = math.exp((alpha-1)*(alpha*rho-eps)+alpha*math.log1p(-1/alpha)) / alpha")], 'delta-formula')
T('C15', 'invert-sorted-by-own-order', [(DOM, "        return [a for a in self.attrs if a not in attrs]", "        rest = set(self.attrs).difference(attrs)\n        return sorted(rest, key=self.attrs.index)")])
K('C15', 'invert-sorted-by-name', [(DOM, "        return [a for a in self.attrs if a not in attrs]", "        rest = set(self.attrs).difference(attrs)\n        return sorted(rest)")], 'order-filter')
T('C15', 'histogram-by-count-and-range', [(DS, "        bins = [range(n+1) for n in self.domain.shape]\n        ans = np.histogramdd(self.df.values, bins, weights=self.weights)[0]", "        shape = self.domain.shape\n        ans = np.histogramdd(self.df.values, bins=shape, range=[(0,n) for n in shape], weights=self.weights)[0]")])
K('C15', 'histogram-by-count-no-range', [(DS, "        bins = [range(n+1) for n in self.domain.shape]\n        ans = np.histogramdd(self.df.values, bins, weights=self.weights)[0]", "        shape = self.domain.shape\n        ans = np.histogramdd(self.df.values, bins=shape, weights=self.weights)[0]")], 'histogram')
T('C15', 'project-frame-unsliced', [(DS, "        data = self.df.loc[:,cols]\n        domain = self.domain.project(cols)\n        return Dataset(data, domain, self.weights)", "        domain = self.domain.project(cols)\n        return Dataset(self.df, domain, self.weights)")])

# ---- memo tables (near-miss round): key must determine the memoised value
_LIP_OLD = "                    Q = aslinearoperator(Q)\n                    Q.dtype = np.dtype(Q.dtype)\n                    eig = eigsh(Q.H * Q, 1)[0][0]\n                    eigs[cl] += eig * n / p / noise**2\n"
_LIP_NEW = "                    key = %s\n                    if key not in cache:\n                        Q = aslinearoperator(Q)\n                        Q.dtype = np.dtype(Q.dtype)\n                        cache[key] = eigsh(Q.H * Q, 1)[0][0]\n                    eigs[cl] += cache[key] * n / p / noise**2\n"
T('C04', 'lipschitz-memo-by-matrix', [(INF, "        eigs = { cl : 0.0 for cl in self.model.cliques }\n", "        eigs = { cl : 0.0 for cl in self.model.cliques }\n        cache = { }\n"), (INF, _LIP_OLD, _LIP_NEW % 'id(Q)')])
K('C04', 'lipschitz-memo-by-projection', [(INF, "        eigs = { cl : 0.0 for cl in self.model.cliques }\n", "        eigs = { cl : 0.0 for cl in self.model.cliques }\n        cache = { }\n"), (INF, _LIP_OLD, _LIP_NEW % 'tuple(proj)')], 'memo-key')
T('C04', 'setup-whitens-once', [(INF, "            m = (Q, y, noise, proj)\n", "            Q = Q * (1.0/noise)\n            y = y * (1.0/noise)\n            m = (Q, y, 1.0, proj)\n")])
K('C04', 'setup-whitens-twice', [(INF, "            m = (Q, y, noise, proj)\n", "            Q = Q * (1.0/noise)\n            y = y * (1.0/noise)\n            m = (Q, y, noise, proj)\n")], 'exactly-once')
K('C04', 'setup-whitens-answers-only', [(INF, "            m = (Q, y, noise, proj)\n", "            y = y * (1.0/noise)\n            m = (Q, y, 1.0, proj)\n")], 'exactly-once')

# ---- C10 near-miss round: zero-clique coverage filter, division guard
FACT = 'src/mbi/factor.py'
_ZC_OLD = "            cliques += list(self.structural_zeros.keys())\n"
T('C10', 'zero-cliques-skip-contained', [(INF, _ZC_OLD, "            measured = [set(cl) for cl in cliques]\n            for cl in self.structural_zeros:\n                if not any(set(cl) <= m for m in measured):\n                    cliques.append(cl)\n")])
K('C10', 'zero-cliques-skip-attributewise', [(INF, _ZC_OLD, "            measured = set().union(*cliques)\n            for cl in self.structural_zeros:\n                if not set(cl) <= measured:\n                    cliques.append(cl)\n")], 'zero-cliques')
T('C10', 'division-cleared-by-denominator', [(FACT, "        vals = np.divide(self.values, tmp.values, where=tmp.values>0)\n        vals[tmp.values<=0] = 0.0", "        with np.errstate(divide='ignore', invalid='ignore'):\n            vals = self.values / tmp.values\n        vals[tmp.values<=0] = 0.0")])
K('C10', 'division-cleared-by-isinf', [(FACT, "        vals = np.divide(self.values, tmp.values, where=tmp.values>0)\n        vals[tmp.values<=0] = 0.0", "        with np.errstate(divide='ignore', invalid='ignore'):\n            vals = self.values / tmp.values\n        vals[np.isinf(vals)] = 0.0")], 'division-guard')
K('C10', 'division-not-cleared', [(FACT, "        vals[tmp.values<=0] = 0.0\n", "")], 'division-guard')

# ---- C18 near-miss round
_POLISH = "        for _ in range(1000):\n            if model.primal_feasibility(mu) < 1.0:\n                break\n            mu = model.belief_propagation(theta)\n            if callback is not None:\n                callback(mu)\n        return l, theta, mu\n"
_HELPER = "\n    def _restore_feasibility(self, theta, mu, callback):\n        model = self.model\n        for _ in range(1000):\n            if model.primal_feasibility(mu) < 1.0:\n                break\n            mu = model.belief_propagation(theta)\n            if callback is not None:\n                callback(mu)\n        return mu\n"
T('C18', 'feasibility-helper-result-used', [(LI, _POLISH, "        mu = self._restore_feasibility(theta, mu, callback)\n        return l, theta, mu\n" + _HELPER)])
K('C18', 'feasibility-helper-result-dropped', [(LI, _POLISH, "        self._restore_feasibility(theta, mu, callback)\n        return l, theta, mu\n" + _HELPER)], 'polished-result')
K('C18', 'outer-regions-nonstrict', [('src/mbi/region_graph.py', "            for r in cliques:\n                if not any(set(r) < set(s) for s in cliques):", "            for i, r in enumerate(cliques):\n                others = [s for j, s in enumerate(cliques) if j != i]\n                if not any(set(r) <= set(s) for s in others):")], 'outer-regions')
T('C18', 'outer-regions-strict-dedup', [('src/mbi/region_graph.py', "            for r in cliques:\n                if not any(set(r) < set(s) for s in cliques):", "            for i, r in enumerate(cliques):\n                others = [s for j, s in enumerate(cliques) if j != i]\n                if r not in self.cliques and not any(set(r) < set(s) for s in others):")])
# ---- C02 near-miss round
T('C02', 'krondot-normaliser-by-elimination', [(GM, "        for attr, Q in zip(elim, matrices):", "        Z = variable_elimination(factors, elim).sum()\n        for attr, Q in zip(elim, matrices):"), (GM, "        return result.datavector(flatten=False) * self.total / np.exp(logZ)", "        return result.datavector(flatten=False) * self.total / Z")])
K('C02', 'krondot-normaliser-from-answers', [(GM, "        result = result.transpose(['%s-answer'%a for a in elim])\n        return result.datavector(flatten=False) * self.total / np.exp(logZ)", "        result = result.transpose(['%s-answer'%a for a in elim])\n        Z = result.sum()\n        return result.datavector(flatten=False) * self.total / Z")], 've-equations')

# ---- C12 two-sweep schedule (near-miss round)
_MP_OLD = "        edges = set()\n        messages = [(a,b) for a,b in self.tree.edges()] + [(b,a) for a,b in self.tree.edges()]\n        for m1 in messages:\n            for m2 in messages:\n                if m1[1] == m2[0] and m1[0] != m2[1]:\n                    edges.add( (m1, m2) )\n        G = nx.DiGraph()\n        G.add_nodes_from(messages)\n        G.add_edges_from(edges)\n        return list(nx.topological_sort(G)) "
T('C12', 'schedule-two-sweeps', [(JT, _MP_OLD, "        root = nx.center(self.tree)[0]\n        down = list(nx.dfs_edges(self.tree, root))\n        up = [(b,a) for a,b in reversed(down)]\n        return up + down")])
K('C12', 'schedule-two-sweeps-collect-not-reversed', [(JT, _MP_OLD, "        root = nx.center(self.tree)[0]\n        down = list(nx.dfs_edges(self.tree, root))\n        up = [(b,a) for a,b in down]\n        return up + down")], 'schedule')

# ---- C11 ownership of the count vectors (near-miss round, seed C11-2)
K('C11', 'project-returns-view-of-cached-marginal', [(FACT, "        marginalized = self.domain.marginalize(attrs)\n", "        marginalized = self.domain.marginalize(attrs)\n        if len(marginalized) == 0:\n            return self.transpose(attrs)\n")], 'private-counts')
T('C11', 'project-returns-copy-when-nothing-to-sum', [(FACT, "        marginalized = self.domain.marginalize(attrs)\n", "        marginalized = self.domain.marginalize(attrs)\n        if len(marginalized) == 0:\n            return self.copy().transpose(attrs)\n")])
T('C11', 'generator-rescales-a-copy', [(GM, "            counts *= total / counts.sum()\n", "            counts = counts * (total / counts.sum())\n")])

# ------------------------------------------------------------------ round 4 rules
K('C05', 'rho-doubled', [(MECH, "self.rho = 0 if delta == 0 else cdp_rho(epsilon, delta)", "self.rho = 0 if delta == 0 else 2*cdp_rho(epsilon, delta)")], 'rho-binding')
K('C05', 'rho-swapped-arguments', [(MECH, "self.rho = 0 if delta == 0 else cdp_rho(epsilon, delta)", "self.rho = 0 if delta == 0 else cdp_rho(delta, epsilon)")], 'rho-binding')
T('C05', 'rho-half-of-budget', [(MECH, "self.rho = 0 if delta == 0 else cdp_rho(epsilon, delta)", "self.rho = 0 if delta == 0 else 0.5*cdp_rho(epsilon, delta)")])
T('C05', 'rho-statement-form', [(MECH, "        self.rho = 0 if delta == 0 else cdp_rho(epsilon, delta)\n",
                                 "        if delta == 0:\n            self.rho = 0\n        else:\n            self.rho = cdp_rho(eps=epsilon, delta=delta)\n")])
K('C05', 'rho-remembered-by-epsilon-only', [
    (MECH, "def generalized_em_scores(q, ds, t):", "_rho_of = {}\n\ndef remembered_rho(epsilon, delta):\n    if epsilon not in _rho_of:\n        _rho_of[epsilon] = cdp_rho(epsilon, delta)\n    return _rho_of[epsilon]\n\ndef generalized_em_scores(q, ds, t):"),
    (MECH, "self.rho = 0 if delta == 0 else cdp_rho(epsilon, delta)", "self.rho = 0 if delta == 0 else remembered_rho(epsilon, delta)")], 'memo-key')
T('C05', 'rho-remembered-by-both', [
    (MECH, "def generalized_em_scores(q, ds, t):", "_rho_of = {}\n\ndef remembered_rho(epsilon, delta):\n    key = (epsilon, delta)\n    if key not in _rho_of:\n        _rho_of[key] = cdp_rho(epsilon, delta)\n    return _rho_of[key]\n\ndef generalized_em_scores(q, ds, t):"),
    (MECH, "self.rho = 0 if delta == 0 else cdp_rho(epsilon, delta)", "self.rho = 0 if delta == 0 else remembered_rho(epsilon, delta)")])
K('C18', 'gbp-schedule-descending-size', [(RG, "for ru in sorted(regions, key=len): #nx", "for ru in sorted(regions, key=len, reverse=True): #nx")], 'gbp-schedule')
T('C18', 'gbp-schedule-reversed-topological', [(RG, "for ru in sorted(regions, key=len): #nx", "for ru in reversed(list(nx.topological_sort(G))): #nx")])
K('C18', 'gbp-schedule-reversed-of-reverse', [(RG, "for ru in sorted(regions, key=len): #nx", "for ru in reversed(list(nx.topological_sort(H))): #nx")], 'gbp-schedule')
K('C16', 'gbp-belief-accumulates-into-potential', [(RG, "            belief = potentials[r] + sum(self.messages[r1,r2] for r1,r2 in self.B[r])\n",
                                                     "            belief = potentials[r]\n            belief += sum(self.messages[r1,r2] for r1,r2 in self.B[r])\n")], 'oracle-on-copies')
T('C16', 'gbp-belief-accumulates-into-copy', [(RG, "            belief = potentials[r] + sum(self.messages[r1,r2] for r1,r2 in self.B[r])\n",
                                                "            belief = potentials[r].copy()\n            belief += sum(self.messages[r1,r2] for r1,r2 in self.B[r])\n")])
K('C10', 'sub-mask-large-negative', [(F, "np.where(other.values==-np.inf, 0, -other.values)", "np.where(other.values < -1e300, 0, -other.values)")], 'inf-guard')
T('C10', 'sub-mask-isneginf', [(F, "np.where(other.values==-np.inf, 0, -other.values)", "np.where(np.isneginf(other.values), 0, -other.values)")])
T('C10', 'sub-mask-named', [(F, "        other = Factor(other.domain, np.where(other.values==-np.inf, 0, -other.values))\n",
                             "        empty = other.values <= -np.inf\n        other = Factor(other.domain, np.where(empty, 0, -other.values))\n")])
K('C02', 'pickle-drops-tree-never-rebuilt', [(GM, "        return pickle.load(open(path, 'rb'))\n",
                                              "        return pickle.load(open(path, 'rb'))\n\n    def __getstate__(self):\n        return { k : v for k, v in self.__dict__.items() if k != 'junction_tree' }\n\n"
                                              "    def __setstate__(self, state):\n        self.__dict__.update(state)\n")], 'saved-state')
T('C02', 'pickle-drops-tree-rebuilt-with-order', [(GM, "        return pickle.load(open(path, 'rb'))\n",
                                                   "        return pickle.load(open(path, 'rb'))\n\n    def __getstate__(self):\n        state = dict(self.__dict__)\n        del state['junction_tree']\n        return state\n\n"
                                                   "    def __setstate__(self, state):\n        self.__init__(state['domain'], state['cliques'], state['total'], state['elimination_order'])\n        self.__dict__.update(state)\n")])
K('C02', 'save-pickles-potentials-only', [(GM, "        pickle.dump(model, open(path, 'wb'))", "        pickle.dump(model.potentials, open(path, 'wb'))")], 'saved-state')
K('C07', 'memoised-positional-key-only', [
    (CDP, "import math\n", "import math\ndef _remember(f):\n    table={}\n    def wrapper(*args,**kwargs):\n        if args not in table:\n            table[args]=f(*args,**kwargs)\n        return table[args]\n    return wrapper\n"),
    (CDP, "def cdp_rho(eps,delta):", "@_remember\ndef cdp_rho(eps,delta):")], 'memo-key')
T('C07', 'memoised-lru-cache', [
    (CDP, "import math\n", "import math\nimport functools\n"),
    (CDP, "def cdp_rho(eps,delta):", "@functools.lru_cache(maxsize=None)\ndef cdp_rho(eps,delta):")])
K('C06', 'mst-rows-from-record-count', [(MST, "    synth = est.synthetic_data()\n", "    synth = est.synthetic_data(rows=data.df.shape[0])\n")], 'public-sink')
T('C06', 'mst-rows-default-explicit', [(MST, "    synth = est.synthetic_data()\n", "    synth = est.synthetic_data(rows=None)\n")])
JT = 'src/mbi/junction_tree.py'
_MERGE = ("        def overlap(c1, c2):\n            i = j = n = 0\n            while i < len(c1) and j < len(c2):\n                if c1[i] == c2[j]:\n"
          "                    n, i, j = n+1, i+1, j+1\n                elif c1[i] < c2[j]:\n                    i += 1\n                else:\n                    j += 1\n            return n\n")
K('C12', 'weight-merge-pass-on-domain-order', [(JT, "        complete = nx.Graph()\n", _MERGE + "        complete = nx.Graph()\n"),
                                               (JT, "            wgt = len(set(c1) & set(c2))\n", "            wgt = overlap(c1, c2)\n")], 'tree-connected')
T('C12', 'weight-merge-pass-on-sorted-copies', [(JT, "        complete = nx.Graph()\n", _MERGE.replace("            i = j = n = 0\n", "            c1, c2 = sorted(c1), sorted(c2)\n            i = j = n = 0\n") + "        complete = nx.Graph()\n"),
                                                (JT, "            wgt = len(set(c1) & set(c2))\n", "            wgt = overlap(c1, c2)\n")])

# ------------------------------------------------------------------ round 5 rules
_GBP_OLD = "            #self.messages = new\n            for ru, rd in self.message_order:\n                self.messages[ru,rd] = 0.5*self.messages[ru,rd] + 0.5*new[ru,rd]\n"
K('C16', 'gbp-stops-on-small-change', [(RG, _GBP_OLD, "            #self.messages = new\n            change = 0.0\n            for ru, rd in self.message_order:\n                change = max(change, np.abs(new[ru,rd].values - self.messages[ru,rd].values).max())\n"
                                        "                self.messages[ru,rd] = 0.5*self.messages[ru,rd] + 0.5*new[ru,rd]\n            if change < 1e-8: break\n")], 'sweep-termination')
T('C16', 'gbp-stops-at-fixed-point', [(RG, _GBP_OLD, "            #self.messages = new\n            same = True\n            for ru, rd in self.message_order:\n                same = same and np.array_equal(new[ru,rd].values, self.messages[ru,rd].values)\n"
                                       "                self.messages[ru,rd] = 0.5*self.messages[ru,rd] + 0.5*new[ru,rd]\n            if same: break\n")])
_AXES_OLD = "        return tuple(self.attrs.index(a) for a in attrs)\n"
K('C14', 'axes-memo-keyed-by-set', [(DOM, "        self.config = dict(zip(attrs, shape))\n", "        self.config = dict(zip(attrs, shape))\n        self._axes_memo = {}\n"),
                                    (DOM, _AXES_OLD, "        key = frozenset(attrs)\n        if key not in self._axes_memo:\n            self._axes_memo[key] = tuple(self.attrs.index(a) for a in attrs)\n        return self._axes_memo[key]\n")], 'memo-key')
T('C14', 'axes-memo-keyed-by-tuple', [(DOM, "        self.config = dict(zip(attrs, shape))\n", "        self.config = dict(zip(attrs, shape))\n        self._axes_memo = {}\n"),
                                      (DOM, _AXES_OLD, "        key = tuple(attrs)\n        if key not in self._axes_memo:\n            self._axes_memo[key] = tuple(self.attrs.index(a) for a in key)\n        return self._axes_memo[key]\n")])
K('C14', 'axes-memo-on-the-class', [(DOM, "class Domain:\n", "class Domain:\n    _axes_memo = {}\n"),
                                    (DOM, _AXES_OLD, "        key = tuple(attrs)\n        if key not in self._axes_memo:\n            self._axes_memo[key] = tuple(self.attrs.index(a) for a in key)\n        return self._axes_memo[key]\n")], 'memo-key')
K('C20', 'worst-approximated-subtracts-in-place', [(MWEM, "        errors = np.append(errors, np.abs(x - xest).sum()-bias)\n", "        x -= xest\n        errors = np.append(errors, np.abs(x).sum()-bias)\n")], 'inputs-unmodified')
T('C20', 'worst-approximated-subtracts-into-estimate', [(MWEM, "        errors = np.append(errors, np.abs(x - xest).sum()-bias)\n", "        xest -= x\n        errors = np.append(errors, np.abs(xest).sum()-bias)\n")])
K('C10', 'sub-selection-on-the-difference', [(F, "        other = Factor(other.domain, np.where(other.values==-np.inf, 0, -other.values))\n        return self + other",
                                               "        newdom = self.domain.merge(other.domain)\n        a, b = self.expand(newdom), other.expand(newdom)\n        return Factor(newdom, np.where(np.isneginf(b.values), 0, a.values - b.values))")], 'inf-guard')
T('C10', 'sub-selection-on-the-subtrahend', [(F, "        other = Factor(other.domain, np.where(other.values==-np.inf, 0, -other.values))\n        return self + other",
                                               "        newdom = self.domain.merge(other.domain)\n        a, b = self.expand(newdom), other.expand(newdom)\n        return Factor(newdom, a.values - np.where(np.isneginf(b.values), 0, b.values))")])
K('C12', 'junction-tree-drops-equal-cliques', [(JT, "        self.cliques = [tuple(cl) for cl in cliques]\n",
                                                "        cliques = [tuple(cl) for cl in cliques]\n        self.cliques = [c for i, c in enumerate(cliques) if not any(set(c) <= set(o) for j, o in enumerate(cliques) if j != i)]\n")], 'graph-from-cliques')
T('C12', 'junction-tree-drops-nested-cliques', [(JT, "        self.cliques = [tuple(cl) for cl in cliques]\n",
                                                 "        cliques = [tuple(cl) for cl in cliques]\n        self.cliques = [c for c in cliques if not any(set(c) < set(o) for o in cliques)]\n")])
K('C14', 'datavector-memory-order', [(F, "            return self.values.flatten()\n", "            return self.values.ravel(order='A')\n")], 'axis-by-name')
T('C14', 'datavector-explicit-row-major', [(F, "            return self.values.flatten()\n", "            return self.values.flatten(order='C')\n")])

# ------------------------------------------------------------------ every property: local variables renamed throughout the tree
for _p in ['C11', 'C12', 'C01', 'C02', 'C04', 'C05', 'C06', 'C07', 'C08', 'C09', 'C10', 'C13', 'C14', 'C15', 'C16', 'C18', 'C19', 'C20']:
    MUTANTS.append({'prop': _p, 'id': 'locals-renamed-tree', 'kind': 'T', 'edits': 'RENAME'})

# ------------------------------------------------------------------ every property: whole-tree behaviour-preserving rewrites
for _how, _id in (('FLIPCMP', 'comparisons-flipped-tree'), ('SWAPIF', 'branches-swapped-tree'), ('RETTMP', 'returns-through-temporaries-tree'),
                  ('COMPVARS', 'comprehension-variables-renamed-tree'), ('HOISTARG', 'nested-calls-hoisted-tree')):
    for _p in ['C11', 'C12', 'C01', 'C02', 'C04', 'C05', 'C06', 'C07', 'C08', 'C09', 'C10', 'C13', 'C14', 'C15', 'C16', 'C18', 'C19', 'C20']:
        MUTANTS.append({'prop': _p, 'id': _id, 'kind': 'T', 'edits': _how})

# ------------------------------------------------------------------ every property: second family of whole-tree rewrites (runner.transform_tree2)
for _how, _id in (('NOTIN', 'negated-membership-tree'), ('TUPSPLIT', 'tuple-assignments-split-tree'), ('IFEXPSTMT', 'conditional-expressions-as-statements-tree'),
                  ('WHILEBRK', 'while-true-break-tree'), ('COMPLOOP', 'comprehensions-as-loops-tree'), ('LAMBDADEF', 'lambdas-as-defs-tree'),
                  ('NPALIAS', 'numpy-unaliased-tree'), ('ELSEWRAP', 'else-after-jump-tree'), ('ELSEUNWRAP', 'no-else-after-jump-tree'),
                  ('RANGE0', 'range-from-zero-tree'), ('EMPTYLIT', 'empty-containers-by-call-tree')):
    for _p in ['C11', 'C12', 'C01', 'C02', 'C04', 'C05', 'C06', 'C07', 'C08', 'C09', 'C10', 'C13', 'C14', 'C15', 'C16', 'C18', 'C19', 'C20']:
        MUTANTS.append({'prop': _p, 'id': _id, 'kind': 'T', 'edits': _how})

# ------------------------------------------------------------------ round 7: the rules added for its pairs
_JT7 = 'src/mbi/junction_tree.py'
_AG7 = 'mechanisms/adaptive_grid.py'
_MECH7 = 'mechanisms/mechanism.py'
_CDP7 = 'mechanisms/cdp2adp.py'
_MST7 = 'mechanisms/mst.py'
K('C15', 'datavector-bincount-without-minlength', [(DS, "        bins = [range(n+1) for n in self.domain.shape]\n",
                                                    "        if len(self.domain) == 1:\n            return np.bincount(self.df.values[:,0].astype(int), self.weights).astype(float)\n        bins = [range(n+1) for n in self.domain.shape]\n")], 'histogram')
T('C15', 'datavector-bincount-with-minlength', [(DS, "        bins = [range(n+1) for n in self.domain.shape]\n",
                                                 "        if len(self.domain) == 1:\n            return np.bincount(self.df.values[:,0].astype(int), self.weights, self.domain.size()).astype(float)\n        bins = [range(n+1) for n in self.domain.shape]\n")])
K('C15', 'canonical-sorted-positions-of-a-generator', [(DOM, "        return tuple(a for a in self.attrs if a in attrs)",
                                                        "        axes = (self.attrs.index(a) for a in attrs if a in self.config)\n        return tuple(self.attrs[i] for i in sorted(axes))")], 'order-filter')
T('C15', 'canonical-sorted-positions-of-a-set', [(DOM, "        return tuple(a for a in self.attrs if a in attrs)",
                                                  "        axes = {self.attrs.index(a) for a in attrs if a in self.config}\n        return tuple(self.attrs[i] for i in sorted(axes))")])
K('C20', 'adagrid-em-parameters-reordered', [(_AG7, "def exponential_mechanism(q, eps, sensitivity, prng=np.random, monotonic=False):",
                                              "def exponential_mechanism(q, eps, sensitivity, monotonic=False, prng=np.random):")], 'signature-order')
T('C20', 'adagrid-em-sensitivity-default', [(_AG7, "def exponential_mechanism(q, eps, sensitivity, prng=np.random, monotonic=False):",
                                             "def exponential_mechanism(q, eps, sensitivity=1.0, prng=np.random, monotonic=False):")])
K('C01', 'greedy-order-on-the-stored-list', [(_JT7, "        self.graph = self._make_graph()\n", "        self.graph = self._make_graph()\n        self._attrs = list(domain.attrs)\n"),
                                             (_JT7, "        unmarked = list(domain.attrs)\n", "        unmarked = self._attrs\n")], 'tree-state-unchanged')
T('C01', 'greedy-order-on-a-copy-of-the-stored-list', [(_JT7, "        self.graph = self._make_graph()\n", "        self.graph = self._make_graph()\n        self._attrs = list(domain.attrs)\n"),
                                                       (_JT7, "        unmarked = list(domain.attrs)\n", "        unmarked = list(self._attrs)\n")])
K('C11', 'greedy-order-on-the-stored-list', [(_JT7, "        self.graph = self._make_graph()\n", "        self.graph = self._make_graph()\n        self._attrs = list(domain.attrs)\n"),
                                             (_JT7, "        unmarked = list(domain.attrs)\n", "        unmarked = self._attrs\n")], 'order-complete')
K('C02', 'pairs-by-distance-unsorted', [(GM, "        for Ci,Cj in sorted(itertools.combinations(self.cliques,2),key=lambda X:dist[X[0]][X[1]]):",
                                         "        for Ci,Cj in itertools.combinations(self.cliques,2):")], 'pair-schedule')
K('C04', 'lipschitz-bucket-by-projection', [(INF, "        eigs = { cl : 0.0 for cl in self.model.cliques }", "        eigs = defaultdict(float)"),
                                            (INF, "                    eigs[cl] += eig * n / p / noise**2", "                    eigs[proj] += eig * n / p / noise**2")], 'lipschitz-form')
T('C04', 'lipschitz-buckets-default-to-zero', [(INF, "        eigs = { cl : 0.0 for cl in self.model.cliques }", "        eigs = defaultdict(float)")])
K('C14', 'project-logsumexp-mode-sums', [(F, "            ans = self.logsumexp(marginalized.attrs)", "            ans = self.sum(marginalized.attrs)")], 'aggregation-mode')
K('C02', 'datavector-reshaped-to-the-domain', [(GM, "        return ans.expand(self.domain).datavector(flatten) * wgt * self.total",
                                                "        vals = ans.values.reshape(self.domain.shape) * self.total\n        return vals.flatten() if flatten else vals")], 'requested-order')
T('C02', 'datavector-transposed-to-the-domain', [(GM, "        return ans.expand(self.domain).datavector(flatten) * wgt * self.total",
                                                  "        vals = ans.transpose(self.domain.attrs).values * self.total\n        return vals.flatten() if flatten else vals")])
K('C09', 'ones-vector-in-the-dtype-of-the-query', [(INF, "                o = np.ones(Q.shape[1])", "                o = np.ones(Q.shape[1], dtype=Q.dtype)")], 'ones-target')
T('C09', 'ones-vector-explicitly-float', [(INF, "                o = np.ones(Q.shape[1])", "                o = np.ones(Q.shape[1], dtype=float)")])
K('C19', 'result-exponentiated-into-the-start-vector', [(PI, "    return np.exp(logP)\n", "    return np.exp(logP, out=x0)\n")], 'weights-unshared')
T('C19', 'result-exponentiated-in-place', [(PI, "    return np.exp(logP)\n", "    return np.exp(logP, out=logP)\n")])
K('C16', 'region-graph-total-by-truthiness', [(RG, "total = 1.0,minimal=True", "total = None,minimal=True"), (RG, "        self.total = total\n", "        self.total = total or 1.0\n")], 'total-stored')
T('C16', 'region-graph-total-none-default', [(RG, "total = 1.0,minimal=True", "total = None,minimal=True"), (RG, "        self.total = total\n", "        self.total = 1.0 if total is None else total\n")])
K('C01', 'sweep-stops-before-the-universal-node', [(_JT7, "        for node in order:\n            tmp = set(itertools.combinations(G.neighbors(node), 2))",
                                                    "        for node in order:\n            if G.degree(node) == G.number_of_nodes() - 1:\n                break\n            tmp = set(itertools.combinations(G.neighbors(node), 2))")], 'elimination-fill-in')
T('C01', 'sweep-stops-after-the-universal-node', [(_JT7, "        for node in order:\n            tmp = set(itertools.combinations(G.neighbors(node), 2))",
                                                   "        for node in order:\n            last = G.degree(node) == G.number_of_nodes() - 1\n            tmp = set(itertools.combinations(G.neighbors(node), 2))"),
                                                  (_JT7, "            G.remove_node(node)\n", "            G.remove_node(node)\n            if last:\n                break\n")])
K('C12', 'schedule-ranked-by-direct-prerequisites', [(_JT7, "        return list(nx.topological_sort(G)) ", "        return sorted(messages, key=lambda m: len(G.pred[m]))")], 'schedule')
T('C12', 'schedule-ranked-by-ancestors', [(_JT7, "        return list(nx.topological_sort(G)) ", "        return sorted(messages, key=lambda m: len(nx.ancestors(G, m)))")])
K('C07', 'order-bracket-narrowed-around-a-hint', [(_CDP7, "    amax=(eps+1)/(2*rho)+2\n", "    amax=(eps+1)/(2*rho)+2\n    hint=_HINT[0]\n    if hint is not None and amin<hint<amax:\n        if (2*hint-1)*rho-eps+math.log1p(-1.0/hint)<0:\n            amin=hint; amax=min(amax,2*hint)\n        else:\n            amax=hint\n"),
                                                  (_CDP7, "def cdp_delta(rho,eps):", "_HINT=[None]\ndef cdp_delta(rho,eps):")], 'probe-step')
T('C07', 'order-bracket-probed-at-a-hint', [(_CDP7, "    amax=(eps+1)/(2*rho)+2\n", "    amax=(eps+1)/(2*rho)+2\n    hint=_HINT[0]\n    if hint is not None and amin<hint<amax:\n        if (2*hint-1)*rho-eps+math.log1p(-1.0/hint)<0:\n            amin=hint\n        else:\n            amax=hint\n"),
                                            (_CDP7, "def cdp_delta(rho,eps):", "_HINT=[None]\ndef cdp_delta(rho,eps):")])
K('C19', 'metric-tested-before-its-default-is-resolved', [(PI, "        if metric is None:\n            metric = self.metric\n\n        if callable(metric):\n            return metric(marginals)\n",
                                                           "        if callable(metric):\n            return metric(marginals)\n        if metric is None:\n            metric = self.metric\n")], 'loss-form')
K('C05', 'mst-scores-against-a-private-baseline', [(_MST7, "        xhat = est.project([a, b]).datavector()", "        xhat = np.outer(data.project((a,)).datavector(), data.project((b,)).datavector()).flatten() / est.total")], 'typed-release')
K('C05', 'adagrid-mask-before-the-permutation', [(_AG7, "def get_aggregate(cl, matrices, domain):", "def get_aggregate(cl, matrices, domain, mask):"),
                                                 (_AG7, "        Q = sparse.kron(T, Qc) @ P\n", "        Q = sparse.kron(T, Qc) @ mask @ P\n"),
                                                 (_AG7, "            Q2 = get_aggregate(cl, matrices, domain) @ (\n                I - Q1\n            )", "            Q2 = get_aggregate(cl, matrices, domain, I - Q1)"),
                                                 (_AG7, "        Q2 = get_aggregate(cl, matrices, domain) @ (\n            I - Q1\n        )", "        Q2 = get_aggregate(cl, matrices, domain, I - Q1)")], 'unit-sensitivity')
T('C05', 'adagrid-mask-inside-the-helper', [(_AG7, "def get_aggregate(cl, matrices, domain):", "def get_aggregate(cl, matrices, domain, mask):"),
                                            (_AG7, "        Q = sparse.kron(T, Qc) @ P\n", "        Q = sparse.kron(T, Qc) @ P @ mask\n"),
                                            (_AG7, "            Q2 = get_aggregate(cl, matrices, domain) @ (\n                I - Q1\n            )", "            Q2 = get_aggregate(cl, matrices, domain, I - Q1)"),
                                            (_AG7, "        Q2 = get_aggregate(cl, matrices, domain) @ (\n            I - Q1\n        )", "        Q2 = get_aggregate(cl, matrices, domain, I - Q1)")])
K('C09', 'public-total-solutions-rezipped-with-all-measurements', [(PI, "    variances = np.array([])\n    estimates = np.array([])\n    for Q, y, noise, proj in measurements:\n        o = np.ones(Q.shape[1])\n        v = lsmr(Q.T, o, atol=0, btol=0)[0]\n        if np.allclose(Q.T.dot(v), o):\n            variances = np.append(variances, noise**2 * np.dot(v, v))\n            estimates = np.append(estimates, np.dot(v, y))\n",
                                                                    "    solved = [lsmr(Q.T, np.ones(Q.shape[1]), atol=0, btol=0)[0] for Q, y, noise, proj in measurements]\n    usable = [v for v, (Q, y, noise, proj) in zip(solved, measurements) if np.allclose(Q.T.dot(v), 1.0)]\n    variances = np.array([noise**2 * np.dot(v, v) for v, (Q, y, noise, proj) in zip(usable, measurements)])\n    estimates = np.array([np.dot(v, y) for v, (Q, y, noise, proj) in zip(usable, measurements)])\n")], 'same-system')
T('C09', 'public-total-as-a-comprehension-pipeline', [(PI, "    variances = np.array([])\n    estimates = np.array([])\n    for Q, y, noise, proj in measurements:\n        o = np.ones(Q.shape[1])\n        v = lsmr(Q.T, o, atol=0, btol=0)[0]\n        if np.allclose(Q.T.dot(v), o):\n            variances = np.append(variances, noise**2 * np.dot(v, v))\n            estimates = np.append(estimates, np.dot(v, y))\n",
                                                       "    solved = [(lsmr(Q.T, np.ones(Q.shape[1]), atol=0, btol=0)[0], Q, y, noise) for Q, y, noise, proj in measurements]\n    usable = [(v, y, noise) for v, Q, y, noise in solved if np.allclose(Q.T.dot(v), 1.0)]\n    variances = np.array([noise**2 * np.dot(v, v) for v, y, noise in usable])\n    estimates = np.array([np.dot(v, y) for v, y, noise in usable])\n")])

# ------------------------------------------------------------------ every property: third family of whole-tree rewrites
for _how, _id in (('KWCALL', 'in-module-calls-by-keyword-tree'), ('DOCSTRIP', 'docstrings-removed-tree'), ('CONDTMP', 'conditions-through-temporaries-tree'),
                  ('RECVTMP', 'receivers-through-temporaries-tree'), ('LOOPUNPACK', 'loop-targets-unpacked-in-the-body-tree'),
                  ('TUPJOIN', 'assignments-joined-into-tuples-tree'), ('ANDSPLIT', 'conjunctions-as-nested-ifs-tree')):
    for _p in ['C11', 'C12', 'C01', 'C02', 'C04', 'C05', 'C06', 'C07', 'C08', 'C09', 'C10', 'C13', 'C14', 'C15', 'C16', 'C18', 'C19', 'C20']:
        MUTANTS.append({'prop': _p, 'id': _id, 'kind': 'T', 'edits': _how})

# ------------------------------------------------------------------ round 8: the rules added for its pairs (the corpus replay covers the rest)
K('C14', 'radd-zero-returns-self', [(F, "    def __radd__(self, other):\n", "    def __radd__(self, other):\n        if type(other) is int and other == 0:\n            return self\n")], 'operators-allocate')
T('C14', 'radd-zero-returns-a-copy', [(F, "    def __radd__(self, other):\n", "    def __radd__(self, other):\n        if type(other) is int and other == 0:\n            return self.copy()\n")])
K('C15', 'datavector-buffered-scatter', [(DS, "        bins = [range(n+1) for n in self.domain.shape]\n        ans = np.histogramdd(self.df.values, bins, weights=self.weights)[0]\n",
                                          "        cells = tuple(self.df.values.astype(int).T)\n        ans = np.zeros(self.domain.shape)\n        ans[cells] += 1.0 if self.weights is None else self.weights\n")], 'histogram')
T('C15', 'datavector-scatter-add', [(DS, "        bins = [range(n+1) for n in self.domain.shape]\n        ans = np.histogramdd(self.df.values, bins, weights=self.weights)[0]\n",
                                     "        cells = tuple(self.df.values.astype(int).T)\n        ans = np.zeros(self.domain.shape)\n        np.add.at(ans, cells, 1.0 if self.weights is None else self.weights)\n")])
K('C02', 'datavector-normalised-in-place-on-a-bare-reduce', [(GM, "        logp = sum(self.potentials[cl] for cl in self.cliques)\n        ans = np.exp(logp - logp.logsumexp())\n",
                                                             "        logp = reduce(lambda x,y: x+y, [self.potentials[cl] for cl in self.cliques])\n        logp += -logp.logsumexp()\n        ans = logp.exp(out=logp)\n")], 'queries-pure')
T('C02', 'datavector-normalised-in-place-on-a-sum', [(GM, "        logp = sum(self.potentials[cl] for cl in self.cliques)\n        ans = np.exp(logp - logp.logsumexp())\n",
                                                      "        logp = reduce(lambda x,y: x+y, [self.potentials[cl] for cl in self.cliques], 0)\n        logp += -logp.logsumexp()\n        ans = logp.exp(out=logp)\n")])
K('C11', 'sample-mode-sorted-multinomial', [(GM, "                return np.random.choice(counts.size, total, True, probas)",
                                             "                return np.repeat(np.arange(counts.size), np.random.multinomial(total, counts / counts.sum()))")], 'count-conservation')
T('C11', 'sample-mode-permuted-multinomial', [(GM, "                return np.random.choice(counts.size, total, True, probas)",
                                               "                return np.random.permutation(np.repeat(np.arange(counts.size), np.random.multinomial(total, counts / counts.sum())))")])
K('C18', 'local-callback-stored-conditionally', [(LI, "        options['callback'] = callback\n        if callback is None and self.log:\n            options['callback'] = callbacks.Logger(self)\n",
                                                  "        if callback is None and self.log:\n            callback = callbacks.Logger(self)\n        if callback is not None:\n            options['callback'] = callback\n")], 'per-call-options')
K('C12', 'model-graph-from-consecutive-pairs', [(JT, "        for cl in self.cliques:\n            G.add_edges_from(itertools.combinations(cl, 2))\n",
                                                 "        G.add_edges_from(e for cl in self.cliques for e in itertools.pairwise(cl))\n")], 'graph-from-cliques')
T('C12', 'model-graph-in-one-call', [(JT, "        for cl in self.cliques:\n            G.add_edges_from(itertools.combinations(cl, 2))\n",
                                      "        G.add_edges_from(e for cl in self.cliques for e in itertools.combinations(cl, 2))\n")])
K('C08', 'mle-on-arrays-without-the-floor', [(GM, "            potentials[cl] = marginals[cl].log() - marginals[cl].project(new).log()",
                                              "            mu = marginals[cl]\n            sep = mu.project(new).expand(mu.domain)\n            potentials[cl] = type(mu)(mu.domain, np.log(mu.values) - np.log(sep.values))")], 'mle-form')
T('C08', 'mle-on-arrays-with-the-floor', [(GM, "            potentials[cl] = marginals[cl].log() - marginals[cl].project(new).log()",
                                           "            mu = marginals[cl]\n            sep = mu.project(new).expand(mu.domain)\n            potentials[cl] = type(mu)(mu.domain, np.log(mu.values + 1e-100) - np.log(sep.values + 1e-100))")])

# ------------------------------------------------------------------ every property: two more whole-tree rewrites
for _how, _id in (('AUGSPLIT', 'scalar-updates-spelled-out-tree'), ('ENUMIDX', 'loops-through-enumerate-tree')):
    for _p in ['C11', 'C12', 'C01', 'C02', 'C04', 'C05', 'C06', 'C07', 'C08', 'C09', 'C10', 'C13', 'C14', 'C15', 'C16', 'C18', 'C19', 'C20']:
        MUTANTS.append({'prop': _p, 'id': _id, 'kind': 'T', 'edits': _how})

# ------------------------------------------------------------------ round 9: the rules added for its pairs
K('C14', 'transpose-returns-a-broadcast-view', [(F, "        values = np.moveaxis(self.values, range(len(ax)), ax)\n        return Factor(newdom, values)\n",
                                                   "        values = np.moveaxis(self.values, range(len(ax)), ax)\n        return Factor(newdom, np.broadcast_to(values, newdom.shape))\n")], 'results-writable')
T('C14', 'transpose-copies-a-broadcast-view', [(F, "        values = np.moveaxis(self.values, range(len(ax)), ax)\n        return Factor(newdom, values)\n",
                                                  "        values = np.moveaxis(self.values, range(len(ax)), ax)\n        return Factor(newdom, np.broadcast_to(values, newdom.shape).copy())\n")])
K('C14', 'sum-mask-from-unmaterialised-request', [(F, "        axes = self.domain.axes(attrs)\n        values = np.sum(self.values, axis=axes) \n",
                                                     "        axes = tuple(np.flatnonzero(np.isin(self.domain.attrs, attrs)).tolist())\n        values = np.sum(self.values, axis=axes) \n")], 'axis-by-name')
T('C14', 'sum-mask-from-listed-request', [(F, "        axes = self.domain.axes(attrs)\n        values = np.sum(self.values, axis=axes) \n",
                                             "        axes = tuple(np.flatnonzero(np.isin(self.domain.attrs, list(attrs))).tolist())\n        values = np.sum(self.values, axis=axes) \n")])
K('C05', 'rounds-rounded-up-after-the-split', [(MWEM, "    cliques = []\n    for i in range(1, rounds+1):\n", "    cliques = []\n    rounds = int(np.ceil(rounds))\n    for i in range(1, rounds+1):\n")], 'budget')
T('C05', 'rounds-rounded-up-before-the-split', [(MWEM, "        rounds = len(data.domain)\n", "        rounds = len(data.domain)\n    rounds = int(np.ceil(rounds))\n")])
K('C01', 'logz-exit-net-of-the-total', [(GM, "        if logZ: return beliefs[cl].logsumexp()\n", "        if logZ: return beliefs[cl].logsumexp() - np.log(self.total)\n")], 'bp-equations')
K('C18', 'children-by-cardinality', [(RG, "                    any(set(r2) < set(r3) and set(r3) < set(r1) for r3 in regions):\n                    G.add_edge(r1, r2)",
                                          "                    any(len(r2) < len(r3) and set(r3) < set(r1) for r3 in regions):\n                    G.add_edge(r1, r2)")], 'region-structure')
T('C18', 'children-in-between-test-reordered', [(RG, "                    any(set(r2) < set(r3) and set(r3) < set(r1) for r3 in regions):\n                    G.add_edge(r1, r2)",
                                                     "                    any(set(r3) < set(r1) and set(r3) > set(r2) for r3 in regions):\n                    G.add_edge(r1, r2)")])

# ------------------------------------------------------------------ round 10: the rules added for its pairs
K('C15', 'domain-equality-ignores-order', [(DOM, "        return self.attrs == other.attrs and self.shape == other.shape\n",
                                             "        return dict(zip(self.attrs, self.shape)) == dict(zip(other.attrs, other.shape))\n")], 'equality')
T('C15', 'domain-equality-zipped-pairs', [(DOM, "        return self.attrs == other.attrs and self.shape == other.shape\n",
                                            "        return list(zip(self.attrs, self.shape)) == list(zip(other.attrs, other.shape))\n")])
K('C14', 'cv-difference-through-factor-sub', [(CV, "        return self + -1*other\n", "        return CliqueVector({ cl : self[cl] - other[cl] for cl in self })\n")], 'cv-difference')
T('C14', 'cv-difference-per-clique', [(CV, "        return self + -1*other\n", "        return CliqueVector({ cl : self[cl] + -1*other[cl] for cl in self })\n")])
K('C16', 'forebears-without-the-region', [(RG, "        self.forebears = { r : set([r] + self.ancestors[r]) for r in regions }\n", "        self.forebears = { r : set(self.ancestors[r]) for r in regions }\n")], 'region-structure')
T('C16', 'forebears-by-union', [(RG, "        self.forebears = { r : set([r] + self.ancestors[r]) for r in regions }\n", "        self.forebears = { r : {r} | set(self.ancestors[r]) for r in regions }\n")])
K('C18', 'restart-on-a-stalled-loss', [(LI, "            if l > prev_l:\n", "            if l >= prev_l:\n")], 'restart-on-increase')
T('C18', 'restart-test-negated', [(LI, "            if l > prev_l:\n", "            if not (l <= prev_l):\n")])
K('C07', 'delta-floored-at-a-positive-value', [(CDP, "    return min(delta,1.0) #delta<=1 always\n", "    return min(max(delta,1e-16),1.0)\n")], 'delta-formula')
T('C07', 'delta-floored-at-zero', [(CDP, "    return min(delta,1.0) #delta<=1 always\n", "    return min(max(delta,0.0),1.0)\n")])
K('C07', 'rho-seed-without-the-lower-order-term', [(CDP, "    rhomin=0.0 #maintain cdp_delta(rho,eps)<=delta\n", "    rhomin=eps**2/(4*math.log(1/delta))\n")], 'sound-seed')
T('C07', 'rho-seed-from-the-standard-bound', [(CDP, "    rhomin=0.0 #maintain cdp_delta(rho,eps)<=delta\n",
                                               "    rhomin=(math.sqrt(math.log(1/delta)+eps)-math.sqrt(math.log(1/delta)))**2\n")])
K('C20', 'infinite-epsilon-first-maximiser', [(AG, "        eps = np.finfo(np.float64).max\n", "        probas = np.zeros(q.size)\n        probas[q.argmax()] = 1.0\n        return prng.choice(q.size, p=probas)\n")], 'noiseless-limit')
T('C20', 'infinite-epsilon-uniform-over-maximisers', [(AG, "        eps = np.finfo(np.float64).max\n", "        probas = (q == q.max()).astype(float)\n        return prng.choice(q.size, p=probas / probas.sum())\n")])

# ------------------------------------------------------------------ round 11: the rules added for its pairs
K('C15', 'contains-compares-sizes-too', [(DOM, "        return set(other.attrs) <= set(self.attrs)\n", "        return other.config.items() <= self.config.items()\n")], 'containment')
T('C15', 'contains-by-key-views', [(DOM, "        return set(other.attrs) <= set(self.attrs)\n", "        return other.config.keys() <= self.config.keys()\n")])
K('C14', 'log-floored-not-shifted', [(F, "            return Factor(self.domain, np.log(self.values + 1e-100))\n", "            return Factor(self.domain, np.log(np.maximum(self.values, 1e-100)))\n")], 'log-form')
K('C14', 'scalar-product-clipped-by-the-scalar', [(F, "            new_values = np.nan_to_num(other*self.values)\n",
                                                     "            new_values = other*self.values\n            if other == 0 or not np.isfinite(other):\n                new_values = np.nan_to_num(new_values)\n")], 'scalar-cells')
T('C14', 'scalar-product-clipped-when-needed', [(F, "            new_values = np.nan_to_num(other*self.values)\n",
                                                   "            new_values = other*self.values\n            if not np.isfinite(new_values).all():\n                new_values = np.nan_to_num(new_values)\n")])
K('C12', 'neighbors-from-the-edges-only', [(JT, "        return { i : set(self.tree.neighbors(i)) for i in self.maximal_cliques() }\n",
                                              "        nbrs = {}\n        for i, j in self.tree.edges():\n            nbrs.setdefault(i, set()).add(j)\n            nbrs.setdefault(j, set()).add(i)\n        return nbrs\n")], 'neighbors-complete')
T('C12', 'neighbors-pre-seeded', [(JT, "        return { i : set(self.tree.neighbors(i)) for i in self.maximal_cliques() }\n",
                                     "        nbrs = { i : set() for i in self.maximal_cliques() }\n        for i, j in self.tree.edges():\n            nbrs[i].add(j)\n            nbrs[j].add(i)\n        return nbrs\n")])
K('C16', 'lbp-skips-unary-factors', [(FG, "                pre = sum(mu_n[c][cl] for c in cl)\n", "                if len(cl) == 1:\n                    continue\n                pre = sum(mu_n[c][cl] for c in cl)\n")], 'skipped-messages')
K('C16', 'saturated-beliefs-children-only', [(RG, "                    for rd in self.descendants[r]:\n", "                    for rd in self.children[r]:\n")], 'gbp-message-sets')
K('C18', 'oracle-constructor-unknown-keyword', [(LI, "            model = FactorGraph(self.domain, cliques, total, convex=False, iters=self.inner_iters)\n",
                                                    "            model = FactorGraph(self.domain, cliques, total, convex=False, iters=self.inner_iters, damping=0.5)\n")], 'conformance')
K('C09', 'lsmr-from-a-uniform-start', [(MI, "        v = lsmr(Q.T, o, atol=0, btol=0)[0]\n", "        v = lsmr(Q.T, o, atol=0, btol=0, x0=np.full(Q.shape[0], 1.0/Q.shape[0]))[0]\n")], 'variance-form')
T('C09', 'lsmr-from-zero-spelled-out', [(MI, "        v = lsmr(Q.T, o, atol=0, btol=0)[0]\n", "        v = lsmr(Q.T, o, atol=0, btol=0, x0=np.zeros(Q.shape[0]))[0]\n")])

# ------------------------------------------------------------------ round 12: the rules added for its pairs
K('C15', 'sort-by-name-as-text', [(DOM, "            attrs = sorted(self.attrs)\n", "            attrs = sorted(self.attrs, key=str)\n")], 'sort-stable')
T('C15', 'sort-by-name-strings-after-numbers', [(DOM, "            attrs = sorted(self.attrs)\n", "            attrs = sorted(self.attrs, key=lambda a: (isinstance(a, str), a))\n")])
K('C13', 'iteration-range-cached-per-object', [(INF, "    def fix_measurements(self, measurements):\n",
                                                 "    @functools.cached_property\n    def steps(self):\n        return range(1, self.iters + 1)\n\n    def fix_measurements(self, measurements):\n")], 'A3-config-read-only')
T('C13', 'iteration-range-as-a-property', [(INF, "    def fix_measurements(self, measurements):\n",
                                             "    @property\n    def steps(self):\n        return range(1, self.iters + 1)\n\n    def fix_measurements(self, measurements):\n")])
K('C18', 'ancestors-read-off-the-forward-closure', [(RG, "        self.ancestors = { r : list(H1.neighbors(r)) for r in regions }\n", "        self.ancestors = { r : list(G1.neighbors(r)) for r in regions }\n")], 'region-structure')
T('C18', 'ancestors-asked-of-networkx', [(RG, "        self.ancestors = { r : list(H1.neighbors(r)) for r in regions }\n", "        self.ancestors = { r : list(nx.ancestors(G, r)) for r in regions }\n")])
K('C16', 'intersection-region-in-operand-order', [(RG, "                z = tuple(sorted(set(r1) & set(r2)))\n", "                z = tuple(a for a in r1 if a in r2)\n")], 'region-structure')
T('C16', 'intersection-region-sorted-filter', [(RG, "                z = tuple(sorted(set(r1) & set(r2)))\n", "                z = tuple(a for a in sorted(r1) if a in r2)\n")])
K('C14', 'condition-falsy-evidence', [(F, "        slices = [evidence[a] if a in evidence else slice(None) for a in self.domain]\n",
                                         "        slices = [evidence.get(a) or slice(None) for a in self.domain]\n")], 'index-by-name')
T('C14', 'condition-through-dict-get', [(F, "        slices = [evidence[a] if a in evidence else slice(None) for a in self.domain]\n",
                                           "        slices = [evidence.get(a, slice(None)) for a in self.domain]\n")])
_FD_OLD = "        for cl in cliques:\n            mu = data.project(cl)\n            ans[cl] = Factor(mu.domain, mu.datavector())\n"
_FD_NEW = ("        tables = {}\n        for cl in cliques:\n            key = %s\n            if key not in tables:\n                mu = data.project(cl)\n"
           "                tables[key] = Factor(mu.domain, mu.datavector())\n            ans[cl] = tables[key]\n")
K('C19', 'tables-remembered-per-attribute-set', [(CV, _FD_OLD, _FD_NEW % "frozenset([cl] if type(cl) is str else cl)")], 'memo-key')
T('C19', 'tables-remembered-per-ordered-clique', [(CV, _FD_OLD, _FD_NEW % "(cl,) if type(cl) is str else tuple(cl)")])
K('C19', 'tables-in-sorted-attribute-order', [(CV, "            mu = data.project(cl)\n            ans[cl] = Factor(mu.domain, mu.datavector())\n",
                                                 "            mu = data.project(sorted(cl))\n            ans[cl] = Factor(mu.domain, mu.datavector())\n")], 'loss-form')

# ------------------------------------------------------------------ round 13: the rules added for its pairs
_GN = "        return self.prng.normal(0, sigma, size)\n"
_LN = "        return self.prng.laplace(0, b, size)\n"
K('C20', 'laplace-size-passed-as-location', [(MECH, _LN, "        return b * self.prng.laplace(size)\n")], 'sampler-identity')
T('C20', 'laplace-scaled-standard-draw', [(MECH, _LN, "        return b * self.prng.laplace(size=size)\n")])
T('C20', 'gaussian-scaled-standard-draw', [(MECH, _GN, "        return sigma * self.prng.standard_normal(size)\n")])
K('C20', 'gaussian-scaled-unit-draw-of-scale-sigma', [(MECH, _GN, "        return sigma * self.prng.normal(0, sigma, size)\n")], 'sampler-identity')
_PAIRS = ("        for c1, c2 in itertools.combinations(cliques, 2):\n            wgt = len(set(c1) & set(c2))\n"
          "            complete.add_edge(c1, c2, weight=-wgt)\n")
_PAIRS_F = ("        for c1, c2 in itertools.combinations(cliques, 2):\n            wgt = len(set(c1) & set(c2))\n"
            "            if wgt > 0:\n                complete.add_edge(c1, c2, weight=-wgt)\n")
_PATH = "        complete.add_edges_from(zip(cliques, cliques[1:]), weight=0)\n"
for _p in ('C01', 'C12'):
    K(_p, 'weight-0-path-laid-after-the-pairs', [(JT, _PAIRS, _PAIRS_F + _PATH)], 'tree-connected')
    T(_p, 'weight-0-path-laid-before-the-pairs', [(JT, _PAIRS, _PATH + _PAIRS_F)])
    K(_p, 'overlapping-pairs-only-no-path', [(JT, _PAIRS, _PAIRS_F)], 'tree-connected')
K('C11', 'clique-sets-from-the-measured-cliques', [(GM, "        cliques = [set(cl) for cl in self.cliques]\n", "        cliques = [set(cl) for cl in self.junction_tree.cliques]\n")], 'conditioning')
T('C11', 'clique-sets-from-the-tree-object', [(GM, "        cliques = [set(cl) for cl in self.cliques]\n", "        cliques = [set(cl) for cl in self.junction_tree.maximal_cliques()]\n")])
_FOLD = "                pre = sum(mu_f[cl][v] for cl in fac)\n"
K('C18', 'fold-without-start-over-the-factors-of-a-variable', [(FG, "from functools import reduce\n", "from functools import reduce\nimport operator\n"),
                                                                 (FG, _FOLD, "                pre = reduce(operator.add, (mu_f[cl][v] for cl in fac))\n")], 'conformance')
T('C18', 'fold-without-start-behind-an-emptiness-guard', [(FG, "from functools import reduce\n", "from functools import reduce\nimport operator\n"),
                                                            (FG, _FOLD, "                if len(fac) == 0: continue\n                pre = reduce(operator.add, (mu_f[cl][v] for cl in fac))\n")])
T('C16', 'variable-without-factor-skipped', [(FG, _FOLD, "                if not fac: continue\n" + _FOLD)])
_SUB = "        other = Factor(other.domain, np.where(other.values==-np.inf, 0, -other.values))\n        return self + other\n"
K('C14', 'difference-leaves-out-every-infinite-subtrahend', [(F, _SUB, "        neg = np.negative(other.values)\n        neg = np.where(np.isinf(neg), 0, neg)\n        return self + Factor(other.domain, neg)\n")], 'difference-cells')
T('C14', 'difference-mask-on-the-negated-subtrahend', [(F, _SUB, "        neg = np.negative(other.values)\n        neg = np.where(np.isposinf(neg), 0, neg)\n        return self + Factor(other.domain, neg)\n")])
_SEL = "            print('Selected',cl,'Size',n,'Budget Used',rho_used/self.rho)\n"
K('C06', 'history-on-the-mechanism-with-exact-residual', [(AIM, _SEL, _SEL + "            self.history = getattr(self, 'history', []) + [{'clique': cl, 'sigma': sigma, 'residual': np.linalg.norm(w-x, 1)}]\n")], 'public-sink')
T('C06', 'history-on-the-mechanism-with-noisy-residual', [(AIM, _SEL, _SEL + "            self.history = getattr(self, 'history', []) + [{'clique': cl, 'sigma': sigma, 'residual': np.linalg.norm(w-y, 1)}]\n")])
_EIG = "                    eig = eigsh(Q.H * Q, 1)[0][0]\n"
_DENSE = ("                    if p <= 2:\n                        gram = (Q.H * Q).matmat(np.eye(p))\n                        eig = np.linalg.eigh(gram)[0][%s]\n"
          "                    else:\n                        eig = eigsh(Q.H * Q, 1)[0][0]\n")
K('C04', 'dense-small-case-takes-the-smallest-eigenvalue', [(INF, _EIG, _DENSE % '0')], 'lipschitz-form')
T('C04', 'dense-small-case-takes-the-largest-eigenvalue', [(INF, _EIG, _DENSE % '-1')])
_INIT = "        self.history = []\n"
T('C13', 'write-only-record-reassigned-per-call', [(INF, _INIT, _INIT + "        self.last_total = None\n"),
                                                    (INF, "        self.groups = defaultdict(lambda: [])\n",
                                                     "        self.last_total = total\n        self.groups = defaultdict(lambda: [])\n")])

# ------------------------------------------------------------------ round 14: the rules added for its pairs
K('C16', 'factor-graph-total-truncated', [(FG, "        self.total = total\n", "        self.total = int(total)\n")], 'total-stored')
T('C16', 'factor-graph-total-as-float', [(FG, "        self.total = total\n", "        self.total = float(total)\n")])
_MID = "        rho=(rhomin+rhomax)/2\n"
K('C07', 'rho-search-returns-the-midpoint-on-a-tolerance', [(CDP, _MID, _MID + "        if rhomax-rhomin<1e-9: return rho\n")], 'search-termination')
T('C07', 'rho-search-returns-the-sound-end-at-the-fixed-point', [(CDP, _MID, _MID + "        if not rhomin<rho<rhomax: return rhomin\n")])
K('C07', 'rho-search-returns-the-midpoint-at-the-fixed-point', [(CDP, _MID, _MID + "        if not rhomin<rho<rhomax: return rho\n")], 'search-termination')
_DV = "        bins = [range(n+1) for n in self.domain.shape]\n"
K('C15', 'empty-record-set-as-a-flat-vector', [(DS, _DV, "        if self.records == 0:\n            ans = np.zeros(self.domain.size())\n            return ans.flatten() if flatten else ans\n" + _DV)], 'histogram')
T('C15', 'empty-record-set-as-a-zero-table', [(DS, _DV, "        if self.records == 0:\n            ans = np.zeros(self.domain.shape)\n            return ans.flatten() if flatten else ans\n" + _DV)])
K('C09', 'public-floor-with-the-estimate-first', [(PI, "        return max(1, estimate)\n", "        return max(estimate, 1)\n")], 'floor-and-default')
K('C09', 'setup-floor-with-the-estimate-first', [(INF, "                total = max(1, estimate)\n", "                total = max(estimate, 1)\n")], 'floor-and-default')
T('C09', 'setup-floor-as-a-float', [(INF, "                total = max(1, estimate)\n", "                total = max(1.0, estimate)\n")])
_MSG = "            messages[(i,j)] = tau.logsumexp(sep)\n"
for _p in ('C01',):          # C10 trusts C01 for what belief_propagation does with the mask
    K(_p, 'no-message-over-an-empty-separator', [(GM, _MSG, "            if not self.sep_axes[(i,j)]:\n                continue\n" + _MSG)], 'bp-equations')
    T(_p, 'scalar-message-over-an-empty-separator', [(GM, _MSG, "            if not self.sep_axes[(i,j)]:\n                messages[(i,j)] = tau.logsumexp()\n            else:\n    " + _MSG)])
_EXP0 = "    def exp(self, out=None):\n"
_EXPB = "        if out is None:\n            return Factor(self.domain, np.exp(self.values))\n        np.exp(self.values, out=out.values)\n"
_EXPN = "        values = np.minimum(self.values, %s)\n        if out is None:\n            return Factor(self.domain, np.exp(values))\n        np.exp(values, out=out.values)\n"
K('C14', 'exponent-capped-at-the-float32-range', [(F, _EXPB, _EXPN % "np.log(np.finfo(np.float32).max)")], 'exp-form')
T('C14', 'exponent-capped-at-the-double-range', [(F, _EXPB, _EXPN % "np.log(np.finfo(float).max)")])
_WARM = ("        if self.warm_start and hasattr(self, 'model'):\n            model.potentials.combine(self.model.potentials)\n        self.model = model  \n")
_CK0 = "        self.history = []\n"
K('C13', 'checkpoint-used-whenever-it-exists', [(INF, _CK0, _CK0 + "        self.checkpoint = None\n"),
    (INF, _WARM, "        if self.checkpoint is not None:\n            model.potentials.combine(self.checkpoint.potentials)\n        self.model = model\n        if self.warm_start:\n            self.checkpoint = model\n")], 'A2-per-call-state')
T('C13', 'checkpoint-used-only-under-the-flag', [(INF, _CK0, _CK0 + "        self.checkpoint = None\n"),
    (INF, _WARM, "        if self.warm_start and self.checkpoint is not None:\n            model.potentials.combine(self.checkpoint.potentials)\n        self.model = model\n        self.checkpoint = model\n")])

# ------------------------------------------------------------------ round 15: the rules added for its pairs
_BULK = "            for attr in results:\n                if set(proj) <= set(attr):\n"
_HIT = ("            key = self.domain.canonical(proj)\n            if len(key) == len(proj) and key in results:\n"
        "                answers[proj] = results[key].transpose(%s)\n                continue\n")
K('C02', 'exact-hit-of-the-bulk-query-in-domain-order', [(GM, _BULK, _HIT % 'key' + _BULK)], 'requested-order')
T('C02', 'exact-hit-of-the-bulk-query-as-requested', [(GM, _BULK, _HIT % 'proj' + _BULK)])
T('C11', 'leftover-records-added-unbuffered', [(GM, "                integ[idx] += 1\n", "                np.add.at(integ, idx, 1)\n")])
_LOG = "        np.log(self.values, out=out.values)\n"
K('C14', 'in-place-logarithm-of-the-shifted-values', [(F, _LOG, "        np.log(self.values + 1e-100, out=out.values)\n")], 'log-form')
T('C14', 'in-place-logarithm-through-a-local', [(F, _LOG, "        values = self.values\n        np.log(values, out=out.values)\n")])
K('C11', 'leftover-records-drawn-with-replacement-unbuffered', [(GM, "                idx = np.random.choice(counts.size, extra, False, frac / frac.sum())\n                integ[idx] += 1\n",
                                                                   "                idx = np.random.choice(counts.size, extra, True, frac / frac.sum())\n                np.add.at(integ, idx, 1)\n")], 'count-conservation')

# ------------------------------------------------------------------ round 16: the rules added for its pairs
_PAIRSOF = "            G.add_edges_from(itertools.combinations(cl, 2))\n"
K('C12', 'clique-attributes-joined-in-a-ring', [(JT, _PAIRSOF, "            if len(cl) > 1: nx.add_cycle(G, cl)\n")], 'graph-from-cliques')
T('C12', 'clique-attributes-joined-by-complete-graph', [(JT, _PAIRSOF, "            if len(cl) > 1: G.update(nx.complete_graph(cl))\n")])
_AVG = "            if terminate: return ans * (self.total / ans.sum())\n"
K('C16', 'in-clique-answer-as-a-plain-average', [(FG, "            terminate = False\n", "            terminate = False\n            count = 0\n"),
                                                  (FG, "                    terminate = True\n", "                    terminate = True\n                    count += 1\n"),
                                                  (FG, _AVG, "            if terminate: return ans / count\n")], 'project-rescaled')
_GBPMIX = "                self.messages[ru,rd] = 0.5*self.messages[ru,rd] + 0.5*new[ru,rd]\n"
_MOVE = "        values = np.moveaxis(values, range(len(ax)), ax)\n"
_PERM = ("        if %s:\n            dest = list(ax) + [k for k in range(len(domain)) if k not in ax]\n            values = values.transpose(np.argsort(dest))\n")
for _p in ('C14',):
    K(_p, 'own-axes-in-place-judged-by-their-ends', [(F, _MOVE, _PERM % "ax[:1] != (0,) or ax[-1:] != (len(ax)-1,)")], 'broadcast')
    T(_p, 'own-axes-in-place-judged-exactly', [(F, _MOVE, _PERM % "ax != tuple(range(len(ax)))")])
_NOISE = "            assert np.isscalar(noise), 'noise must be a real value, given ' + str(noise)\n"
K('C04', 'noise-floored-at-single-precision-epsilon', [(INF, _NOISE, _NOISE + "            noise = max(float(noise), np.finfo(np.float32).eps)\n")], 'spelling')
T('C04', 'noise-floored-at-the-smallest-double', [(INF, _NOISE, _NOISE + "            noise = max(float(noise), np.finfo(float).tiny)\n")])


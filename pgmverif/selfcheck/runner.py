"""Self-validation: every rule is tested both ways on in-memory variants of the current source.

K (kill) mutants break a clause while still compiling; the property's check must report a new violation
(optionally of a named rule).  T (twin) variants are behaviour-preserving refactors; the check must stay
silent and must not fail with an analysis error.  Variants are source overlays computed against /repo's
current text (compile()d first); nothing from the repository is executed.
"""
import importlib
import os
import sys
from concurrent.futures import ProcessPoolExecutor

from ..srcmodel import AnalysisError, Repo, U
from ..report import load_known, match_known


def load_mutants(prop=None):
    from . import mutants
    importlib.reload(mutants)
    ms = mutants.MUTANTS
    return [m for m in ms if prop is None or m['prop'] == prop]


def patch_overlay(repo, patch_text):
    """apply a unified diff in memory to the current (LF-normalised) sources -> overlay dict, or None if it does not apply"""
    import re
    overlay = {}
    cur = None
    hunks = {}
    plines = patch_text.replace('\r\n', '\n').split('\n')
    if plines and plines[-1] == '':
        plines.pop()
    for line in plines:
        m = re.match(r'^\+\+\+ b/(\S+)', line)
        if m:
            cur = m.group(1)
            hunks[cur] = []
            continue
        if line.startswith('--- ') or line.startswith('diff --git') or line.startswith('index ') or cur is None:
            continue
        h = re.match(r'^@@ -(\d+)(?:,(\d+))? \+(\d+)(?:,(\d+))? @@', line)
        if h:
            hunks[cur].append([int(h.group(1)), []])
            continue
        if hunks[cur] and (line[:1] in (' ', '+', '-') or line == ''):
            if line.startswith('\\'):
                continue
            hunks[cur][-1][1].append(line if line else ' ')
    for rel, hs in hunks.items():
        if not repo.exists(rel):
            return None
        src = repo.source(rel).split('\n')
        out, pos = [], 0          # pos: index into src already consumed
        for start, lines in hs:
            # trailing artefact: the split of the final newline yields one empty context line
            while lines and lines[-1] == ' ' and start - 1 + sum(1 for l in lines if l[:1] in (' ', '-')) > len(src):
                lines = lines[:-1]
            i = start - 1
            if i < pos:
                return None
            out.extend(src[pos:i])
            for l in lines:
                tag, text = l[:1], l[1:].rstrip('\r')
                if tag == ' ':
                    if i >= len(src) or src[i].rstrip('\r') != text:
                        return None
                    out.append(src[i])
                    i += 1
                elif tag == '-':
                    if i >= len(src) or src[i].rstrip('\r') != text:
                        return None
                    i += 1
                else:
                    out.append(text)
            pos = i
        out.extend(src[pos:])
        overlay[rel] = '\n'.join(out)
    for rel, src in overlay.items():
        try:
            compile(src, rel, 'exec')
        except SyntaxError:
            return None
    return overlay


def corpus_variants(prop):
    """the independently produced changes kept under /verif/seeded (breaking) and /verif/twins (behaviour-preserving) as additional
    variants of the thorough tier: a breaking change recorded as reported by this property must still be reported (by one of the
    recorded rules), a preserving one of this property must still be silent"""
    import glob
    import json
    from ..report import VERIF_ROOT
    out = []
    for mp in sorted(glob.glob(os.path.join(VERIF_ROOT, 'seeded', '*', 'meta.json'))):
        try:
            meta = json.load(open(mp))
        except Exception:
            continue
        rules = sorted({r.split('@')[0] for r in meta.get('detected_by', {}).get(prop, [])})
        if rules:
            out.append({'prop': prop, 'id': 'seed:' + meta.get('id', '?'), 'kind': 'K', 'edits': ('PATCH', os.path.join(os.path.dirname(mp), 'patch.diff')),
                        'rule': rules})
    for mp in sorted(glob.glob(os.path.join(VERIF_ROOT, 'twins', '*', 'meta.json'))):
        try:
            meta = json.load(open(mp))
        except Exception:
            continue
        if meta.get('property') == prop and not meta.get('false_alarms') and not meta.get('analysis_errors'):
            out.append({'prop': prop, 'id': 'twin:' + meta.get('id', '?'), 'kind': 'T', 'edits': ('PATCH', os.path.join(os.path.dirname(mp), 'patch.diff'))})
    return out


def rename_locals(source):
    import ast

    tree = ast.parse(source)

    def own_nodes(fn):
        """nodes of the function's own scope (not descending into nested functions, lambdas, classes; comprehensions are descended
        into because their iterables / conditions read the enclosing scope, their targets are handled as bound names)"""
        out = []
        todo = list(fn.body)
        while todo:
            n = todo.pop()
            out.append(n)
            for ch in ast.iter_child_nodes(n):
                if isinstance(ch, (ast.FunctionDef, ast.AsyncFunctionDef, ast.Lambda, ast.ClassDef)):
                    out.append(ch)
                    continue
                todo.append(ch)
        return out

    for fn in [n for n in ast.walk(tree) if isinstance(n, (ast.FunctionDef, ast.AsyncFunctionDef))]:
        nodes = own_nodes(fn)
        nested = [n for n in nodes if isinstance(n, (ast.FunctionDef, ast.AsyncFunctionDef, ast.Lambda, ast.ClassDef))]
        params = {a.arg for a in fn.args.posonlyargs + fn.args.args + fn.args.kwonlyargs}
        if fn.args.vararg:
            params.add(fn.args.vararg.arg)
        if fn.args.kwarg:
            params.add(fn.args.kwarg.arg)
        declared = {x for n in nodes if isinstance(n, (ast.Global, ast.Nonlocal)) for x in n.names}
        stored = {n.id for n in nodes if isinstance(n, ast.Name) and isinstance(n.ctx, (ast.Store, ast.Del))}
        comp_bound = {x.id for n in nodes if isinstance(n, ast.comprehension) for x in ast.walk(n.target) if isinstance(x, ast.Name)}
        nested_names = {x.id for nf in nested for x in ast.walk(nf) if isinstance(x, ast.Name)} | \
                       {a.arg for nf in nested if not isinstance(nf, ast.ClassDef) for a in nf.args.args}
        imported = {(a.asname or a.name).split('.')[0] for n in nodes if isinstance(n, (ast.Import, ast.ImportFrom)) for a in n.names}
        cand = stored - params - declared - comp_bound - nested_names - imported - {n.name for n in nested if hasattr(n, 'name')}
        cand = {c for c in cand if not c.startswith('__')}
        if not cand:
            continue
        mapping = {c: c + '_r' for c in cand}
        for n in nodes:
            if isinstance(n, ast.Name) and n.id in mapping:
                n.id = mapping[n.id]
    return ast.unparse(tree) + '\n'


def transform_tree(source, how):
    """behaviour-preserving rewrites applied at every site of a file:
       FLIPCMP  a < b -> b > a   (also <=, >, >=; single comparisons of side-effect-free operands)
       SWAPIF   if c: A else: B -> if not c: B else: A     (both branches non-empty, no elif chain)
       RETTMP   return E -> _ret = E; return _ret          (E not a name / constant)"""
    import ast
    tree = ast.parse(source)

    def pure(e):
        return not any(isinstance(n, (ast.Call, ast.Yield, ast.Await, ast.NamedExpr)) for n in ast.walk(e))
    if how == 'FLIPCMP':
        flip = {ast.Lt: ast.Gt, ast.Gt: ast.Lt, ast.LtE: ast.GtE, ast.GtE: ast.LtE}
        for n in ast.walk(tree):
            if isinstance(n, ast.Compare) and len(n.ops) == 1 and type(n.ops[0]) in flip and pure(n.left) and pure(n.comparators[0]):
                n.left, n.comparators[0] = n.comparators[0], n.left
                n.ops[0] = flip[type(n.ops[0])]()
    elif how == 'SWAPIF':
        for n in ast.walk(tree):
            if isinstance(n, ast.If) and n.body and n.orelse and not (len(n.orelse) == 1 and isinstance(n.orelse[0], ast.If)):
                t = n.test
                n.test = t.operand if isinstance(t, ast.UnaryOp) and isinstance(t.op, ast.Not) else ast.UnaryOp(op=ast.Not(), operand=t)
                n.body, n.orelse = n.orelse, n.body
    elif how == 'RETTMP':
        class R(ast.NodeTransformer):
            def __init__(self):
                self.k = 0

            def visit_Return(self, node):
                if node.value is None or isinstance(node.value, (ast.Name, ast.Constant)):
                    return node
                self.k += 1
                nm = '_ret%d' % self.k
                return [ast.Assign(targets=[ast.Name(id=nm, ctx=ast.Store())], value=node.value, lineno=node.lineno, col_offset=node.col_offset),
                        ast.Return(value=ast.Name(id=nm, ctx=ast.Load()), lineno=node.lineno, col_offset=node.col_offset)]

            def visit_Lambda(self, node):
                return node
        tree = R().visit(tree)
    elif how == 'COMPVARS':
        # every comprehension variable gets another name (comprehensions are their own scope)
        for comp in [n for n in ast.walk(tree) if isinstance(n, (ast.ListComp, ast.SetComp, ast.GeneratorExp, ast.DictComp))]:
            bound = {x.id for g in comp.generators for x in ast.walk(g.target) if isinstance(x, ast.Name)}
            inner_lambda = any(isinstance(x, ast.Lambda) for x in ast.walk(comp))
            if inner_lambda:
                continue
            nested_bound = {x.id for c2 in ast.walk(comp) if c2 is not comp and isinstance(c2, (ast.ListComp, ast.SetComp, ast.GeneratorExp, ast.DictComp))
                            for g in c2.generators for x in ast.walk(g.target) if isinstance(x, ast.Name)}
            todo = bound - nested_bound
            first_iter_names = {x.id for x in ast.walk(comp.generators[0].iter) if isinstance(x, ast.Name)}
            todo -= first_iter_names          # the first iterable is evaluated in the enclosing scope: keep clashes out
            for x in ast.walk(comp):
                if isinstance(x, ast.Name) and x.id in todo:
                    x.id = x.id + '_c'
    elif how == 'HOISTARG':
        # v = outer(inner(..), ..)  ->  _h = inner(..); v = outer(_h, ..)     (statement level, first positional argument only)
        class H(ast.NodeTransformer):
            def __init__(self):
                self.k = 0

            def hoist(self, st, call):
                if isinstance(call, ast.Call) and call.args and isinstance(call.args[0], ast.Call) and not isinstance(call.func, ast.Lambda) \
                        and not any(isinstance(x, (ast.Lambda, ast.GeneratorExp, ast.ListComp, ast.Starred)) for x in ast.walk(call.args[0])) \
                        and isinstance(call.func, (ast.Name, ast.Attribute)) and not any(isinstance(x, ast.Call) for x in ast.walk(call.func)):
                    self.k += 1
                    nm = '_h%d' % self.k
                    pre = ast.Assign(targets=[ast.Name(id=nm, ctx=ast.Store())], value=call.args[0], lineno=st.lineno, col_offset=st.col_offset)
                    call.args[0] = ast.Name(id=nm, ctx=ast.Load())
                    return [pre, st]
                return st

            def visit_Assign(self, st):
                return self.hoist(st, st.value)

            def visit_Return(self, st):
                return self.hoist(st, st.value) if st.value is not None else st

            def visit_Expr(self, st):
                return self.hoist(st, st.value)

            def visit_Lambda(self, node):
                return node
        tree = H().visit(tree)
    else:
        tree = transform_tree2(tree, how)
    ast.fix_missing_locations(tree)
    return ast.unparse(tree) + '\n'


TREE2 = ('NOTIN', 'TUPSPLIT', 'IFEXPSTMT', 'WHILEBRK', 'COMPLOOP', 'LAMBDADEF', 'NPALIAS', 'ELSEWRAP', 'ELSEUNWRAP', 'CHAINCMP', 'RANGE0',
         'EMPTYLIT', 'KWCALL', 'DOCSTRIP', 'CONDTMP', 'RECVTMP', 'LOOPUNPACK', 'TUPJOIN', 'ANDSPLIT', 'ANDJOIN', 'AUGSPLIT', 'ENUMIDX', 'ITEMSLOOP')
SITES = {}


def transform_tree2(tree, how):
    """second family of behaviour-preserving whole-tree rewrites
       NOTIN      a not in b -> not (a in b);  a is not b -> not (a is b)
       TUPSPLIT   a, b = x, y -> a = x; b = y            (no target name read by any right-hand side)
       IFEXPSTMT  v = A if c else B -> if c: v = A else: v = B   (also return)
       WHILEBRK   while c: S -> while True: if not c: break; S   (no else clause)
       COMPLOOP   v = [e for ..] -> v = []; for ..: v.append(e)  (also dict / set comprehensions; loop variables get fresh names)
       LAMBDADEF  f = lambda a: e -> def f(a): return e
       NPALIAS    import numpy as np -> import numpy; np.x -> numpy.x
       ELSEWRAP   if c: ..return; REST -> if c: ..return else: REST
       ELSEUNWRAP if c: ..return else: REST -> if c: ..return; REST
       CHAINCMP   a <= b <= c -> a <= b and b <= c      (b side-effect free)
       RANGE0     range(n) -> range(0, n)
       EMPTYLIT   {} -> dict(); [] -> list()"""
    import ast
    count = [0]

    def pure(e):
        return not any(isinstance(n, (ast.Call, ast.Yield, ast.Await, ast.NamedExpr)) for n in ast.walk(e))
    JUMP = (ast.Return, ast.Raise, ast.Continue, ast.Break)
    if how == 'NOTIN':
        class N(ast.NodeTransformer):
            def visit_Compare(self, node):
                self.generic_visit(node)
                if len(node.ops) == 1 and isinstance(node.ops[0], (ast.NotIn, ast.IsNot)):
                    count[0] += 1
                    op = ast.In() if isinstance(node.ops[0], ast.NotIn) else ast.Is()
                    return ast.UnaryOp(op=ast.Not(), operand=ast.Compare(left=node.left, ops=[op], comparators=node.comparators))
                return node
        tree = N().visit(tree)
    elif how == 'TUPSPLIT':
        class T(ast.NodeTransformer):
            def visit_Assign(self, st):
                if len(st.targets) == 1 and isinstance(st.targets[0], ast.Tuple) and isinstance(st.value, ast.Tuple) \
                        and len(st.targets[0].elts) == len(st.value.elts) and all(isinstance(t, ast.Name) for t in st.targets[0].elts) \
                        and not any(isinstance(v, ast.Starred) for v in st.value.elts):
                    tn = {t.id for t in st.targets[0].elts}
                    if len(tn) == len(st.targets[0].elts) and not any(isinstance(x, ast.Name) and x.id in tn for v in st.value.elts for x in ast.walk(v)) \
                            and all(pure(v) for v in st.value.elts):
                        count[0] += 1
                        return [ast.Assign(targets=[t], value=v, lineno=st.lineno, col_offset=st.col_offset)
                                for t, v in zip(st.targets[0].elts, st.value.elts)]
                return st
        tree = T().visit(tree)
    elif how == 'IFEXPSTMT':
        class I(ast.NodeTransformer):
            def visit_Lambda(self, node):
                return node

            def visit_Assign(self, st):
                if isinstance(st.value, ast.IfExp) and len(st.targets) == 1 and isinstance(st.targets[0], ast.Name):
                    count[0] += 1
                    e = st.value
                    mk = lambda v: ast.Assign(targets=[ast.Name(id=st.targets[0].id, ctx=ast.Store())], value=v, lineno=st.lineno, col_offset=0)
                    return ast.If(test=e.test, body=[mk(e.body)], orelse=[mk(e.orelse)], lineno=st.lineno, col_offset=0)
                return st

            def visit_Return(self, st):
                if isinstance(st.value, ast.IfExp):
                    count[0] += 1
                    e = st.value
                    return ast.If(test=e.test, body=[ast.Return(value=e.body)], orelse=[ast.Return(value=e.orelse)], lineno=st.lineno, col_offset=0)
                return st
        tree = I().visit(tree)
    elif how == 'WHILEBRK':
        class W(ast.NodeTransformer):
            def visit_While(self, st):
                self.generic_visit(st)
                if not st.orelse and not isinstance(st.test, ast.Constant):
                    count[0] += 1
                    t = st.test
                    neg = t.operand if isinstance(t, ast.UnaryOp) and isinstance(t.op, ast.Not) else ast.UnaryOp(op=ast.Not(), operand=t)
                    st.body = [ast.If(test=neg, body=[ast.Break()], orelse=[])] + st.body
                    st.test = ast.Constant(value=True)
                return st
        tree = W().visit(tree)
    elif how == 'COMPLOOP':
        COMPS = (ast.ListComp, ast.SetComp, ast.DictComp, ast.GeneratorExp)

        class C(ast.NodeTransformer):
            def __init__(self):
                self.depth = 0
                self.k = 0

            def visit_FunctionDef(self, fn):
                self.depth += 1
                self.generic_visit(fn)
                self.depth -= 1
                return fn

            def visit_Lambda(self, node):
                return node

            def visit_ClassDef(self, node):
                d, self.depth = self.depth, 0
                self.generic_visit(node)
                self.depth = d
                return node

            def visit_Assign(self, st):
                v = st.value
                if not self.depth or len(st.targets) != 1 or not isinstance(st.targets[0], ast.Name) \
                        or not isinstance(v, (ast.ListComp, ast.SetComp, ast.DictComp)):
                    return st
                tgt = st.targets[0].id
                inner = [x for x in ast.walk(v) if x is not v]
                if any(isinstance(x, COMPS + (ast.Lambda,)) for x in inner) or any(isinstance(x, ast.Name) and x.id == tgt for x in inner):
                    return st
                if any(g.is_async for g in v.generators):
                    return st
                bound = {x.id for g in v.generators for x in ast.walk(g.target) if isinstance(x, ast.Name)}
                if bound & {x.id for x in ast.walk(v.generators[0].iter) if isinstance(x, ast.Name)}:
                    return st
                self.k += 1
                count[0] += 1
                ren = {b: '%s_l%d' % (b, self.k) for b in bound}
                for x in inner:
                    if isinstance(x, ast.Name) and x.id in ren:
                        x.id = ren[x.id]
                nm = lambda ctx: ast.Name(id=tgt, ctx=ctx)
                if isinstance(v, ast.ListComp):
                    init = ast.List(elts=[], ctx=ast.Load())
                    leaf = ast.Expr(value=ast.Call(func=ast.Attribute(value=nm(ast.Load()), attr='append', ctx=ast.Load()), args=[v.elt], keywords=[]))
                elif isinstance(v, ast.SetComp):
                    init = ast.Call(func=ast.Name(id='set', ctx=ast.Load()), args=[], keywords=[])
                    leaf = ast.Expr(value=ast.Call(func=ast.Attribute(value=nm(ast.Load()), attr='add', ctx=ast.Load()), args=[v.elt], keywords=[]))
                else:
                    init = ast.Dict(keys=[], values=[])
                    leaf = ast.Assign(targets=[ast.Subscript(value=nm(ast.Load()), slice=v.key, ctx=ast.Store())], value=v.value, lineno=st.lineno,
                                      col_offset=0)
                body = [leaf]
                for g in reversed(v.generators):
                    for c in reversed(g.ifs):
                        body = [ast.If(test=c, body=body, orelse=[])]
                    body = [ast.For(target=g.target, iter=g.iter, body=body, orelse=[], lineno=st.lineno, col_offset=0)]
                return [ast.Assign(targets=[nm(ast.Store())], value=init, lineno=st.lineno, col_offset=0)] + body
        tree = C().visit(tree)
    elif how == 'LAMBDADEF':
        class L(ast.NodeTransformer):
            def visit_Assign(self, st):
                if len(st.targets) == 1 and isinstance(st.targets[0], ast.Name) and isinstance(st.value, ast.Lambda):
                    count[0] += 1
                    return ast.FunctionDef(name=st.targets[0].id, args=st.value.args, body=[ast.Return(value=st.value.body)], decorator_list=[],
                                           returns=None, type_comment=None, type_params=[], lineno=st.lineno, col_offset=0)
                return st
        tree = L().visit(tree)
    elif how == 'NPALIAS':
        names = {x.id for x in ast.walk(tree) if isinstance(x, ast.Name)} | {a.arg for x in ast.walk(tree) if isinstance(x, ast.arguments)
                                                                            for a in x.args + x.kwonlyargs}
        if 'numpy' not in names:
            for x in ast.walk(tree):
                if isinstance(x, ast.Import):
                    for a in x.names:
                        if a.name == 'numpy' and a.asname == 'np':
                            a.asname = None
                            count[0] += 1
            if count[0]:
                for x in ast.walk(tree):
                    if isinstance(x, ast.Name) and x.id == 'np':
                        x.id = 'numpy'
    elif how in ('ELSEWRAP', 'ELSEUNWRAP'):
        def blocks(n):
            for f in ('body', 'orelse', 'finalbody'):
                b = getattr(n, f, None)
                if isinstance(b, list) and b and isinstance(b[0], ast.stmt):
                    yield f, b

        def rewrite(block):
            out = []
            i = 0
            while i < len(block):
                st = block[i]
                if isinstance(st, ast.If) and st.body and isinstance(st.body[-1], JUMP):
                    if how == 'ELSEWRAP' and not st.orelse and i + 1 < len(block):
                        count[0] += 1
                        st.orelse = rewrite(block[i + 1:])
                        out.append(st)
                        return out
                    if how == 'ELSEUNWRAP' and st.orelse:
                        count[0] += 1
                        rest = st.orelse
                        st.orelse = []
                        out.append(st)
                        out.extend(rewrite(rest + block[i + 1:]))
                        return out
                out.append(st)
                i += 1
            return out

        def walk(n):
            for f, b in list(blocks(n)):
                nb = rewrite(b)
                setattr(n, f, nb)
                for st in nb:
                    walk(st)
            if isinstance(n, ast.Try):
                for h in n.handlers:
                    h.body = rewrite(h.body)
                    for st in h.body:
                        walk(st)
        walk(tree)
    elif how == 'CHAINCMP':
        class Ch(ast.NodeTransformer):
            def visit_Compare(self, node):
                self.generic_visit(node)
                if len(node.ops) == 2 and pure(node.comparators[0]):
                    count[0] += 1
                    import copy
                    mid = node.comparators[0]
                    return ast.BoolOp(op=ast.And(), values=[ast.Compare(left=node.left, ops=[node.ops[0]], comparators=[mid]),
                                                            ast.Compare(left=copy.deepcopy(mid), ops=[node.ops[1]], comparators=[node.comparators[1]])])
                return node
        tree = Ch().visit(tree)
    elif how == 'RANGE0':
        for x in ast.walk(tree):
            if isinstance(x, ast.Call) and isinstance(x.func, ast.Name) and x.func.id == 'range' and len(x.args) == 1 and not x.keywords \
                    and not isinstance(x.args[0], ast.Starred):
                count[0] += 1
                x.args = [ast.Constant(value=0), x.args[0]]
    elif how == 'EMPTYLIT':
        bound = {x.id for x in ast.walk(tree) if isinstance(x, ast.Name) and isinstance(x.ctx, ast.Store)} | \
                {a.arg for x in ast.walk(tree) if isinstance(x, ast.arguments) for a in x.args + x.kwonlyargs}

        class E(ast.NodeTransformer):
            def visit_Dict(self, node):
                self.generic_visit(node)
                if not node.keys and 'dict' not in bound:
                    count[0] += 1
                    return ast.Call(func=ast.Name(id='dict', ctx=ast.Load()), args=[], keywords=[])
                return node

            def visit_List(self, node):
                self.generic_visit(node)
                if not node.elts and isinstance(node.ctx, ast.Load) and 'list' not in bound:
                    count[0] += 1
                    return ast.Call(func=ast.Name(id='list', ctx=ast.Load()), args=[], keywords=[])
                return node
        tree = E().visit(tree)
    elif how == 'KWCALL':
        # f(a, b, c) -> f(a, b=b', c=c') for callees defined in the same module (module-level functions, methods called on self)
        funcs = {}
        for n in tree.body:
            if isinstance(n, ast.FunctionDef):
                funcs[('', n.name)] = n
            elif isinstance(n, ast.ClassDef):
                for m in n.body:
                    if isinstance(m, ast.FunctionDef):
                        funcs[(n.name, m.name)] = m

        def params_of(fn, skip_self):
            a = fn.args
            if a.vararg or a.kwarg or a.posonlyargs or fn.decorator_list:
                return None
            ps = [x.arg for x in a.args]
            return ps[1:] if skip_self else ps

        class KW(ast.NodeTransformer):
            def __init__(self):
                self.cls = ''

            def visit_ClassDef(self, node):
                old, self.cls = self.cls, node.name
                self.generic_visit(node)
                self.cls = old
                return node

            def visit_Call(self, node):
                self.generic_visit(node)
                ps = None
                if isinstance(node.func, ast.Name) and ('', node.func.id) in funcs:
                    ps = params_of(funcs[('', node.func.id)], False)
                elif isinstance(node.func, ast.Attribute) and isinstance(node.func.value, ast.Name) and node.func.value.id == 'self' \
                        and (self.cls, node.func.attr) in funcs:
                    ps = params_of(funcs[(self.cls, node.func.attr)], True)
                if ps is None or len(node.args) < 2 or len(node.args) > len(ps) or any(isinstance(a, ast.Starred) for a in node.args) \
                        or any(k.arg is None for k in node.keywords):
                    return node
                count[0] += 1
                extra = [ast.keyword(arg=ps[i], value=a) for i, a in enumerate(node.args) if i >= 1]
                node.args = node.args[:1]
                node.keywords = extra + node.keywords
                return node
        tree = KW().visit(tree)
    elif how == 'DOCSTRIP':
        for n in ast.walk(tree):
            if isinstance(n, (ast.FunctionDef, ast.ClassDef, ast.Module)) and n.body and isinstance(n.body[0], ast.Expr) \
                    and isinstance(n.body[0].value, ast.Constant) and isinstance(n.body[0].value.value, str) and len(n.body) > 1:
                n.body = n.body[1:]
                count[0] += 1
    elif how == 'CONDTMP':
        class CT(ast.NodeTransformer):
            def __init__(self):
                self.k = 0

            def visit_Lambda(self, node):
                return node

            def visit_If(self, st):
                self.generic_visit(st)
                t = st.test
                if isinstance(t, (ast.Call, ast.BoolOp, ast.Compare)) and not any(isinstance(x, (ast.NamedExpr, ast.Yield, ast.Await)) for x in ast.walk(t)):
                    self.k += 1
                    count[0] += 1
                    nm = '_cond%d' % self.k
                    pre = ast.Assign(targets=[ast.Name(id=nm, ctx=ast.Store())], value=t, lineno=st.lineno, col_offset=st.col_offset)
                    st.test = ast.Name(id=nm, ctx=ast.Load())
                    return [pre, st]
                return st
        # an `elif` is an If inside orelse: hoisting its test in front of it stays inside that orelse - fine
        tree = CT().visit(tree)
    elif how == 'RECVTMP':
        class RT(ast.NodeTransformer):
            def __init__(self):
                self.k = 0

            def visit_Lambda(self, node):
                return node

            def hoist(self, st, call):
                if isinstance(call, ast.Call) and isinstance(call.func, ast.Attribute) and isinstance(call.func.value, ast.Call) \
                        and not any(isinstance(x, (ast.Lambda, ast.GeneratorExp, ast.ListComp)) for x in ast.walk(call.func.value)):
                    self.k += 1
                    count[0] += 1
                    nm = '_recv%d' % self.k
                    pre = ast.Assign(targets=[ast.Name(id=nm, ctx=ast.Store())], value=call.func.value, lineno=st.lineno, col_offset=st.col_offset)
                    call.func.value = ast.Name(id=nm, ctx=ast.Load())
                    return [pre, st]
                return st

            def visit_Assign(self, st):
                return self.hoist(st, st.value)

            def visit_Return(self, st):
                return self.hoist(st, st.value) if st.value is not None else st

            def visit_Expr(self, st):
                return self.hoist(st, st.value)
        tree = RT().visit(tree)
    elif how == 'LOOPUNPACK':
        k = [0]
        for n in ast.walk(tree):
            if isinstance(n, ast.For) and isinstance(n.target, ast.Tuple) and all(isinstance(e, ast.Name) for e in n.target.elts):
                k[0] += 1
                count[0] += 1
                nm = '_item%d' % k[0]
                unpack = ast.Assign(targets=[n.target], value=ast.Name(id=nm, ctx=ast.Load()), lineno=n.lineno, col_offset=n.col_offset)
                n.target = ast.Name(id=nm, ctx=ast.Store())
                n.body = [unpack] + n.body
    elif how == 'TUPJOIN':
        def join(block):
            out = []
            i = 0
            while i < len(block):
                a = block[i]
                b = block[i + 1] if i + 1 < len(block) else None
                simple = lambda s_: isinstance(s_, ast.Assign) and len(s_.targets) == 1 and isinstance(s_.targets[0], ast.Name)
                if b is not None and simple(a) and simple(b) and a.targets[0].id != b.targets[0].id \
                        and not any(isinstance(x, ast.Name) and x.id == a.targets[0].id for x in ast.walk(b.value)) and pure(a.value) and pure(b.value):
                    count[0] += 1
                    out.append(ast.Assign(targets=[ast.Tuple(elts=[a.targets[0], b.targets[0]], ctx=ast.Store())],
                                          value=ast.Tuple(elts=[a.value, b.value], ctx=ast.Load()), lineno=a.lineno, col_offset=a.col_offset))
                    i += 2
                    continue
                out.append(a)
                i += 1
            return out
        for n in ast.walk(tree):
            for f in ('body', 'orelse', 'finalbody'):
                b = getattr(n, f, None)
                if isinstance(b, list) and b and isinstance(b[0], ast.stmt):
                    setattr(n, f, join(b))
    elif how == 'ANDSPLIT':
        class AS(ast.NodeTransformer):
            def visit_If(self, st):
                self.generic_visit(st)
                if not st.orelse and isinstance(st.test, ast.BoolOp) and isinstance(st.test.op, ast.And) and len(st.test.values) == 2:
                    count[0] += 1
                    inner = ast.If(test=st.test.values[1], body=st.body, orelse=[], lineno=st.lineno, col_offset=st.col_offset)
                    return ast.If(test=st.test.values[0], body=[inner], orelse=[], lineno=st.lineno, col_offset=st.col_offset)
                return st
        tree = AS().visit(tree)
    elif how == 'AUGSPLIT':
        # x op= e -> x = x op e   for locals that hold python numbers (initialised from a numeric literal in the same function: immutable,
        # so the augmented form rebinds as well)
        for fn in [n for n in ast.walk(tree) if isinstance(n, ast.FunctionDef)]:
            scal = set()
            multi = {}
            for n in ast.walk(fn):
                if isinstance(n, ast.Assign) and len(n.targets) == 1 and isinstance(n.targets[0], ast.Name):
                    multi.setdefault(n.targets[0].id, []).append(n.value)
            for nm, vals in multi.items():
                if all(isinstance(v, ast.Constant) and isinstance(v.value, (int, float)) and not isinstance(v.value, bool) for v in vals):
                    scal.add(nm)

            class A(ast.NodeTransformer):
                def visit_FunctionDef(self, node):
                    if node is fn:
                        self.generic_visit(node)
                    return node

                def visit_AugAssign(self, st):
                    if isinstance(st.target, ast.Name) and st.target.id in scal:
                        count[0] += 1
                        return ast.copy_location(ast.Assign(targets=[ast.Name(id=st.target.id, ctx=ast.Store())],
                                                            value=ast.BinOp(left=ast.Name(id=st.target.id, ctx=ast.Load()), op=st.op, right=st.value)), st)
                    return st
            A().visit(fn)
    elif how == 'ENUMIDX':
        # for x in S: (S a plain name / attribute, body does not assign it)  ->  for _i, x in enumerate(S):
        k = [0]
        for n in ast.walk(tree):
            if isinstance(n, ast.For) and isinstance(n.target, ast.Name) and isinstance(n.iter, (ast.Name, ast.Attribute)) and not n.orelse:
                k[0] += 1
                count[0] += 1
                n.target = ast.Tuple(elts=[ast.Name(id='_i%d' % k[0], ctx=ast.Store()), n.target], ctx=ast.Store())
                n.iter = ast.Call(func=ast.Name(id='enumerate', ctx=ast.Load()), args=[n.iter], keywords=[])
    elif how == 'ITEMSLOOP':
        # for k in D: .. D[k] ..   ->   for k, _v in D.items(): .. _v ..     (D a plain name, not stored to / mutated in the loop, k not reassigned)
        kk = [0]
        for n in ast.walk(tree):
            if not (isinstance(n, ast.For) and isinstance(n.target, ast.Name) and isinstance(n.iter, ast.Name) and not n.orelse):
                continue
            D, k_ = n.iter.id, n.target.id
            reads = [x for b in n.body for x in ast.walk(b) if isinstance(x, ast.Subscript) and isinstance(x.ctx, ast.Load)
                     and isinstance(x.value, ast.Name) and x.value.id == D and isinstance(x.slice, ast.Name) and x.slice.id == k_]
            unsafe = any((isinstance(x, ast.Name) and x.id in (D, k_) and isinstance(x.ctx, (ast.Store, ast.Del))) or
                         (isinstance(x, ast.Subscript) and isinstance(x.ctx, (ast.Store, ast.Del)) and U(x.value) == D) or
                         (isinstance(x, ast.Call) and isinstance(x.func, ast.Attribute) and U(x.func.value) == D) or
                         isinstance(x, (ast.Lambda, ast.FunctionDef))
                         for b in n.body for x in ast.walk(b))
            if not reads or unsafe:
                continue
            # only dict-like: the container must be read as D[k] somewhere - a list indexed by its own elements would not be; require that D is
            # built by a dict display / comprehension / dict() in the same function
            kk[0] += 1
            fn = n
            ok_dict = False
            for f_ in ast.walk(tree):
                if isinstance(f_, ast.FunctionDef) and any(x is n for x in ast.walk(f_)):
                    for a_ in ast.walk(f_):
                        if isinstance(a_, ast.Assign) and len(a_.targets) == 1 and U(a_.targets[0]) == D and \
                                (isinstance(a_.value, (ast.Dict, ast.DictComp)) or (isinstance(a_.value, ast.Call) and U(a_.value.func) in ('dict', 'defaultdict', 'OrderedDict'))):
                            ok_dict = True
            if not ok_dict:
                continue
            count[0] += 1
            v_ = '_v%d' % kk[0]
            for x in reads:
                x.__class__ = ast.Name
                x.id = v_
                x.ctx = ast.Load()
                for f in ('value', 'slice'):
                    if hasattr(x, f):
                        delattr(x, f)
            n.target = ast.Tuple(elts=[n.target, ast.Name(id=v_, ctx=ast.Store())], ctx=ast.Store())
            n.iter = ast.Call(func=ast.Attribute(value=n.iter, attr='items', ctx=ast.Load()), args=[], keywords=[])
    elif how == 'ANDJOIN':
        class AJ(ast.NodeTransformer):
            def visit_If(self, st):
                self.generic_visit(st)
                if not st.orelse and len(st.body) == 1 and isinstance(st.body[0], ast.If) and not st.body[0].orelse:
                    count[0] += 1
                    return ast.If(test=ast.BoolOp(op=ast.And(), values=[st.test, st.body[0].test]), body=st.body[0].body, orelse=[],
                                  lineno=st.lineno, col_offset=st.col_offset)
                return st
        tree = AJ().visit(tree)
    else:
        raise AnalysisError('unknown whole-tree rewrite %s' % how)
    SITES[how] = SITES.get(how, 0) + count[0]
    return tree


def apply(repo, m):
    """-> overlay dict or None when the anchor text is no longer present (stale)."""
    overlay = {}
    if isinstance(m['edits'], tuple) and m['edits'][0] == 'PATCH':
        with open(m['edits'][1], newline='') as f:
            return patch_overlay(repo, f.read())
    if m['edits'] == 'REFORMAT':
        # the whole tree re-emitted by ast.unparse: formatting, comments and line numbers change, behaviour does not
        import ast
        from ..srcmodel import MBI_FILES, MECH_FILES
        for rel in MBI_FILES + MECH_FILES:
            if repo.exists(rel):
                overlay[rel] = ast.unparse(ast.parse(repo.source(rel))) + '\n'
        return overlay
    if m['edits'] == 'RENAME':
        # every local variable (not a parameter, not shared with a nested scope) gets another name: behaviour does not change
        from ..srcmodel import MBI_FILES, MECH_FILES
        for rel in MBI_FILES + MECH_FILES:
            if repo.exists(rel):
                overlay[rel] = rename_locals(repo.source(rel))
        return overlay
    if m['edits'] in ('FLIPCMP', 'SWAPIF', 'RETTMP', 'COMPVARS', 'HOISTARG') + TREE2:
        from ..srcmodel import MBI_FILES, MECH_FILES
        for rel in MBI_FILES + MECH_FILES:
            if repo.exists(rel):
                overlay[rel] = transform_tree(repo.source(rel), m['edits'])
        return overlay
    for rel, old, new in m['edits']:
        src = overlay.get(rel) or repo.source(rel)
        if src.count(old) != 1:
            return None
        overlay[rel] = src.replace(old, new)
    for rel, src in overlay.items():
        try:
            compile(src, rel, 'exec')
        except SyntaxError as e:
            raise AnalysisError('mutant %s does not compile: %s' % (m['id'], e))
    return overlay


def base_keys(prop, root):
    from ..main import analyse
    try:
        ctx = analyse(prop, Repo(root))
        return {o.key() for o in ctx.violations()}
    except Exception:
        return set()


def evaluate(args):
    m, root, base = args
    from ..main import analyse
    repo = Repo(root)
    try:
        overlay = apply(repo, m)
    except AnalysisError as e:
        return (m['id'], 'broken', str(e))
    if overlay is None:
        return (m['id'], 'stale', '')
    known = load_known()
    try:
        ctx = analyse(m['prop'], repo.with_overlay(overlay))
    except AnalysisError as e:
        return (m['id'], 'analysis-error', str(e))
    except Exception as e:
        return (m['id'], 'analysis-error', 'internal %s: %s' % (type(e).__name__, e))
    # a variant is judged by what it adds to the verdict on the unmodified current tree
    new = [o for o in ctx.violations() if match_known(m['prop'], o, known, ctx.repo) is None and o.key() not in base]
    if m['kind'] == 'K':
        want = m.get('rule')
        hit = [o for o in new if want is None or o.rule == want or o.rule in (want if isinstance(want, (list, tuple)) else ())]
        if hit:
            return (m['id'], 'ok', '%s @ %s `%s`' % (hit[0].rule, hit[0].function, hit[0].construct[:60]))
        if new:
            return (m['id'], 'wrong-rule', '; '.join(sorted({o.rule for o in new})))
        return (m['id'], 'missed', '')
    if new:
        return (m['id'], 'false-alarm', '; '.join('%s@%s' % (o.rule, o.function) for o in new[:3]))
    return (m['id'], 'ok', '')


def run(prop=None, root=None, jobs=None, corpus=False):
    ms = load_mutants(prop)
    if corpus and prop is not None:
        ms = ms + corpus_variants(prop)
    jobs = jobs or min(16, max(1, len(ms)))
    bases = {p: base_keys(p, root) for p in sorted({m['prop'] for m in ms})}
    if len(ms) <= 2:
        res = [evaluate((m, root, bases[m['prop']])) for m in ms]
    else:
        with ProcessPoolExecutor(max_workers=jobs) as ex:
            res = list(ex.map(evaluate, [(m, root, bases[m['prop']]) for m in ms]))
    return ms, res


def validate(prop, ctx, out=print):
    ms, res = run(prop, ctx.repo.root, corpus=True)
    bad = [(m, r) for m, r in zip(ms, res) if r[1] not in ('ok', 'stale')]
    live = [r for r in res if r[1] == 'ok']
    stale = [r for r in res if r[1] == 'stale']
    ctx.counters['selfcheck_variants'] = len(ms)
    ctx.counters['selfcheck_ok'] = len(live)
    ctx.counters['selfcheck_stale'] = len(stale)
    ctx.note('self-validation: %d variants (%d kill / %d twin), %d behaved as required, %d stale'
             % (len(ms), sum(1 for m in ms if m['kind'] == 'K'), sum(1 for m in ms if m['kind'] == 'T'),
                len(live), len(stale)))
    for m, r in zip(ms, res):
        out('  selfcheck %-4s %s %-28s %-14s %s' % (m['prop'], m['kind'], m['id'], r[1], r[2][:90]))
    if bad:
        raise AnalysisError('self-validation failed for %s: %s'
                            % (prop, ', '.join('%s=%s' % (m['id'], r[1]) for m, r in bad)))


def main(argv, root=None):
    prop = argv[0] if argv else None
    ms, res = run(prop, root)
    bad = 0
    for m, r in zip(ms, res):
        flag = '' if r[1] in ('ok',) else '   <<<<<<'
        if r[1] not in ('ok', 'stale'):
            bad += 1
        print('%-4s %s %-30s %-14s %s%s' % (m['prop'], m['kind'], m['id'], r[1], r[2][:100], flag))
    print('%d variants, %d not as required' % (len(ms), bad))
    return 2 if bad else 0

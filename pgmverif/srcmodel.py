"""Source model: parse the repository, index scopes, resolve anchors.

The model is built from the *current* working tree on every run (or from an
in-memory overlay of it, used by the self-validation mutants).  A vanished
anchor is an AnalysisError (exit 2), never a silent pass.
"""
import ast
import os

REPO_ENV = 'PGMVERIF_REPO'
DEFAULT_REPO = '/repo'

MBI_FILES = [
    'src/mbi/__init__.py', 'src/mbi/callbacks.py', 'src/mbi/clique_vector.py',
    'src/mbi/dataset.py', 'src/mbi/domain.py', 'src/mbi/factor.py',
    'src/mbi/factor_graph.py', 'src/mbi/graphical_model.py', 'src/mbi/inference.py',
    'src/mbi/junction_tree.py', 'src/mbi/local_inference.py', 'src/mbi/mechanism.py',
    'src/mbi/mixture_inference.py', 'src/mbi/public_inference.py',
    'src/mbi/region_graph.py', 'src/mbi/torch_factor.py',
]
MECH_FILES = [
    'mechanisms/adaptive_grid.py', 'mechanisms/aim.py', 'mechanisms/cdp2adp.py',
    'mechanisms/gaussian+appgm.py', 'mechanisms/hdmm+appgm.py',
    'mechanisms/mechanism.py', 'mechanisms/mst.py', 'mechanisms/mwem+pgm.py',
]


class AnalysisError(Exception):
    """The analysis could not be carried out (anchor vanished, unsupported
    construct on a rule-relevant path, floor not met).  Never a violation."""


def clone(n):
    """structural copy of an AST (fields and positions only: parent links and other annotations are not followed)"""
    if isinstance(n, ast.AST):
        new = n.__class__()
        for f in n._fields:
            if hasattr(n, f):
                setattr(new, f, clone(getattr(n, f)))
        for a in ('lineno', 'col_offset', 'end_lineno', 'end_col_offset'):
            if hasattr(n, a):
                setattr(new, a, getattr(n, a))
        return new
    if isinstance(n, list):
        return [clone(x) for x in n]
    return n


def alpha_text(e):
    """compact text of an expression with every comprehension variable renamed canonically (_c0, _c1, ... in order of appearance):
    `[f(x) for x in S]` and `[f(y) for y in S]` have the same alpha_text"""
    e = clone(e)
    k = [0]

    def rename(comp):
        mapping = {}
        for g in comp.generators:
            for x in ast.walk(g.target):
                if isinstance(x, ast.Name) and x.id not in mapping:
                    mapping[x.id] = '_c%d' % k[0]
                    k[0] += 1
        for x in ast.walk(comp):
            if isinstance(x, ast.Name) and x.id in mapping:
                x.id = mapping[x.id]
    for n in ast.walk(e):
        if isinstance(n, (ast.ListComp, ast.SetComp, ast.GeneratorExp, ast.DictComp)):
            rename(n)
    return ast.unparse(e).replace(' ', '')


def alpha_of(text):
    return alpha_text(ast.parse(text, mode='eval').body)


def canon_compare(e):
    """one spelling per comparison: a literal goes to the right-hand side; otherwise `>` / `>=` are written as `<` / `<=`
    (a > b == b < a).  Applied to every single-operator Compare inside e; returns a copy."""
    flip = {ast.Lt: ast.Gt, ast.Gt: ast.Lt, ast.LtE: ast.GtE, ast.GtE: ast.LtE, ast.Eq: ast.Eq, ast.NotEq: ast.NotEq}

    class C(ast.NodeTransformer):
        def visit_Compare(self, n):
            self.generic_visit(n)
            if len(n.ops) != 1 or type(n.ops[0]) not in flip:
                return n
            l, r, op = n.left, n.comparators[0], type(n.ops[0])

            def lit(x):
                return isinstance(x, ast.Constant) or (isinstance(x, ast.UnaryOp) and isinstance(x.operand, ast.Constant))
            if lit(l) and not lit(r):
                n.left, n.comparators, n.ops = r, [l], [flip[op]()]
            elif not lit(r) and op in (ast.Gt, ast.GtE):
                n.left, n.comparators, n.ops = r, [l], [flip[op]()]
            return n
    return C().visit(clone(e))


def U(node):
    return ast.unparse(node)


def header(node):
    """One-line normalised text of a statement (header only for compound ones)."""
    if isinstance(node, (ast.For, ast.AsyncFor)):
        return 'for %s in %s:' % (U(node.target), U(node.iter))
    if isinstance(node, ast.While):
        return 'while %s:' % U(node.test)
    if isinstance(node, ast.If):
        return 'if %s:' % U(node.test)
    if isinstance(node, (ast.FunctionDef, ast.AsyncFunctionDef)):
        return 'def %s(%s):' % (node.name, U(node.args))
    if isinstance(node, ast.ClassDef):
        return 'class %s:' % node.name
    if isinstance(node, ast.Try):
        return 'try:'
    if isinstance(node, ast.With):
        return 'with %s:' % ', '.join(U(i) for i in node.items)
    if isinstance(node, ast.Return) and node.value is not None and len(U(node)) > 200:
        return U(node)[:200]
    try:
        return U(node)
    except Exception:  # pragma: no cover
        return type(node).__name__


def is_main_guard(node):
    return (isinstance(node, ast.If) and isinstance(node.test, ast.Compare)
            and isinstance(node.test.left, ast.Name) and node.test.left.id == '__name__')


def strip_docstring(body):
    if body and isinstance(body[0], ast.Expr) and isinstance(body[0].value, ast.Constant) \
            and isinstance(body[0].value.value, str):
        return body[1:]
    return body


class FuncInfo:
    def __init__(self, module, node, qualname, cls=None, parent=None):
        self.module = module
        self.rel = module.rel
        self.node = node
        self.qualname = qualname
        self.name = node.name
        self.cls = cls
        self.parent = parent

    @property
    def body(self):
        return strip_docstring(self.node.body)

    @property
    def params(self):
        a = self.node.args
        return [x.arg for x in a.posonlyargs + a.args]

    def defaults(self):
        """param name -> default expr (positional and kw-only)."""
        a = self.node.args
        pos = a.posonlyargs + a.args
        out = {}
        for p, d in zip(pos[len(pos) - len(a.defaults):], a.defaults):
            out[p.arg] = d
        for p, d in zip(a.kwonlyargs, a.kw_defaults):
            if d is not None:
                out[p.arg] = d
        return out

    def is_static(self):
        return any(isinstance(d, ast.Name) and d.id in ('staticmethod', 'classmethod')
                   for d in self.node.decorator_list)

    def is_property(self):
        return any(isinstance(d, ast.Name) and d.id == 'property' for d in self.node.decorator_list)

    def __repr__(self):
        return '<%s:%s>' % (self.rel, self.qualname)


class Module:
    def __init__(self, rel, source):
        self.rel = rel
        self.source = source
        try:
            self.tree = ast.parse(source, filename=rel)
        except SyntaxError as e:
            raise AnalysisError('%s does not parse: %s' % (rel, e))
        self.funcs = {}
        self.classes = {}
        self.imports = {}       # local name -> dotted origin
        self._index(self.tree.body, '', None, None)
        # parent links
        for n in ast.walk(self.tree):
            for ch in ast.iter_child_nodes(n):
                ch._parent = n

    def _index(self, body, prefix, cls, parent):
        for n in body:
            if is_main_guard(n):
                continue
            if isinstance(n, (ast.FunctionDef, ast.AsyncFunctionDef)):
                q = prefix + n.name
                fi = FuncInfo(self, n, q, cls, parent)
                self.funcs[q] = fi
                self._index(n.body, q + '.<locals>.', None, fi)
            elif isinstance(n, ast.ClassDef):
                self.classes[prefix + n.name] = n
                self._index(n.body, prefix + n.name + '.', n, parent)
            elif isinstance(n, ast.Import):
                for a in n.names:
                    self.imports[a.asname or a.name.split('.')[0]] = a.name if a.asname else a.name.split('.')[0]
            elif isinstance(n, ast.ImportFrom):
                for a in n.names:
                    self.imports[a.asname or a.name] = (n.module or '') + '.' + a.name
            elif isinstance(n, (ast.If, ast.Try, ast.For, ast.While, ast.With)):
                for fld in ('body', 'orelse', 'finalbody'):
                    self._index(getattr(n, fld, []) or [], prefix, cls, parent)
                for h in getattr(n, 'handlers', []) or []:
                    self._index(h.body, prefix, cls, parent)

    def toplevel(self):
        return [n for n in self.tree.body if not is_main_guard(n)]

    def origin(self, name):
        """dotted origin of a locally visible name ('np' -> 'numpy')."""
        return self.imports.get(name)

    def dotted(self, expr):
        """Resolve `np.random.normal` -> 'numpy.random.normal' where possible."""
        parts = []
        e = expr
        while isinstance(e, ast.Attribute):
            parts.append(e.attr)
            e = e.value
        if not isinstance(e, ast.Name):
            return None
        base = self.imports.get(e.id, e.id)
        return '.'.join([base] + parts[::-1])


class Repo:
    def __init__(self, root=None, overlay=None):
        self.root = root or os.environ.get(REPO_ENV, DEFAULT_REPO)
        self.overlay = dict(overlay or {})
        self._mods = {}

    def exists(self, rel):
        return rel in self.overlay or os.path.isfile(os.path.join(self.root, rel))

    def source(self, rel):
        if rel in self.overlay:
            return self.overlay[rel]
        p = os.path.join(self.root, rel)
        if not os.path.isfile(p):
            raise AnalysisError('anchor file vanished: %s' % rel)
        with open(p, newline='') as f:
            return f.read().replace('\r\n', '\n')

    def module(self, rel):
        if rel not in self._mods:
            self._mods[rel] = Module(rel, self.source(rel))
        return self._mods[rel]

    def func(self, rel, qualname):
        m = self.module(rel)
        if qualname not in m.funcs:
            raise AnalysisError('anchor function vanished: %s:%s' % (rel, qualname))
        return m.funcs[qualname]

    def has_func(self, rel, qualname):
        return self.exists(rel) and qualname in self.module(rel).funcs

    def cls(self, rel, name):
        m = self.module(rel)
        if name not in m.classes:
            raise AnalysisError('anchor class vanished: %s:%s' % (rel, name))
        return m.classes[name]

    def methods(self, rel, clsname):
        m = self.module(rel)
        self.cls(rel, clsname)
        pre = clsname + '.'
        return {q[len(pre):]: f for q, f in m.funcs.items()
                if q.startswith(pre) and '.' not in q[len(pre):]}

    # ---- normalised views (new helpers inlined, spelling canonicalised); see normalise.py -----------------
    def nfunc(self, rel, qualname):
        from .normalise import normalised
        return normalised(self, self.func(rel, qualname))

    def nmethods(self, rel, clsname):
        """established methods of a class, each in normalised form (helpers added later are inlined at their call sites)"""
        from .normalise import normalised, is_established
        out = {}
        for name, fi in self.methods(rel, clsname).items():
            if is_established(rel, fi.qualname):
                out[name] = normalised(self, fi)
        return out

    def with_overlay(self, overlay):
        ov = dict(self.overlay)
        ov.update(overlay)
        return Repo(self.root, ov)


# ---------------------------------------------------------------- utilities

def calls_in(node):
    for n in ast.walk(node):
        if isinstance(n, ast.Call):
            yield n


def call_name(call):
    """'a.b.c' text of the callee, or None."""
    try:
        return U(call.func)
    except Exception:
        return None


def attr_chain(e):
    """Name/Attribute chain as list of names, else None:  self.model.total -> ['self','model','total']"""
    parts = []
    while isinstance(e, ast.Attribute):
        parts.append(e.attr)
        e = e.value
    if isinstance(e, ast.Name):
        parts.append(e.id)
        return parts[::-1]
    return None


def target_names(t):
    if isinstance(t, ast.Name):
        return [t.id]
    if isinstance(t, (ast.Tuple, ast.List)):
        return [n for e in t.elts for n in target_names(e)]
    if isinstance(t, ast.Starred):
        return target_names(t.value)
    return []


def names_in(e):
    return {n.id for n in ast.walk(e) if isinstance(n, ast.Name)}


def kwarg(call, name, pos=None):
    for k in call.keywords:
        if k.arg == name:
            return k.value
    if pos is not None and len(call.args) > pos and not any(isinstance(a, ast.Starred) for a in call.args[:pos + 1]):
        return call.args[pos]
    return None


def stmt_of(node):
    """Enclosing statement of an expression node (needs Module parent links)."""
    n = node
    while not isinstance(n, ast.stmt):
        n = getattr(n, '_parent', None)
        if n is None:
            return None
    return n


def enclosing(node, kinds):
    n = getattr(node, '_parent', None)
    while n is not None and not isinstance(n, kinds):
        n = getattr(n, '_parent', None)
    return n


def walk_shallow(node):
    """ast.walk that does not descend into nested function / class definitions or lambdas."""
    todo = list(ast.iter_child_nodes(node))
    yield node
    while todo:
        n = todo.pop()
        yield n
        if isinstance(n, (ast.FunctionDef, ast.AsyncFunctionDef, ast.ClassDef, ast.Lambda)):
            continue
        todo.extend(ast.iter_child_nodes(n))

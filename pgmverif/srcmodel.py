"""Source model: parse the repository, index scopes, resolve anchors.

The model is built from the *current* working tree on every run (or from an
in-memory overlay of it, used by the self-validation mutants).  A vanished
anchor is an AnalysisError (exit 2), never a silent pass.
"""
import ast
import os

REPO_ENV = 'PGMVERIF_REPO'
DEFAULT_REPO = '/repo'

MBI_FILES = [
    'src/mbi/__init__.py', 'src/mbi/callbacks.py', 'src/mbi/clique_vector.py',
    'src/mbi/dataset.py', 'src/mbi/domain.py', 'src/mbi/factor.py',
    'src/mbi/factor_graph.py', 'src/mbi/graphical_model.py', 'src/mbi/inference.py',
    'src/mbi/junction_tree.py', 'src/mbi/local_inference.py', 'src/mbi/mechanism.py',
    'src/mbi/mixture_inference.py', 'src/mbi/public_inference.py',
    'src/mbi/region_graph.py', 'src/mbi/torch_factor.py',
]
MECH_FILES = [
    'mechanisms/adaptive_grid.py', 'mechanisms/aim.py', 'mechanisms/cdp2adp.py',
    'mechanisms/gaussian+appgm.py', 'mechanisms/hdmm+appgm.py',
    'mechanisms/mechanism.py', 'mechanisms/mst.py', 'mechanisms/mwem+pgm.py',
]


class AnalysisError(Exception):
    """The analysis could not be carried out (anchor vanished, unsupported
    construct on a rule-relevant path, floor not met).  Never a violation."""


def clone(n):
    """structural copy of an AST (fields and positions only: parent links and other annotations are not followed)"""
    if isinstance(n, ast.AST):
        new = n.__class__()
        for f in n._fields:
            if hasattr(n, f):
                setattr(new, f, clone(getattr(n, f)))
        for a in ('lineno', 'col_offset', 'end_lineno', 'end_col_offset'):
            if hasattr(n, a):
                setattr(new, a, getattr(n, a))
        return new
    if isinstance(n, list):
        return [clone(x) for x in n]
    return n


def alpha_text(e):
    """compact text of an expression with every comprehension variable renamed canonically (_c0, _c1, ... in order of appearance):
    `[f(x) for x in S]` and `[f(y) for y in S]` have the same alpha_text"""
    e = clone(e)
    k = [0]

    def rename(comp):
        mapping = {}
        for g in comp.generators:
            for x in ast.walk(g.target):
                if isinstance(x, ast.Name) and x.id not in mapping:
                    mapping[x.id] = '_c%d' % k[0]
                    k[0] += 1
        for x in ast.walk(comp):
            if isinstance(x, ast.Name) and x.id in mapping:
                x.id = mapping[x.id]
    for n in ast.walk(e):
        if isinstance(n, (ast.ListComp, ast.SetComp, ast.GeneratorExp, ast.DictComp)):
            rename(n)
    return ast.unparse(e).replace(' ', '')


def alpha_of(text):
    return alpha_text(ast.parse(text, mode='eval').body)


def canon_compare(e):
    """one spelling per comparison: a literal goes to the right-hand side; otherwise `>` / `>=` are written as `<` / `<=`
    (a > b == b < a).  Applied to every single-operator Compare inside e; returns a copy."""
    flip = {ast.Lt: ast.Gt, ast.Gt: ast.Lt, ast.LtE: ast.GtE, ast.GtE: ast.LtE, ast.Eq: ast.Eq, ast.NotEq: ast.NotEq}

    class C(ast.NodeTransformer):
        def visit_Compare(self, n):
            self.generic_visit(n)
            if len(n.ops) != 1 or type(n.ops[0]) not in flip:
                return n
            l, r, op = n.left, n.comparators[0], type(n.ops[0])

            def lit(x):
                return isinstance(x, ast.Constant) or (isinstance(x, ast.UnaryOp) and isinstance(x.operand, ast.Constant))
            if lit(l) and not lit(r):
                n.left, n.comparators, n.ops = r, [l], [flip[op]()]
            elif not lit(r) and op in (ast.Gt, ast.GtE):
                n.left, n.comparators, n.ops = r, [l], [flip[op]()]
            return n
    return C().visit(clone(e))


def U(node):
    return ast.unparse(node)


def header(node):
    """One-line normalised text of a statement (header only for compound ones)."""
    if isinstance(node, (ast.For, ast.AsyncFor)):
        return 'for %s in %s:' % (U(node.target), U(node.iter))
    if isinstance(node, ast.While):
        return 'while %s:' % U(node.test)
    if isinstance(node, ast.If):
        return 'if %s:' % U(node.test)
    if isinstance(node, (ast.FunctionDef, ast.AsyncFunctionDef)):
        return 'def %s(%s):' % (node.name, U(node.args))
    if isinstance(node, ast.ClassDef):
        return 'class %s:' % node.name
    if isinstance(node, ast.Try):
        return 'try:'
    if isinstance(node, ast.With):
        return 'with %s:' % ', '.join(U(i) for i in node.items)
    if isinstance(node, ast.Return) and node.value is not None and len(U(node)) > 200:
        return U(node)[:200]
    try:
        return U(node)
    except Exception:  # pragma: no cover
        return type(node).__name__


def is_main_guard(node):
    return (isinstance(node, ast.If) and isinstance(node.test, ast.Compare)
            and isinstance(node.test.left, ast.Name) and node.test.left.id == '__name__')


def strip_docstring(body):
    if body and isinstance(body[0], ast.Expr) and isinstance(body[0].value, ast.Constant) \
            and isinstance(body[0].value.value, str):
        return body[1:]
    return body


class FuncInfo:
    def __init__(self, module, node, qualname, cls=None, parent=None):
        self.module = module
        self.rel = module.rel
        self.node = node
        self.qualname = qualname
        self.name = node.name
        self.cls = cls
        self.parent = parent

    @property
    def body(self):
        return strip_docstring(self.node.body)

    @property
    def params(self):
        a = self.node.args
        return [x.arg for x in a.posonlyargs + a.args]

    def defaults(self):
        """param name -> default expr (positional and kw-only)."""
        a = self.node.args
        pos = a.posonlyargs + a.args
        out = {}
        for p, d in zip(pos[len(pos) - len(a.defaults):], a.defaults):
            out[p.arg] = d
        for p, d in zip(a.kwonlyargs, a.kw_defaults):
            if d is not None:
                out[p.arg] = d
        return out

    def is_static(self):
        return any(isinstance(d, ast.Name) and d.id in ('staticmethod', 'classmethod')
                   for d in self.node.decorator_list)

    def is_property(self):
        return any(isinstance(d, ast.Name) and d.id == 'property' for d in self.node.decorator_list)

    def __repr__(self):
        return '<%s:%s>' % (self.rel, self.qualname)


def canonical_spelling(tree):
    """One spelling for constructs that have several with the same meaning (applied to every module as it is parsed;
    positions are kept, so reports still point at the original line):
       import numpy [as X]          -> the module is known as `np`   (when `np` is not otherwise bound in the module)
       dict() / list() / tuple()    -> {} / [] / ()                  (builtins not rebound in the module)
       range(0, n) / range(0, n, 1) -> range(n)
       not (a in b) / not (a is b)  -> a not in b / a is not b
       reduce(lambda a, b: a + b, S, 0) / reduce(operator.add, S, 0)  -> sum(S)"""
    bound = {x.id for x in ast.walk(tree) if isinstance(x, ast.Name) and isinstance(x.ctx, (ast.Store, ast.Del))}
    bound |= {a.arg for x in ast.walk(tree) if isinstance(x, ast.arguments)
              for a in x.posonlyargs + x.args + x.kwonlyargs + [y for y in (x.vararg, x.kwarg) if y]}
    bound |= {x.name for x in ast.walk(tree) if isinstance(x, (ast.FunctionDef, ast.AsyncFunctionDef, ast.ClassDef))}
    imported = {}
    for x in ast.walk(tree):
        if isinstance(x, (ast.Import, ast.ImportFrom)):
            for a in x.names:
                imported.setdefault(a.asname or a.name.split('.')[0], []).append((x, a))
    # numpy under another name
    others = [nm for nm, lst in imported.items() if nm != 'np' and any(isinstance(x, ast.Import) and a.name == 'numpy' for x, a in lst)]
    if others and 'np' not in bound and 'np' not in imported and all(len(imported[nm]) == 1 and nm not in bound for nm in others):
        for nm in others:
            imported[nm][0][1].asname = 'np'
        for x in ast.walk(tree):
            if isinstance(x, ast.Name) and x.id in others:
                x.id = 'np'
    free = lambda nm: nm not in bound and nm not in imported
    for parent in list(ast.walk(tree)):
        for fld, val in ast.iter_fields(parent):
            items = val if isinstance(val, list) else [val]
            for i, x in enumerate(items):
                new = None
                if isinstance(x, ast.Call) and isinstance(x.func, ast.Name) and not x.keywords:
                    if not x.args and x.func.id in ('dict', 'list', 'tuple') and free(x.func.id):
                        new = {'dict': lambda: ast.Dict(keys=[], values=[]), 'list': lambda: ast.List(elts=[], ctx=ast.Load()),
                               'tuple': lambda: ast.Tuple(elts=[], ctx=ast.Load())}[x.func.id]()
                    elif x.func.id == 'range' and free('range') and len(x.args) in (2, 3) \
                            and isinstance(x.args[0], ast.Constant) and x.args[0].value == 0 and type(x.args[0].value) is int \
                            and (len(x.args) == 2 or (isinstance(x.args[2], ast.Constant) and x.args[2].value == 1
                                                      and type(x.args[2].value) is int)):
                        x.args = [x.args[1]]
                if isinstance(x, ast.Call) and U(x.func) in ('reduce', 'functools.reduce') and len(x.args) == 3 and not x.keywords \
                        and isinstance(x.args[2], ast.Constant) and x.args[2].value == 0 and type(x.args[2].value) in (int, float) and free('sum'):
                    # reduce(lambda a, b: a + b, S, 0) / reduce(operator.add, S, 0)  ==  sum(S)
                    f_ = x.args[0]
                    plus = U(f_) in ('operator.add', 'add') or (
                        isinstance(f_, ast.Lambda) and len(f_.args.args) == 2 and not f_.args.defaults and isinstance(f_.body, ast.BinOp)
                        and isinstance(f_.body.op, ast.Add) and [U(f_.body.left), U(f_.body.right)] == [a_.arg for a_ in f_.args.args])
                    if plus:
                        new = ast.Call(func=ast.Name(id='sum', ctx=ast.Load()), args=[x.args[1]], keywords=[])
                elif isinstance(x, ast.UnaryOp) and isinstance(x.op, ast.Not) and isinstance(x.operand, ast.Compare) \
                        and len(x.operand.ops) == 1 and isinstance(x.operand.ops[0], (ast.In, ast.Is)):
                    new = x.operand
                    new.ops = [ast.NotIn() if isinstance(new.ops[0], ast.In) else ast.IsNot()]
                if new is not None:
                    ast.copy_location(new, x)
                    if isinstance(val, list):
                        val[i] = new
                    else:
                        setattr(parent, fld, new)


_JUMPS = (ast.Return, ast.Raise, ast.Continue, ast.Break)
_COMPS = (ast.ListComp, ast.SetComp, ast.DictComp, ast.GeneratorExp)


def _stmt_blocks(n):
    for f in ('body', 'orelse', 'finalbody'):
        b = getattr(n, f, None)
        if isinstance(b, list) and b and isinstance(b[0], ast.stmt):
            yield n, f, b
    for h in getattr(n, 'handlers', None) or []:
        if h.body:
            yield h, 'body', h.body
    for c in getattr(n, 'cases', None) or []:
        if c.body:
            yield c, 'body', c.body


def _is_empty_container(v):
    if isinstance(v, ast.List) and not v.elts:
        return 'list'
    if isinstance(v, ast.Dict) and not v.keys:
        return 'dict'
    if isinstance(v, ast.Call) and isinstance(v.func, ast.Name) and v.func.id == 'set' and not v.args and not v.keywords:
        return 'set'
    return None


def _loop_as_comprehension(init, loop, fn_names):
    """`v = []` followed by `for ..: [for .. / if ..:] v.append(e)` -> the comprehension, or None.
    Conditions: the nest has no else clauses and one leaf statement; v is read nowhere in it but as the receiver; the loop
    variables are used nowhere else in the enclosing function (a comprehension does not leak them); no lambda captures them."""
    kind = _is_empty_container(init.value)
    if kind is None or len(init.targets) != 1 or not isinstance(init.targets[0], ast.Name):
        return None
    v = init.targets[0].id
    gens = []
    st = loop
    while True:
        if isinstance(st, ast.For) and not st.orelse and not getattr(st, 'type_comment', None):
            gens.append(ast.comprehension(target=st.target, iter=st.iter, ifs=[], is_async=0))
            body = st.body
        elif isinstance(st, ast.If) and not st.orelse and gens:
            gens[-1].ifs.append(st.test)
            body = st.body
        else:
            break
        if len(body) != 1:
            return None
        st = body[0]
    if not gens:
        return None
    leaf = st
    recv = lambda e: isinstance(e, ast.Name) and e.id == v
    if kind in ('list', 'set') and isinstance(leaf, ast.Expr) and isinstance(leaf.value, ast.Call) and isinstance(leaf.value.func, ast.Attribute) \
            and recv(leaf.value.func.value) and leaf.value.func.attr == ('append' if kind == 'list' else 'add') \
            and len(leaf.value.args) == 1 and not leaf.value.keywords and not isinstance(leaf.value.args[0], ast.Starred):
        parts = [leaf.value.args[0]]
        new = (ast.ListComp if kind == 'list' else ast.SetComp)(elt=parts[0], generators=gens)
    elif kind == 'dict' and isinstance(leaf, ast.Assign) and len(leaf.targets) == 1 and isinstance(leaf.targets[0], ast.Subscript) \
            and recv(leaf.targets[0].value):
        parts = [leaf.targets[0].slice, leaf.value]
        new = ast.DictComp(key=parts[0], value=parts[1], generators=gens)
    else:
        return None
    inner = [x for g in gens for e in [g.iter] + g.ifs for x in ast.walk(e)] + [x for p in parts for x in ast.walk(p)]
    if any(isinstance(x, ast.Name) and x.id == v for x in inner) or any(isinstance(x, (ast.Lambda, ast.Yield, ast.YieldFrom, ast.Await, ast.NamedExpr))
                                                                          for x in inner):
        return None
    tnames = set()
    for g in gens:
        for x in ast.walk(g.target):
            if isinstance(x, ast.Name):
                tnames.add(x.id)
            elif not isinstance(x, (ast.Tuple, ast.List, ast.Store, ast.Load)):
                return None
    if v in tnames:
        return None
    inside = {id(x) for x in ast.walk(loop)}
    if any(x.id in tnames and id(x) not in inside for x in fn_names):
        return None
    # the first iterable is evaluated outside the comprehension's scope: it must not read a loop variable of its own nest
    if any(isinstance(x, ast.Name) and x.id in tnames for x in ast.walk(gens[0].iter)):
        return None
    return ast.copy_location(new, init.value)


def _dotted_text(e):
    parts = []
    while isinstance(e, ast.Attribute):
        parts.append(e.attr)
        e = e.value
    return '.'.join([e.id] + parts[::-1]) if isinstance(e, ast.Name) else None


def _single_axis_reduction(loop):
    ax = loop.target.id
    it = loop.iter
    axes = None
    if isinstance(it, ast.Call) and isinstance(it.func, ast.Name) and it.func.id == 'sorted' and len(it.args) == 1 and len(it.keywords) == 1 \
            and it.keywords[0].arg == 'reverse' and isinstance(it.keywords[0].value, ast.Constant) and it.keywords[0].value.value is True:
        axes = it.args[0]
    elif isinstance(it, ast.Call) and isinstance(it.func, ast.Name) and it.func.id == 'reversed' and len(it.args) == 1 \
            and isinstance(it.args[0], ast.Call) and isinstance(it.args[0].func, ast.Name) and it.args[0].func.id == 'sorted' \
            and len(it.args[0].args) == 1 and not it.args[0].keywords:
        axes = it.args[0].args[0]
    elif isinstance(it, ast.Subscript) and isinstance(it.value, ast.Call) and isinstance(it.value.func, ast.Name) and it.value.func.id == 'sorted' \
            and len(it.value.args) == 1 and not it.value.keywords and U(it.slice).replace(' ', '') == '::-1':
        axes = it.value.args[0]
    if axes is None:
        return None
    st = loop.body[0]
    if not (isinstance(st, ast.Assign) and len(st.targets) == 1 and isinstance(st.targets[0], ast.Name) and isinstance(st.value, ast.Call)):
        return None
    v, c = st.targets[0].id, st.value
    REDS = ('max', 'min', 'sum', 'prod', 'amax', 'amin')
    kw = {k.arg: k.value for k in c.keywords}
    if set(kw) != {'axis'} or not (isinstance(kw['axis'], ast.Name) and kw['axis'].id == ax):
        return None
    if isinstance(c.func, ast.Attribute) and c.func.attr in REDS and isinstance(c.func.value, ast.Name) and c.func.value.id == v and not c.args:
        pass
    elif isinstance(c.func, ast.Attribute) and c.func.attr in REDS and U(c.func.value) in ('np', 'numpy') and len(c.args) == 1 \
            and isinstance(c.args[0], ast.Name) and c.args[0].id == v:
        pass
    else:
        return None
    if any(isinstance(x, ast.Name) and x.id == ax for x in ast.walk(axes)):
        return None
    new_call = ast.Call(func=c.func, args=c.args, keywords=[ast.keyword(arg='axis', value=axes)])
    return ast.copy_location(ast.Assign(targets=[ast.Name(id=v, ctx=ast.Store())], value=new_call), loop)


def canonical_blocks(tree):
    """One shape for statement sequences that have several with the same meaning:
       if c: ..jump  else: REST              -> if c: ..jump ; REST            (jump = return / raise / continue / break)
       while True: if c: break ; S           -> while not c: S                 (no else clause)
       v = [] ; for x in it: v.append(e)     -> v = [e for x in it]            (also {} with v[k] = e, set() with v.add(e);
                                                                                nested for / if without else; see _loop_as_comprehension)
       with np.errstate(..): S               -> S                              (warning settings change no value)
       a, b = x, y                           -> a = x; b = y                   (plain names, no right-hand side reads a target)
       c = E; if c: S                        -> if E: S                        (c read nowhere else)
       for m in S: (a, b) = m; R             -> for (a, b) in S: R             (m read nowhere else)
       f = lambda a: e                       -> def f(a): return e             (inside functions)"""
    def scope_names(fn):
        return [x for x in ast.walk(fn) if isinstance(x, ast.Name)]

    fn_scalars_of = {}

    def scalars(fn):
        """locals all of whose definitions are numeric literals or `x = x op e` / `x op= e` updates of themselves"""
        defs = {}
        for n in ast.walk(fn):
            if isinstance(n, ast.Assign):
                for t in n.targets:
                    for x in ast.walk(t):
                        if isinstance(x, ast.Name):
                            defs.setdefault(x.id, []).append(n.value if (len(n.targets) == 1 and t is x) else None)
            elif isinstance(n, (ast.For, ast.comprehension)):
                for x in ast.walk(n.target):
                    if isinstance(x, ast.Name):
                        defs.setdefault(x.id, []).append(None)
            elif isinstance(n, (ast.With, ast.ExceptHandler, ast.NamedExpr)):
                for x in ast.walk(n):
                    if isinstance(x, ast.Name) and isinstance(x.ctx, ast.Store):
                        defs.setdefault(x.id, []).append(None)
        params = {a.arg for a in fn.args.posonlyargs + fn.args.args + fn.args.kwonlyargs}
        out = set()
        for nm, vals in defs.items():
            if nm in params or any(v is None for v in vals):
                continue
            lits = [v for v in vals if isinstance(v, ast.Constant) and isinstance(v.value, (int, float)) and not isinstance(v.value, bool)]
            selfs = [v for v in vals if isinstance(v, ast.BinOp) and isinstance(v.left, ast.Name) and v.left.id == nm]
            if lits and len(lits) + len(selfs) == len(vals):
                out.add(nm)
        return out

    fn_scalars = set()

    def rewrite(block, fn_names):
        out = []
        i = 0
        while i < len(block):
            st = block[i]
            if isinstance(st, ast.With) and all(it.optional_vars is None and isinstance(it.context_expr, ast.Call)
                                                and _dotted_text(it.context_expr.func) in ('np.errstate', 'numpy.errstate')
                                                and not it.context_expr.args
                                                and all(isinstance(k.value, ast.Constant) and k.value.value in ('ignore', 'warn')
                                                        for k in it.context_expr.keywords)
                                                for it in st.items):
                # floating-point warning settings do not change any value: the block is read as its body
                block = block[:i] + st.body + block[i + 1:]
                continue
            if isinstance(st, ast.If) and st.body and isinstance(st.body[-1], _JUMPS) and st.orelse:
                rest = st.orelse
                st.orelse = []
                block = block[:i + 1] + rest + block[i + 1:]
            if isinstance(st, ast.While) and not st.orelse and isinstance(st.test, ast.Constant) and st.test.value is True and st.body \
                    and isinstance(st.body[0], ast.If) and not st.body[0].orelse and len(st.body[0].body) == 1 \
                    and isinstance(st.body[0].body[0], ast.Break) and len(st.body) > 1:
                t = st.body[0].test
                st.test = ast.copy_location(t.operand if isinstance(t, ast.UnaryOp) and isinstance(t.op, ast.Not)
                                            else ast.UnaryOp(op=ast.Not(), operand=t), t)
                st.body = st.body[1:]
            # f = lambda a: e  ->  def f(a): return e
            if isinstance(st, ast.Assign) and len(st.targets) == 1 and isinstance(st.targets[0], ast.Name) and isinstance(st.value, ast.Lambda) \
                    and fn_names is not None:
                fd = ast.FunctionDef(name=st.targets[0].id, args=st.value.args, body=[ast.copy_location(ast.Return(value=st.value.body), st.value)],
                                     decorator_list=[], returns=None, type_comment=None)
                if hasattr(ast, 'TypeAlias') or True:
                    try:
                        fd.type_params = []
                    except Exception:
                        pass
                block[i] = st = ast.copy_location(fd, st)
                ast.fix_missing_locations(st)
            # a, b = x, y  ->  a = x; b = y     (plain names; no right-hand side reads a target)
            if isinstance(st, ast.Assign) and len(st.targets) == 1 and isinstance(st.targets[0], ast.Tuple) and isinstance(st.value, ast.Tuple) \
                    and len(st.targets[0].elts) == len(st.value.elts) and all(isinstance(t_, ast.Name) for t_ in st.targets[0].elts) \
                    and not any(isinstance(v_, ast.Starred) for v_ in st.value.elts):
                tn = [t_.id for t_ in st.targets[0].elts]
                if len(set(tn)) == len(tn) and not any(isinstance(x, ast.Name) and x.id in tn for v_ in st.value.elts for x in ast.walk(v_)):
                    parts = [ast.copy_location(ast.Assign(targets=[t_], value=v_), st) for t_, v_ in zip(st.targets[0].elts, st.value.elts)]
                    block = block[:i] + parts + block[i + 1:]
                    continue
            # a, b = f(..)[:2]   ->   a = f(..)[0]; b = f(..)[1]      (a leading slice of a call's result taken apart; as many targets as the slice is long)
            if isinstance(st, ast.Assign) and len(st.targets) == 1 and isinstance(st.targets[0], ast.Tuple) and isinstance(st.value, ast.Subscript) \
                    and isinstance(st.value.value, ast.Call) and isinstance(st.value.slice, ast.Slice) and st.value.slice.lower is None and st.value.slice.step is None \
                    and isinstance(st.value.slice.upper, ast.Constant) and st.value.slice.upper.value == len(st.targets[0].elts) \
                    and all(isinstance(t_, ast.Name) for t_ in st.targets[0].elts):
                import copy as _copy
                parts = []
                for k_, t_ in enumerate(st.targets[0].elts):
                    parts.append(ast.copy_location(ast.Assign(targets=[t_], value=ast.Subscript(value=_copy.deepcopy(st.value.value), slice=ast.Constant(value=k_), ctx=ast.Load())), st))
                for p_ in parts:
                    ast.fix_missing_locations(p_)
                block = block[:i] + parts + block[i + 1:]
                continue
            # c = E; if c: ..   ->  if E: ..      (c read nowhere else in the function)
            if isinstance(st, ast.Assign) and len(st.targets) == 1 and isinstance(st.targets[0], ast.Name) and i + 1 < len(block) \
                    and isinstance(block[i + 1], ast.If) and isinstance(block[i + 1].test, ast.Name) and block[i + 1].test.id == st.targets[0].id \
                    and fn_names is not None and isinstance(st.value, (ast.Call, ast.BoolOp, ast.Compare, ast.UnaryOp)):
                nm = st.targets[0].id
                if sum(1 for x in fn_names if x.id == nm) == 2:
                    block[i + 1].test = st.value
                    block = block[:i] + block[i + 1:]
                    continue
            # for i, x in enumerate(S): ..  ->  for x in S: ..           (i read nowhere in the function)
            if isinstance(st, ast.For) and isinstance(st.target, ast.Tuple) and len(st.target.elts) == 2 and isinstance(st.target.elts[0], ast.Name) \
                    and isinstance(st.iter, ast.Call) and isinstance(st.iter.func, ast.Name) and st.iter.func.id == 'enumerate' \
                    and len(st.iter.args) == 1 and not st.iter.keywords and fn_names is not None \
                    and sum(1 for x in fn_names if x.id == st.target.elts[0].id) == 1:
                st.target = st.target.elts[1]
                st.iter = st.iter.args[0]
            # for i in range(len(X)-a, b, -1): v = X[i]; ..   ->   for v in X[::-1][a-1:] (b == -1) / X[::-1][a-1:-(b+1)]: ..     (i read nowhere else)
            if isinstance(st, ast.For) and isinstance(st.target, ast.Name) and st.body and fn_names is not None and isinstance(st.iter, ast.Call) \
                    and isinstance(st.iter.func, ast.Name) and st.iter.func.id == 'range' and len(st.iter.args) == 3 and not st.iter.keywords:
                a0, a1, a2 = st.iter.args
                f0 = st.body[0]
                neg1 = isinstance(a2, ast.UnaryOp) and isinstance(a2.op, ast.USub) and isinstance(a2.operand, ast.Constant) and a2.operand.value == 1
                stop = -a1.operand.value if isinstance(a1, ast.UnaryOp) and isinstance(a1.op, ast.USub) and isinstance(a1.operand, ast.Constant) \
                    else (a1.value if isinstance(a1, ast.Constant) else None)
                if neg1 and isinstance(stop, int) and stop >= -1 and isinstance(a0, ast.BinOp) and isinstance(a0.op, ast.Sub) and isinstance(a0.right, ast.Constant) \
                        and isinstance(a0.right.value, int) and a0.right.value >= 1 and isinstance(a0.left, ast.Call) and isinstance(a0.left.func, ast.Name) \
                        and a0.left.func.id == 'len' and len(a0.left.args) == 1 and isinstance(a0.left.args[0], ast.Name) \
                        and isinstance(f0, ast.Assign) and len(f0.targets) == 1 and isinstance(f0.targets[0], ast.Name) and len(st.body) > 1 \
                        and isinstance(f0.value, ast.Subscript) and isinstance(f0.value.value, ast.Name) and f0.value.value.id == a0.left.args[0].id \
                        and isinstance(f0.value.slice, ast.Name) and f0.value.slice.id == st.target.id \
                        and sum(1 for x in fn_names if x.id == st.target.id) == 2:
                    X = a0.left.args[0].id
                    lo_ = a0.right.value - 1
                    txt = '%s[::-1][%s:%s]' % (X, lo_ if lo_ else '', '' if stop == -1 else -(stop + 1))
                    st.iter = ast.copy_location(ast.parse(txt, mode='eval').body, st.iter)
                    st.target = f0.targets[0]
                    st.body = st.body[1:]
                    ast.fix_missing_locations(st)
            # x = x op e  ->  x op= e      (x a local that only ever holds python numbers: immutable, both forms rebind)
            if isinstance(st, ast.Assign) and len(st.targets) == 1 and isinstance(st.targets[0], ast.Name) and isinstance(st.value, ast.BinOp) \
                    and isinstance(st.value.left, ast.Name) and st.value.left.id == st.targets[0].id and fn_scalars and st.targets[0].id in fn_scalars:
                block[i] = st = ast.copy_location(ast.AugAssign(target=ast.Name(id=st.targets[0].id, ctx=ast.Store()), op=st.value.op, value=st.value.right), st)
            # for m in S: (a, b) = m; ..   ->  for (a, b) in S: ..      (m read nowhere else in the function)
            if isinstance(st, ast.For) and isinstance(st.target, ast.Name) and st.body and fn_names is not None:
                f0 = st.body[0]
                if isinstance(f0, ast.Assign) and len(f0.targets) == 1 and isinstance(f0.targets[0], (ast.Tuple, ast.List)) \
                        and isinstance(f0.value, ast.Name) and f0.value.id == st.target.id and len(st.body) > 1 \
                        and all(isinstance(e_, ast.Name) for e_ in f0.targets[0].elts) \
                        and sum(1 for x in fn_names if x.id == st.target.id) == 2:
                    st.target = f0.targets[0]
                    st.body = st.body[1:]
            # for ax in sorted(AXES, reverse=True): v = v.max(axis=ax)   ->   v = v.max(axis=AXES)
            # (one axis at a time from the last to the first leaves the numbers of the remaining axes valid: the same reduction over all of them)
            if isinstance(st, ast.For) and isinstance(st.target, ast.Name) and not st.orelse and len(st.body) == 1:
                red = _single_axis_reduction(st)
                if red is not None:
                    block[i] = st = red
            if isinstance(st, ast.Assign) and i + 1 < len(block) and isinstance(block[i + 1], ast.For) and fn_names is not None:
                new = _loop_as_comprehension(st, block[i + 1], fn_names)
                if new is not None:
                    st.value = new
                    block = block[:i + 1] + block[i + 2:]
            out.append(st)
            i += 1
        return out

    def walk(n, fn_names):
        nonlocal fn_scalars
        saved = fn_scalars
        if isinstance(n, (ast.FunctionDef, ast.AsyncFunctionDef)):
            fn_names = scope_names(n)
            fn_scalars = scalars(n)
        for owner, f, b in list(_stmt_blocks(n)):
            nb = rewrite(b, fn_names)
            setattr(owner, f, nb)
            for st in nb:
                walk(st, fn_names)
        fn_scalars = saved
    walk(tree, None)


_TREE_CACHE = {}


class Module:
    def __init__(self, rel, source):
        self.rel = rel
        self.source = source
        # the parsed tree in its normal form, per source text (a process-wide cache of pickled trees: every property - and every variant of the
        # self-validation - parses the same two dozen files; each user gets objects of its own)
        import pickle
        key = (rel, hash(source), len(source))
        blob = _TREE_CACHE.get(key)
        if blob is not None:
            self.tree = pickle.loads(blob)
            self.funcs, self.classes, self.imports = {}, {}, {}
            self._index(self.tree.body, '', None, None)
        else:
            try:
                self.tree = ast.parse(source, filename=rel)
            except SyntaxError as e:
                raise AnalysisError('%s does not parse: %s' % (rel, e))
            canonical_spelling(self.tree)
            canonical_blocks(self.tree)
            self.funcs = {}
            self.classes = {}
            self.imports = {}       # local name -> dotted origin
            self._index(self.tree.body, '', None, None)
            self._positional_calls()
            try:
                _TREE_CACHE[key] = pickle.dumps(self.tree, protocol=pickle.HIGHEST_PROTOCOL)
            except Exception:
                pass
        # parent links
        for n in ast.walk(self.tree):
            for ch in ast.iter_child_nodes(n):
                ch._parent = n

    def _positional_calls(self):
        """f(a, eps=e) -> f(a, e) for callees defined in this module (module-level functions by name, methods through `self`): a keyword
        that names the next positional parameter is that positional argument.  Callees with *args / **kwargs / decorators are left."""
        def params(fi, skip_self):
            a = fi.node.args
            if a.vararg or a.kwarg or a.posonlyargs or fi.node.decorator_list:
                return None
            ps = [x.arg for x in a.args]
            return ps[1:] if skip_self and ps and ps[0] == 'self' else ps

        def visit(node, cls):
            for ch in ast.iter_child_nodes(node):
                visit(ch, node.name if isinstance(node, ast.ClassDef) else cls)
            if not isinstance(node, ast.Call) or not node.keywords or any(k.arg is None for k in node.keywords) \
                    or any(isinstance(a, ast.Starred) for a in node.args):
                return
            ps = None
            if isinstance(node.func, ast.Name) and node.func.id in self.funcs and self.funcs[node.func.id].cls is None:
                ps = params(self.funcs[node.func.id], False)
            elif isinstance(node.func, ast.Attribute) and isinstance(node.func.value, ast.Name) and node.func.value.id == 'self' and cls \
                    and ('%s.%s' % (cls, node.func.attr)) in self.funcs:
                ps = params(self.funcs['%s.%s' % (cls, node.func.attr)], True)
            if ps is None:
                return
            kw = {k.arg: k for k in node.keywords}
            while len(node.args) < len(ps) and ps[len(node.args)] in kw:
                k = kw.pop(ps[len(node.args)])
                node.args.append(k.value)
                node.keywords.remove(k)
        visit(self.tree, None)

    def _index(self, body, prefix, cls, parent):
        for n in body:
            if is_main_guard(n):
                continue
            if isinstance(n, (ast.FunctionDef, ast.AsyncFunctionDef)):
                q = prefix + n.name
                fi = FuncInfo(self, n, q, cls, parent)
                self.funcs[q] = fi
                self._index(n.body, q + '.<locals>.', None, fi)
            elif isinstance(n, ast.ClassDef):
                self.classes[prefix + n.name] = n
                self._index(n.body, prefix + n.name + '.', n, parent)
            elif isinstance(n, ast.Import):
                for a in n.names:
                    self.imports[a.asname or a.name.split('.')[0]] = a.name if a.asname else a.name.split('.')[0]
            elif isinstance(n, ast.ImportFrom):
                for a in n.names:
                    self.imports[a.asname or a.name] = (n.module or '') + '.' + a.name
            elif isinstance(n, (ast.If, ast.Try, ast.For, ast.While, ast.With)):
                for fld in ('body', 'orelse', 'finalbody'):
                    self._index(getattr(n, fld, []) or [], prefix, cls, parent)
                for h in getattr(n, 'handlers', []) or []:
                    self._index(h.body, prefix, cls, parent)

    def toplevel(self):
        return [n for n in self.tree.body if not is_main_guard(n)]

    def origin(self, name):
        """dotted origin of a locally visible name ('np' -> 'numpy')."""
        return self.imports.get(name)

    def dotted(self, expr):
        """Resolve `np.random.normal` -> 'numpy.random.normal' where possible."""
        parts = []
        e = expr
        while isinstance(e, ast.Attribute):
            parts.append(e.attr)
            e = e.value
        if not isinstance(e, ast.Name):
            return None
        base = self.imports.get(e.id, e.id)
        return '.'.join([base] + parts[::-1])


class Repo:
    def __init__(self, root=None, overlay=None):
        self.root = root or os.environ.get(REPO_ENV, DEFAULT_REPO)
        self.overlay = dict(overlay or {})
        self._mods = {}

    def exists(self, rel):
        return rel in self.overlay or os.path.isfile(os.path.join(self.root, rel))

    def source(self, rel):
        if rel in self.overlay:
            return self.overlay[rel]
        p = os.path.join(self.root, rel)
        if not os.path.isfile(p):
            raise AnalysisError('anchor file vanished: %s' % rel)
        with open(p, newline='') as f:
            return f.read().replace('\r\n', '\n')

    def module(self, rel):
        if rel not in self._mods:
            self._mods[rel] = Module(rel, self.source(rel))
        return self._mods[rel]

    def func(self, rel, qualname):
        m = self.module(rel)
        if qualname not in m.funcs:
            raise AnalysisError('anchor function vanished: %s:%s' % (rel, qualname))
        return m.funcs[qualname]

    def has_func(self, rel, qualname):
        return self.exists(rel) and qualname in self.module(rel).funcs

    def cls(self, rel, name):
        m = self.module(rel)
        if name not in m.classes:
            raise AnalysisError('anchor class vanished: %s:%s' % (rel, name))
        return m.classes[name]

    def methods(self, rel, clsname):
        m = self.module(rel)
        self.cls(rel, clsname)
        pre = clsname + '.'
        return {q[len(pre):]: f for q, f in m.funcs.items()
                if q.startswith(pre) and '.' not in q[len(pre):]}

    # ---- normalised views (new helpers inlined, spelling canonicalised); see normalise.py -----------------
    def nfunc(self, rel, qualname):
        from .normalise import normalised
        return normalised(self, self.func(rel, qualname))

    def nmethods(self, rel, clsname):
        """established methods of a class, each in normalised form (helpers added later are inlined at their call sites)"""
        from .normalise import normalised, is_established
        out = {}
        for name, fi in self.methods(rel, clsname).items():
            if is_established(rel, fi.qualname):
                out[name] = normalised(self, fi)
        return out

    def with_overlay(self, overlay):
        ov = dict(self.overlay)
        ov.update(overlay)
        return Repo(self.root, ov)


# ---------------------------------------------------------------- utilities

def calls_in(node):
    for n in ast.walk(node):
        if isinstance(n, ast.Call):
            yield n


def call_name(call):
    """'a.b.c' text of the callee, or None."""
    try:
        return U(call.func)
    except Exception:
        return None


def attr_chain(e):
    """Name/Attribute chain as list of names, else None:  self.model.total -> ['self','model','total']"""
    parts = []
    while isinstance(e, ast.Attribute):
        parts.append(e.attr)
        e = e.value
    if isinstance(e, ast.Name):
        parts.append(e.id)
        return parts[::-1]
    return None


def target_names(t):
    if isinstance(t, ast.Name):
        return [t.id]
    if isinstance(t, (ast.Tuple, ast.List)):
        return [n for e in t.elts for n in target_names(e)]
    if isinstance(t, ast.Starred):
        return target_names(t.value)
    return []


def names_in(e):
    return {n.id for n in ast.walk(e) if isinstance(n, ast.Name)}


def kwarg(call, name, pos=None):
    for k in call.keywords:
        if k.arg == name:
            return k.value
    if pos is not None and len(call.args) > pos and not any(isinstance(a, ast.Starred) for a in call.args[:pos + 1]):
        return call.args[pos]
    return None


def stmt_of(node):
    """Enclosing statement of an expression node (needs Module parent links)."""
    n = node
    while not isinstance(n, ast.stmt):
        n = getattr(n, '_parent', None)
        if n is None:
            return None
    return n


def enclosing(node, kinds):
    n = getattr(node, '_parent', None)
    while n is not None and not isinstance(n, kinds):
        n = getattr(n, '_parent', None)
    return n


def walk_shallow(node):
    """ast.walk that does not descend into nested function / class definitions or lambdas."""
    todo = list(ast.iter_child_nodes(node))
    yield node
    while todo:
        n = todo.pop()
        yield n
        if isinstance(n, (ast.FunctionDef, ast.AsyncFunctionDef, ast.ClassDef, ast.Lambda)):
            continue
        todo.extend(ast.iter_child_nodes(n))

"""Normal forms for scalar arithmetic: multivariate polynomials and rational functions over
`fractions.Fraction`, square-root values c*sqrt(r), and opaque atoms log(R) / exp(X) / user symbols
with structural differentiation.  Identity is decided by cross-multiplication (a normal-form
comparison, no search, no solver).  All symbols denote positive reals unless stated otherwise.
"""
import ast
from fractions import Fraction

from .srcmodel import AnalysisError, U


class Poly:
    __slots__ = ('t',)

    def __init__(self, t=None):
        self.t = {k: v for k, v in (t or {}).items() if v != 0}

    @staticmethod
    def const(c):
        return Poly({(): Fraction(c)})

    @staticmethod
    def sym(n):
        return Poly({((n, 1),): Fraction(1)})

    def __add__(self, o):
        t = dict(self.t)
        for k, v in o.t.items():
            t[k] = t.get(k, 0) + v
        return Poly(t)

    def __neg__(self):
        return Poly({k: -v for k, v in self.t.items()})

    def __sub__(self, o):
        return self + (-o)

    def __mul__(self, o):
        t = {}
        for k1, v1 in self.t.items():
            for k2, v2 in o.t.items():
                d = dict(k1)
                for n, e in k2:
                    d[n] = d.get(n, 0) + e
                k = tuple(sorted((n, e) for n, e in d.items() if e))
                t[k] = t.get(k, 0) + v1 * v2
        return Poly(t)

    def iszero(self):
        return not self.t

    def isconst(self):
        return all(k == () for k in self.t)

    def constval(self):
        return self.t.get((), Fraction(0))

    def symbols(self):
        return {n for k in self.t for n, e in k}

    def diff(self, var):
        t = {}
        for k, v in self.t.items():
            d = dict(k)
            if var in d:
                e = d[var]
                if e == 1:
                    del d[var]
                else:
                    d[var] = e - 1
                kk = tuple(sorted(d.items()))
                t[kk] = t.get(kk, 0) + v * e
        return Poly(t)

    def subs(self, var, poly_n, poly_d=None):
        """substitute var -> poly_n (polynomial only)"""
        out = Poly()
        for k, v in self.t.items():
            term = Poly.const(v)
            for n, e in k:
                base = poly_n if n == var else Poly.sym(n)
                for _ in range(e):
                    term = term * base
            out = out + term
        return out

    def all_coeffs_nonneg(self):
        return all(v >= 0 for v in self.t.values())

    def __repr__(self):
        if not self.t:
            return '0'
        parts = []
        for k, v in sorted(self.t.items()):
            m = '*'.join(n if e == 1 else '%s^%d' % (n, e) for n, e in k)
            c = str(v)
            parts.append(m if (c == '1' and m) else (c + ('*' + m if m else '')))
        return ' + '.join(parts)


ONE = Poly.const(1)


class Rat:
    __slots__ = ('n', 'd')

    def __init__(self, n, d=None):
        self.n = n
        self.d = d if d is not None else ONE
        if self.d.iszero():
            raise AnalysisError('division by an identically zero expression')
        # cheap normalisation: constant denominators fold into the numerator
        if self.d.isconst() and self.d.constval() != 1:
            c = self.d.constval()
            self.n = Poly({k: v / c for k, v in self.n.t.items()})
            self.d = ONE

    @staticmethod
    def const(c):
        return Rat(Poly.const(Fraction(c)))

    @staticmethod
    def sym(n):
        return Rat(Poly.sym(n))

    def __add__(self, o):
        if self.d.t == o.d.t:
            return Rat(self.n + o.n, self.d)
        return Rat(self.n * o.d + o.n * self.d, self.d * o.d)

    def __neg__(self):
        return Rat(-self.n, self.d)

    def __sub__(self, o):
        return self + (-o)

    def __mul__(self, o):
        return Rat(self.n * o.n, self.d * o.d)

    def __truediv__(self, o):
        if o.n.iszero():
            raise AnalysisError('division by an identically zero expression')
        return Rat(self.n * o.d, self.d * o.n)

    def __pow__(self, k):
        if k < 0:
            return (Rat.const(1) / self) ** (-k)
        out = Rat.const(1)
        for _ in range(k):
            out = out * self
        return out

    def eq(self, o):
        return (self.n * o.d - o.n * self.d).iszero()

    def iszero(self):
        return self.n.iszero()

    def isconst(self):
        return self.n.isconst() and self.d.isconst()

    def constval(self):
        return self.n.constval() / self.d.constval()

    def symbols(self):
        return self.n.symbols() | self.d.symbols()

    def diff(self, var, atoms=None):
        """d/dvar with chain rule through the atom registry (log / exp atoms)"""
        def dpoly(p):
            out = Rat(p.diff(var))
            if atoms is not None:
                for s in p.symbols():
                    a = atoms.by_symbol.get(s)
                    if a is not None and a.depends(var, atoms):
                        out = out + Rat(p.diff(s)) * a.derivative(var, atoms)
            return out
        dn, dd = dpoly(self.n), dpoly(self.d)
        return (dn * Rat(self.d) - Rat(self.n) * dd) / (Rat(self.d) * Rat(self.d))

    def sign_definite_nonneg(self):
        """sufficient test: all coefficients of numerator and denominator are >= 0 (symbols positive)"""
        return (self.n.all_coeffs_nonneg() and self.d.all_coeffs_nonneg()) or \
               ((-self.n).all_coeffs_nonneg() and (-self.d).all_coeffs_nonneg())

    def __repr__(self):
        if self.d.t == ONE.t:
            return '(%r)' % self.n
        return '(%r)/(%r)' % (self.n, self.d)


class Atom:
    def __init__(self, kind, arg, symbol):
        self.kind, self.arg, self.symbol = kind, arg, symbol

    def depends(self, var, atoms):
        if isinstance(self.arg, Rat):
            syms = self.arg.symbols()
            if var in syms:
                return True
            return any(atoms.by_symbol[s].depends(var, atoms) for s in syms if s in atoms.by_symbol)
        return False

    def derivative(self, var, atoms):
        me = Rat.sym(self.symbol)
        if self.kind == 'log':
            return self.arg.diff(var, atoms) / self.arg
        if self.kind == 'exp':
            return self.arg.diff(var, atoms) * me
        if self.kind == 'sqrt':
            return self.arg.diff(var, atoms) / (Rat.const(2) * me)
        raise AnalysisError('cannot differentiate atom %s' % self.kind)


class Atoms:
    """registry of opaque atoms, keyed by rational-function equality of their argument"""

    def __init__(self):
        self.items = []
        self.by_symbol = {}

    def get(self, kind, arg):
        if kind == 'log' and isinstance(arg, Rat):
            r = self._split_log(arg)
            if r is not None:
                return r
        if kind == 'exp' and isinstance(arg, Rat):
            r = self._pull_logs_out_of_exp(arg)
            if r is not None:
                return r
        return self._get(kind, arg)

    # log(c * m * p / (c' * m' * p')) = log c - log c' + sum e_k log x_k + log p - log p'   (m monomial content, p primitive part)
    def _split_log(self, arg):
        def parts(poly):
            if poly.iszero():
                return None
            keys = sorted(poly.t)
            mono = {}
            first = True
            for k in keys:
                d = dict(k)
                if first:
                    mono = dict(d)
                    first = False
                else:
                    mono = {n: min(e, d.get(n, 0)) for n, e in mono.items() if d.get(n, 0) > 0}
            lead = poly.t[keys[0]]
            prim = {}
            for k, v in poly.t.items():
                d = dict(k)
                for n, e in mono.items():
                    d[n] = d[n] - e
                prim[tuple(sorted((n, e) for n, e in d.items() if e))] = v / lead
            return lead, mono, Poly(prim)
        pn, pd = parts(arg.n), parts(arg.d)
        if pn is None or pd is None:
            return None
        (cn, mn, primn), (cd, md, primd) = pn, pd
        c = cn / cd
        if c <= 0:
            return None
        trivial = (not mn and not md and primd.isconst() and c == 1)
        if trivial:
            return None          # already a primitive polynomial: a plain atom
        out = Rat.const(0)
        if c != 1:
            out = out + self._get('log', Rat.const(c))
        for n in sorted(set(mn) | set(md)):
            e = mn.get(n, 0) - md.get(n, 0)
            if e:
                out = out + Rat.const(e) * self._get('log', Rat.sym(n))
        if not primn.isconst():
            out = out + self._get('log', Rat(primn))
        if not primd.isconst():
            out = out - self._get('log', Rat(primd))
        return out

    # exp(R0 + sum k_i log#i) = exp(R0) * prod arg_i^k_i   for integer constants k_i
    def _pull_logs_out_of_exp(self, arg):
        if not arg.d.isconst():
            return None
        rest = {}
        factor = Rat.const(1)
        found = False
        for k, v in arg.n.t.items():
            v = v / arg.d.constval()
            if len(k) == 1 and k[0][1] == 1 and k[0][0] in self.by_symbol and self.by_symbol[k[0][0]].kind == 'log' \
                    and v.denominator == 1:
                a = self.by_symbol[k[0][0]]
                factor = factor * (a.arg ** int(v))
                found = True
            else:
                rest[k] = v
        if not found:
            return None
        r0 = Rat(Poly(rest))
        if r0.iszero():
            return factor
        return factor * self._get('exp', r0)

    def _get(self, kind, arg):
        for a in self.items:
            if a.kind == kind and isinstance(a.arg, Rat) and isinstance(arg, Rat) and a.arg.eq(arg):
                return Rat.sym(a.symbol)
            if a.kind == kind and not isinstance(arg, Rat) and a.arg == arg:
                return Rat.sym(a.symbol)
        sym = '%s#%d' % (kind, len(self.items))
        a = Atom(kind, arg, sym)
        self.items.append(a)
        self.by_symbol[sym] = a
        return Rat.sym(sym)

    def describe(self, sym):
        a = self.by_symbol.get(sym)
        return '%s(%r)' % (a.kind, a.arg) if a else sym


class Alg:
    """finite sum of terms c_i * sqrt(r_i) with c_i, r_i rational functions (r == 1 for plain rationals).
    Symbols denote positive reals; equality of two single-term values is decided on their squares."""
    __slots__ = ('terms',)

    def __init__(self, c=None, r=None, terms=None):
        if terms is not None:
            self.terms = terms
        else:
            self.terms = [(c, r if r is not None else Rat.const(1))]
        self._merge()

    def _merge(self):
        out = []
        for c, r in self.terms:
            if c.iszero():
                continue
            for i, (c2, r2) in enumerate(out):
                if r.eq(r2):
                    out[i] = (c2 + c, r2)
                    break
            else:
                out.append((c, r))
        self.terms = [(c, r) for c, r in out if not c.iszero()]

    # --- single-term views ---------------------------------------------------------
    @property
    def c(self):
        if not self.terms:
            return Rat.const(0)
        if len(self.terms) != 1:
            raise AnalysisError('a sum of square-root terms has no single coefficient')
        return self.terms[0][0]

    @property
    def r(self):
        if not self.terms:
            return Rat.const(1)
        if len(self.terms) != 1:
            raise AnalysisError('a sum of square-root terms has no single radicand')
        return self.terms[0][1]

    def is_rat(self):
        return all(r.isconst() and r.constval() == 1 for c, r in self.terms)

    def single(self):
        return len(self.terms) <= 1

    def square(self):
        if not self.single():
            raise AnalysisError('square of a sum of different square roots is outside the dialect')
        return self.c * self.c * self.r

    def __mul__(self, o):
        out = []
        for c1, r1 in self.terms:
            for c2, r2 in o.terms:
                if not (r1.isconst() and r1.constval() == 1) and r1.eq(r2):
                    out.append((c1 * c2 * r1, Rat.const(1)))      # sqrt(r)*sqrt(r) = r
                else:
                    out.append((c1 * c2, r1 * r2))
        return Alg(terms=out)

    def __truediv__(self, o):
        if not o.single() or not o.terms:
            raise AnalysisError('division by a sum of square roots (or zero) is outside the dialect')
        c2, r2 = o.terms[0]
        out = []
        for c1, r1 in self.terms:
            if not (r1.isconst() and r1.constval() == 1) and r1.eq(r2):
                out.append((c1 / c2, Rat.const(1)))
            else:
                out.append((c1 / c2, r1 / r2))
        return Alg(terms=out)

    def __add__(self, o):
        return Alg(terms=list(self.terms) + list(o.terms))

    def __neg__(self):
        return Alg(terms=[(-c, r) for c, r in self.terms])

    def __sub__(self, o):
        return self + (-o)

    def sqrt(self):
        if self.is_rat() and self.single():
            return Alg(Rat.const(1), self.c)
        raise AnalysisError('nested square roots are outside the dialect')

    def pow(self, k):
        if not isinstance(k, int):
            raise AnalysisError('unsupported power %r' % (k,))
        if k < 0:
            return Alg(Rat.const(1)) / self.pow(-k)
        if self.is_rat() and self.single():
            return Alg(self.c ** k)
        if k == 0:
            return Alg(Rat.const(1))
        if self.single():
            if k % 2 == 0:
                return Alg(self.square() ** (k // 2))
            return Alg((self.square() ** (k // 2)) * self.c, self.r)
        out = self
        for _ in range(k - 1):
            out = out * self
        return out

    def eq(self, o):
        d = self - o
        if not d.terms:
            return True
        if self.single() and o.single() and self.terms and o.terms:
            return self.square().eq(o.square())     # positive values: compare squares
        # residual terms c*sqrt(r) of definite sign: +|c|sqrt(r) and -|c'|sqrt(r') cancel when c^2 r == c'^2 r'  (symbols are positive reals, so
        # sqrt(4 x^2) is 2 x although the two are kept under different radicands)
        pos, neg = [], []
        for c, r in d.terms:
            try:
                if c.sign_definite_nonneg():
                    pos.append(c * c * r)
                elif (Rat.const(0) - c).sign_definite_nonneg():
                    neg.append(c * c * r)
                else:
                    return False
            except Exception:
                return False
        if len(pos) != len(neg):
            return False
        for p_ in pos:
            for i, n_ in enumerate(neg):
                if p_.eq(n_):
                    del neg[i]
                    break
            else:
                return False
        return True

    def rat(self):
        if not self.is_rat():
            raise AnalysisError('value %r is not rational' % self)
        return self.c if self.terms else Rat.const(0)

    def __repr__(self):
        if not self.terms:
            return '0'
        return ' + '.join(repr(c) if (r.isconst() and r.constval() == 1) else '%r*sqrt%r' % (c, r) for c, r in self.terms)


def const(x):
    return Alg(Rat.const(Fraction(str(x)) if isinstance(x, float) else Fraction(x)))


def sym(n):
    return Alg(Rat.sym(n))


SQRT_FUNCS = {'np.sqrt', 'numpy.sqrt', 'math.sqrt', 'sqrt'}
LOG_FUNCS = {'np.log', 'numpy.log', 'math.log', 'log'}
LOG1P_FUNCS = {'np.log1p', 'numpy.log1p', 'math.log1p', 'log1p'}
EXP_FUNCS = {'np.exp', 'numpy.exp', 'math.exp', 'exp'}


class SymEval:
    """AST arithmetic -> Alg under an environment of Alg values.  Unknown names become fresh positive
    symbols (recorded in self.free).  `hooks(call) -> Alg|None` lets a rule give meaning to calls."""

    def __init__(self, env=None, atoms=None, hook=None, strict=False):
        self.env = dict(env or {})
        self.atoms = atoms or Atoms()
        self.hook = hook
        self.free = set()
        self.strict = strict
        self.ifexp = None

    def ev(self, e):
        if isinstance(e, ast.Constant):
            if isinstance(e.value, bool) or not isinstance(e.value, (int, float)):
                raise AnalysisError('non-numeric constant %r in arithmetic' % (e.value,))
            return const(e.value)
        if isinstance(e, ast.Name):
            if e.id in self.env:
                return self.env[e.id]
            if self.strict:
                raise AnalysisError('unbound name %s in symbolic evaluation' % e.id)
            self.free.add(e.id)
            return sym(e.id)
        if isinstance(e, ast.Attribute):
            t = U(e)
            if t in self.env:
                return self.env[t]
            if t in ('np.pi', 'math.pi', 'numpy.pi'):
                return sym('pi')
            self.free.add(t)
            return sym(t)
        if isinstance(e, ast.IfExp) and self.ifexp is not None:
            r = self.ifexp(e)
            if isinstance(r, Alg):
                return r
            raise AnalysisError('undecided conditional expression `%s`' % U(e)[:60])
        if isinstance(e, ast.UnaryOp):
            v = self.ev(e.operand)
            if isinstance(e.op, ast.USub):
                return -v
            if isinstance(e.op, ast.UAdd):
                return v
        if isinstance(e, ast.BinOp):
            if isinstance(e.op, ast.Pow):
                base = self.ev(e.left)
                k = e.right
                if isinstance(k, ast.UnaryOp) and isinstance(k.op, ast.USub) and isinstance(k.operand, ast.Constant):
                    kv = -k.operand.value
                elif isinstance(k, ast.Constant):
                    kv = k.value
                else:
                    # an exponent that folds to a constant under the current environment (e.g. 1.0/p with p = 2)
                    try:
                        kx = self.ev(k)
                    except AnalysisError:
                        kx = None
                    if kx is not None and kx.is_rat() and kx.rat().isconst():
                        kv = kx.rat().constval()
                        kv = int(kv) if kv.denominator == 1 else float(kv)
                    else:
                        raise AnalysisError('non-constant exponent in `%s`' % U(e))
                if kv == 0.5:
                    return base.sqrt()
                if kv == -0.5:
                    return const(1) / base.sqrt()
                if isinstance(kv, float) and kv == int(kv):
                    kv = int(kv)
                if isinstance(kv, int):
                    return base.pow(kv)
                raise AnalysisError('unsupported exponent in `%s`' % U(e))
            a, b = self.ev(e.left), self.ev(e.right)
            if isinstance(e.op, ast.Add):
                return a + b
            if isinstance(e.op, ast.Sub):
                return a - b
            if isinstance(e.op, ast.Mult):
                return a * b
            if isinstance(e.op, ast.Div):
                return a / b
        if isinstance(e, ast.Call):
            if self.hook is not None:
                r = self.hook(e, self)
                if r is not None:
                    return r
            f = U(e.func)
            if f in SQRT_FUNCS and len(e.args) == 1:
                return self.ev(e.args[0]).sqrt()
            if f in LOG_FUNCS and len(e.args) == 1:
                return Alg(self.atoms.get('log', self.rat(e.args[0])))
            if f in LOG1P_FUNCS and len(e.args) == 1:
                return Alg(self.atoms.get('log', Rat.const(1) + self.rat(e.args[0])))
            if f in EXP_FUNCS and len(e.args) == 1:
                return Alg(self.atoms.get('exp', self.rat(e.args[0])))
            if f in ('float', 'int') and len(e.args) == 1:
                return self.ev(e.args[0])
            if f in ('np.ceil', 'numpy.ceil', 'math.ceil', 'np.floor', 'numpy.floor', 'math.floor', 'round', 'np.round', 'np.rint') and len(e.args) == 1:
                # a value of its own: equal to the argument only when that is integral, which nothing here establishes
                v = self.ev(e.args[0])
                if v.is_rat() and v.rat().isconst():
                    import math
                    c = v.rat().constval()
                    k = f.split('.')[-1]
                    return const(math.ceil(c) if k == 'ceil' else math.floor(c) if k == 'floor' else round(c))
                return Alg(self.atoms.get(f.split('.')[-1], self.rat(e.args[0])))
            if f in ('min', 'max') and len(e.args) == 2:
                return Alg(self.atoms.get(f, (repr(self.ev(e.args[0])), repr(self.ev(e.args[1])))))
        raise AnalysisError('expression outside the scalar dialect: `%s`' % U(e)[:80])

    def rat(self, e):
        v = self.ev(e)
        if not v.is_rat():
            # a square root inside log/exp: make it an atom
            return self.atoms.get('sqrt', v.square())
        return v.rat()

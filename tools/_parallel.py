"""run `./check all --repo <scratch copy with one patch applied>` for many patches in parallel (scratch copies under /tmp, removed
straight afterwards; evidence files are not touched)"""
import os, re, shutil, subprocess, tempfile
from concurrent.futures import ThreadPoolExecutor
V = '/verif'


def run_patch(patch):
    d = tempfile.mkdtemp(prefix='mx_', dir='/tmp')
    try:
        subprocess.check_call(['rsync', '-a', '--exclude', '.git', '--exclude', '*.egg-info', '/repo/', d + '/'])
        r = subprocess.run(['patch', '-p1', '-s', '-d', d, '-i', patch], capture_output=True, text=True)
        if r.returncode != 0:
            return [], ['PATCH-FAILED ' + (r.stdout + r.stderr)[:200]]
        out = subprocess.run([V + '/check', 'all', '--tier', 'quick', '--repo', d], capture_output=True, text=True, cwd=V,
                             env=dict(os.environ, VERIF_NO_EVIDENCE='1'))
        viol, errors = [], []
        for line in out.stdout.splitlines():
            if re.match(r'^(\S+?):(\d+): \[(C\d+)/([^\]]+)\] in (\S+):', line):
                viol.append(line)
            if line.startswith('ANALYSIS-ERROR'):
                errors.append(line[:260])
        return viol, errors
    finally:
        shutil.rmtree(d, ignore_errors=True)


def run_all(patches, jobs=14):
    with ThreadPoolExecutor(jobs) as ex:
        return list(ex.map(run_patch, patches))

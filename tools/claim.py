#!/venv/bin/python
"""tools/claim.py <id> <technique> <text> <note> [design_ref]  - register a claimed check and regenerate MANIFEST.json"""
import json, sys, subprocess, os
H = os.path.dirname(os.path.dirname(os.path.abspath(__file__)))
c = json.load(open(H + '/claims.json'))
pid, tech, text, note = sys.argv[1:5]
c[pid] = {'text': text, 'note': note, 'technique': tech, 'design_ref': sys.argv[5] if len(sys.argv) > 5 else 'DESIGN.md section 4 (%s)' % pid}
json.dump(c, open(H + '/claims.json', 'w'), indent=1)
subprocess.check_call(['/venv/bin/python', H + '/gen_manifest.py'])

#!/venv/bin/python
"""Rewrites the block between <!-- SEED-MATRIX-BEGIN --> and <!-- SEED-MATRIX-END --> in DESIGN.md from seeded/*/meta.json."""
import json, glob, os, re
V = '/verif'
rows = []
for mp in sorted(glob.glob(V + '/seeded/*/meta.json'), key=lambda p: (os.path.basename(os.path.dirname(p)).split('-')[0], int(os.path.basename(os.path.dirname(p)).split('-')[1]))):
    m = json.load(open(mp))
    d = os.path.dirname(mp)
    patch = open(d + '/patch.diff').read()
    files = sorted(set(re.findall(r'^\+\+\+ b/(\S+)', patch, re.M)))
    summary = m.get('summary') or ''
    det = m.get('detected_by', {})
    by = '; '.join('%s: %s' % (p, ', '.join(sorted({r.split('@')[0] for r in v}))) for p, v in sorted(det.items())) or '**missed**'
    rows.append('| %s | %s | %s | %s | %s |' % (m['id'], m['property'], ', '.join(f.split('/')[-1] for f in files), summary.replace('|', '/'), by))
block = ['<!-- SEED-MATRIX-BEGIN -->', '| seed | property | file(s) | change | reported by (check: rules) |', '|---|---|---|---|---|'] + rows + \
        ['', '%d seeded changes, %d reported by at least one check.' % (len(rows), sum(1 for r in rows if '**missed**' not in r)), '<!-- SEED-MATRIX-END -->']
s = open(V + '/DESIGN.md').read()
s = re.sub(r'<!-- SEED-MATRIX-BEGIN -->.*?<!-- SEED-MATRIX-END -->', lambda _: '\n'.join(block), s, flags=re.S)
open(V + '/DESIGN.md', 'w').write(s)
print(len(rows), 'rows')

#!/venv/bin/python
"""Rewrites the block between <!-- SEED-MATRIX-BEGIN --> and <!-- SEED-MATRIX-END --> in DESIGN.md from seeded/*/meta.json."""
import json, glob, os, re
V = '/verif'
rows = []
for mp in sorted(glob.glob(V + '/seeded/*/meta.json'), key=lambda p: (os.path.basename(os.path.dirname(p)).split('-')[0], int(os.path.basename(os.path.dirname(p)).split('-')[1]))):
    m = json.load(open(mp))
    d = os.path.dirname(mp)
    patch = open(d + '/patch.diff').read()
    files = sorted(set(re.findall(r'^\+\+\+ b/(\S+)', patch, re.M)))
    summary = m.get('summary') or ''
    det = m.get('detected_by', {})
    by = '; '.join('%s: %s' % (p, ', '.join(sorted({r.split('@')[0] for r in v}))) for p, v in sorted(det.items()))
    if not by and m.get('analysis_errors'):
        by = '*undecided* (exit 2, ANALYSIS-ERROR): ' + '; '.join(sorted({e.split(' ', 2)[1] + ' ' + e.split(' ', 2)[2][:110] for e in m['analysis_errors']})).replace('|', '/')
    by = by or '**missed**'
    rows.append('| %s | %s | %s | %s | %s |' % (m['id'], m['property'], ', '.join(f.split('/')[-1] for f in files), summary.replace('|', '/'), by))
block = ['<!-- SEED-MATRIX-BEGIN -->', '| seed | property | file(s) | change | reported by (check: rules) |', '|---|---|---|---|---|'] + rows + \
        ['', '%d seeded changes: %d reported as VIOLATION by at least one check, %d undecided (ANALYSIS-ERROR, exit 2), %d missed.' % (len(rows), sum(1 for r in rows if '**missed**' not in r and '*undecided*' not in r), sum(1 for r in rows if '*undecided*' in r), sum(1 for r in rows if '**missed**' in r)), '<!-- SEED-MATRIX-END -->']
s = open(V + '/DESIGN.md').read()
s = re.sub(r'<!-- SEED-MATRIX-BEGIN -->.*?<!-- SEED-MATRIX-END -->', lambda _: '\n'.join(block), s, flags=re.S)
open(V + '/DESIGN.md', 'w').write(s)
print(len(rows), 'rows')

# ---- refactoring corpus ---------------------------------------------------------------------------------------------------
trows = []
for mp in sorted(glob.glob(V + '/twins/*/meta.json')):
    m = json.load(open(mp))
    d = os.path.dirname(mp)
    patch = open(d + '/patch.diff').read()
    files = sorted(set(re.findall(r'^\+\+\+ b/(\S+)', patch, re.M)))
    readme = ''
    if os.path.exists(d + '/README.md'):
        lines = [l.strip() for l in open(d + '/README.md').read().splitlines() if l.strip() and not l.startswith('#')]
        readme = ' '.join(lines)[:160]
    fa, ae = m.get('false_alarms', []), m.get('analysis_errors', [])
    status = 'silent' if not fa and not ae else ('**false alarm**: ' + '; '.join(sorted({re.search(r'\[(C\d+/[\w-]+)\]', x).group(1) for x in fa if re.search(r'\[(C\d+/[\w-]+)\]', x)}))
                                                 if fa else 'analysis error (exit 2): ' + '; '.join(sorted({x.split(' ', 2)[1] for x in ae})))
    trows.append('| %s | %s | %s | %s |' % (m.get('id', os.path.basename(d)), ', '.join(f.split('/')[-1] for f in files), readme.replace('|', '/'), status))
tb = ['<!-- TWIN-MATRIX-BEGIN -->', '| refactoring | file(s) | what it rewrites | all quick checks |', '|---|---|---|---|'] + trows + \
     ['', '%d behaviour-preserving refactorings; %d silent, %d false alarm(s), %d analysis error(s).'
      % (len(trows), sum(1 for r in trows if r.endswith('| silent |')), sum(1 for r in trows if 'false alarm' in r), sum(1 for r in trows if 'analysis error' in r)),
      '<!-- TWIN-MATRIX-END -->']
s = open(V + '/DESIGN.md').read()
s = re.sub(r'<!-- TWIN-MATRIX-BEGIN -->.*?<!-- TWIN-MATRIX-END -->', lambda _: '\n'.join(tb), s, flags=re.S)
open(V + '/DESIGN.md', 'w').write(s)
print(len(trows), 'twin rows')

#!/venv/bin/python
"""tools/import_pairs.py <log of verify_pair.sh lines>: confirmed pairs /tmp/w3/<P>/out/pair<N> -> /verif/seeded/<P>-<k> (break) and /verif/twins/<P>-p<N> (keep)"""
import os, json, shutil, re, sys, glob
for l in open(sys.argv[1]):
    m = re.match(r'(C\d+)-pair(\d+) clean=(\d+) keep_apply=(\w+) keep=(\d+) same_output=(\w+) keep_tests=\[(.*?)\] break_apply=(\w+) break=(\d+) break_tests=\[(.*?)\]', l)
    if not m:
        continue
    pid, n, clean, ka, keep, same, kt, ba, brk, bt = m.groups()
    src = '%s/%s/out/pair%s' % (os.environ.get('ROUND_DIR', '/tmp/w4'), pid, n)
    ok_keep = clean == '0' and ka == 'ok' and keep == '0' and same == 'yes' and '31 passed' in kt
    ok_break = clean == '0' and ba == 'ok' and brk == '1' and '31 passed' in bt
    readme = open(src + '/README.md').read() if os.path.exists(src + '/README.md') else ''
    if ok_break:
        existing = [int(os.path.basename(d).split('-')[1]) for d in glob.glob('/verif/seeded/%s-*' % pid) if os.path.basename(d).split('-')[1].isdigit()]
        k = max(existing + [0]) + 1
        dst = '/verif/seeded/%s-%d' % (pid, k)
        os.makedirs(dst, exist_ok=True)
        shutil.copy(src + '/break/patch.diff', dst + '/patch.diff'); shutil.copy(src + '/demo.py', dst + '/demo.py')
        open(dst + '/README.md', 'w').write(readme)
        json.dump({'id': '%s-%d' % (pid, k), 'property': pid, 'pair_dir': '%s-pair%s' % (pid, n),
                   'origin': os.environ.get('ROUND_LABEL', 'round 4') + ': independent sub-agent given only the property text, a scratch worktree and the list of changes already taken; asked for near-miss pairs (a breaking change and a behaviour-preserving change at the same site)',
                   'summary': '', 'needs_to_manifest': 'see README.md',
                   'confirmed': {'how': 'tools/verify_pair.sh in a scratch git worktree under /tmp (removed afterwards)', 'demo_exit_clean': 0, 'demo_exit_patched': 1, 'test_suite_with_patch': bt}},
                  open(dst + '/meta.json', 'w'), indent=1)
        print('imported seed', dst)
    else:
        print('BREAK NOT CONFIRMED', l.strip()[:300])
    if ok_keep:
        existing_t = [int(os.path.basename(d).split('-p')[1]) for d in glob.glob('/verif/twins/%s-p*' % pid) if os.path.basename(d).split('-p')[1].isdigit()]
        dst = '/verif/twins/%s-p%d' % (pid, max(existing_t + [0]) + 1)
        os.makedirs(dst, exist_ok=True)
        shutil.copy(src + '/keep/patch.diff', dst + '/patch.diff'); shutil.copy(src + '/demo.py', dst + '/demo.py')
        open(dst + '/README.md', 'w').write(readme)
        json.dump({'id': os.path.basename(dst), 'property': pid, 'origin': os.environ.get('ROUND_LABEL', 'round 4') + ': the behaviour-preserving half of a near-miss pair (same site and kind of edit as a breaking change); demo output byte-identical, suite unchanged'},
                  open(dst + '/meta.json', 'w'), indent=1)
        print('imported twin', dst)
    else:
        print('KEEP NOT CONFIRMED', l.strip()[:300])

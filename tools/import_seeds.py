#!/venv/bin/python
"""tools/import_seeds.py <log> <round-label> <suffix-offset> : copy confirmed seeds /tmp/wt/<P>/out/change<N> to /verif/seeded/<P>-<N+offset>"""
import os, json, shutil, re, sys
log, label, off = sys.argv[1], sys.argv[2], int(sys.argv[3])
summ = json.load(open(sys.argv[4])) if len(sys.argv) > 4 else {}
for l in open(log):
    m = re.match(r'(C\d+)-(\d+) clean_exit=(\d+) patched_exit=(\d+) tests=\[(.*)\]', l)
    if not m:
        continue
    pid, n, ce, pe, tests = m.group(1), int(m.group(2)), int(m.group(3)), int(m.group(4)), m.group(5)
    if ce != 0 or pe != 1 or '31 passed' not in tests:
        print('NOT CONFIRMED', l.strip()); continue
    src = '/tmp/wt/%s/out/change%d' % (pid, n - off)
    sid = '%s-%d' % (pid, n)
    dst = '/verif/seeded/' + sid
    os.makedirs(dst, exist_ok=True)
    for f in ('patch.diff', 'demo.py', 'README.md'):
        if os.path.exists(src + '/' + f):
            shutil.copy(src + '/' + f, dst + '/' + f)
    meta = {'id': sid, 'property': pid, 'origin': 'independent sub-agent given only the property text, a scratch worktree and the list of changes already taken (%s)' % label,
            'summary': summ.get(sid, ''),
            'needs_to_manifest': 'see README.md (written by the sub-agent: broken clause, why the suite is blind, the specific input / sequence needed)',
            'confirmed': {'how': 'tools/verify_seed.sh in a scratch git worktree under /tmp (removed afterwards): demo on clean tree, git apply patch, demo again, full test suite',
                          'demo_exit_clean': ce, 'demo_exit_patched': pe, 'test_suite_with_patch': tests}}
    json.dump(meta, open(dst + '/meta.json', 'w'), indent=1)
    print('imported', sid)

#!/usr/bin/env python3
"""Prepare a near-miss round: scratch worktrees of /repo under ROUND_DIR, one per claimed property, each holding PROPERTY.json (the property
text only) and TAKEN.txt (the source changes earlier rounds used for it, so that they are not repeated); writes PROMPT_<P>.txt from a template.
Nothing about the checks in /verif is handed to the sub-agents."""
import json, glob, os, re, subprocess, sys
V = '/verif'
RD = os.environ.get('ROUND_DIR', '/tmp/w10')
TEMPLATE = os.environ.get('PROMPT_TEMPLATE')
props = {}
for line in open(V + '/properties.jsonl'):
    if line.strip():
        p = json.loads(line)
        props[p['id']] = p
claimed = [c['property_id'] for c in json.load(open(V + '/MANIFEST.json'))['checks']]
if os.environ.get('ONLY'):
    claimed = [c for c in claimed if c in os.environ['ONLY'].split(',')]
os.makedirs(RD, exist_ok=True)
for P in claimed:
    wt = '%s/%s' % (RD, P)
    if not os.path.isdir(wt):
        subprocess.run(['git', '-C', '/repo', 'worktree', 'add', '--detach', wt, 'HEAD'], check=True, stdout=subprocess.DEVNULL, stderr=subprocess.DEVNULL)
    json.dump(props[P], open(wt + '/PROPERTY.json', 'w'), indent=1)
    out = ['Changes already used for property %s in earlier rounds (do not repeat these or close variants):' % P, '']
    for kind, pat in (('BREAKING', V + '/seeded/%s-*/' % P), ('PRESERVING', V + '/twins/%s-*/' % P)):
        for d in sorted(glob.glob(pat)):
            meta = json.load(open(d + 'meta.json')) if os.path.exists(d + 'meta.json') else {}
            title = meta.get('summary') or ''
            if not title and os.path.exists(d + 'README.md'):
                title = open(d + 'README.md').readline().strip('# \n')
            patch = open(d + 'patch.diff').read() if os.path.exists(d + 'patch.diff') else ''
            files = sorted(set(re.findall(r'^\+\+\+ b/(\S+)', patch, re.M)))
            hunks = re.findall(r'^@@[^@]*@@ ?(.*)$', patch, re.M)
            adds = [l[1:].strip() for l in patch.splitlines() if l.startswith('+') and not l.startswith('+++') and l[1:].strip() and not l[1:].strip().startswith('#')][:3]
            out.append('- [%s] %s' % (kind, title[:220] or '(no title)'))
            out.append('      site: %s :: %s' % (', '.join(files), (hunks[0] if hunks else '')[:80]))
            if adds:
                out.append('      adds: ' + ' | '.join(a[:90] for a in adds))
    open(wt + '/TAKEN.txt', 'w').write('\n'.join(out) + '\n')
    if TEMPLATE:
        t = open(TEMPLATE).read()
        open('%s/PROMPT_%s.txt' % (RD, P), 'w').write(t.replace('@RD@', RD).replace('@P@', P))
    print(P, len(out))

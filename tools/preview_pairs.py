#!/venv/bin/python
"""tools/preview_pairs.py C02 C14 ... : verdicts of all quick checks on both halves of the not-yet-imported pairs under $ROUND_DIR"""
import os, sys, glob
sys.path.insert(0, '/verif/tools')
from _parallel import run_all
rd = os.environ.get('ROUND_DIR', '/tmp/w5')
todo = []
for p in sys.argv[1:]:
    for n in (1, 2):
        for half in ('keep', 'break'):
            f = '%s/%s/out/pair%d/%s/patch.diff' % (rd, p, n, half)
            if os.path.exists(f):
                todo.append((p, n, half, f))
for (p, n, half, f), (viol, errs) in zip(todo, run_all([t[3] for t in todo])):
    status = 'silent' if not viol and not errs else ('VIOLATION' if viol else 'analysis-error')
    good = (half == 'keep' and status == 'silent') or (half == 'break' and status == 'VIOLATION')
    print('%s pair%d %-5s %-14s %s' % (p, n, half, status, '' if good else '<<<<'))
    for v in viol[:3]:
        print('      V', v[:210])
    for e in errs[:2]:
        print('      E', e[:210])

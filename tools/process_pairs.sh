#!/bin/bash
# usage: tools/process_pairs.sh C02 C04 ...  : verify (scratch worktree), import, and run the checks on each half
cd /verif
for p in "$@"; do
  for n in 1 2; do
    d=${ROUND_DIR:-/tmp/w4}/$p/out/pair$n
    [ -f $d/break/patch.diff ] || { echo "$p-pair$n MISSING"; continue; }
    tools/verify_pair.sh $d $p-pair$n | tee -a /tmp/pairs.log | cut -c1-400
  done
done

#!/venv/bin/python
"""Apply every seeded change to a scratch copy of /repo (tools/_parallel.py), run all quick checks, record which rules fire.
Optional arguments: property ids (default: all seeds).  Writes /verif/seeded/<id>/meta.json 'detected_by' and prints a table."""
import json, os, subprocess, sys, glob, re
V = '/verif'
os.chdir(V)
seeds = sorted(glob.glob(V + '/seeded/*/patch.diff'))
if len(sys.argv) > 1:          # only the seeds of the named properties
    seeds = [s_ for s_ in seeds if os.path.basename(os.path.dirname(s_)).split('-')[0] in sys.argv[1:]]
props = [p for p in json.load(open(V + '/claims.json'))]
rows = []
sys.path.insert(0, V + '/tools')
from _parallel import run_all
for patch, (viol, errors) in zip(seeds, run_all(seeds)):
    d = os.path.dirname(patch)
    sid = os.path.basename(d)
    meta = json.load(open(d + '/meta.json'))
    hits = {}
    for line in viol:
        m = re.match(r'^(\S+?):(\d+): \[(C\d+)/([^\]]+)\] in (\S+):', line)
        hits.setdefault(m.group(3), set()).add('%s@%s' % (m.group(4), m.group(5)))
    meta['detected_by'] = {p: sorted(v) for p, v in hits.items()}
    meta['analysis_errors'] = errors
    meta['detected'] = bool(hits)
    json.dump(meta, open(d + '/meta.json', 'w'), indent=1)
    rows.append((sid, meta['property'], 'DETECTED' if hits else ('undecided' if errors else 'missed'), '; '.join('%s:%s' % (p, ','.join(sorted(v))[:80]) for p, v in hits.items()), errors))
for r in rows:
    print('%-8s %-4s %-9s %s %s' % (r[0], r[1], r[2], r[3], ('  ERR ' + str(r[4])) if r[4] else ''))
print(sum(1 for r in rows if r[2] == 'DETECTED'), 'of', len(rows), 'detected;', sum(1 for r in rows if r[2] == 'undecided'), 'undecided (exit 2);', sum(1 for r in rows if r[2] == 'missed'), 'missed')

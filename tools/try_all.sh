#!/bin/bash
# usage: tools/try_all.sh <patch.diff> - apply, run all quick checks, revert; print only verdict lines
# NEVER run this while tools/seed_matrix.py, tools/twin_matrix.py or ./check selftest are running: they read /repo, which this script patches in place.
patch="$(readlink -f "$1")"; cd /verif
git -C /repo diff --quiet || { echo "/repo not clean"; exit 3; }
git -C /repo apply "$patch" || { echo "patch does not apply"; exit 3; }
VERIF_NO_EVIDENCE=1 ./check all --tier quick | grep -E "^(src|mech)|ANALYSIS-ERROR" | cut -c1-230
git -C /repo checkout -- .

#!/bin/bash
# usage: tools/try_patch.sh <patch.diff> <prop> [<prop>...]  - apply to /repo, run quick checks, always revert
set -u
patch="$1"; shift
cd /verif
if ! git -C /repo diff --quiet; then echo "/repo not clean"; exit 3; fi
git -C /repo apply "$patch" || { echo "patch does not apply"; exit 3; }
for p in "$@"; do ./check "$p" --tier quick | grep -E "VIOLATION|ANALYSIS-ERROR|KNOWN|^src|^mech|obligations" ; done
git -C /repo checkout -- .
git -C /repo diff --quiet && echo "[repo restored]"

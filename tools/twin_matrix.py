#!/venv/bin/python
"""Apply every behaviour-preserving refactoring under /verif/twins/*/patch.diff to a scratch copy of /repo (tools/_parallel.py), run all quick
checks; a VIOLATION is a false alarm, an ANALYSIS-ERROR an unrecognised idiom.  Writes twins/<id>/meta.json."""
import json, os, subprocess, sys, glob, re
V = '/verif'
os.chdir(V)
props = sorted(json.load(open(V + '/claims.json')))
only = sys.argv[1:] 
rows = []
sys.path.insert(0, V + '/tools')
from _parallel import run_all
todo = []
for patch in sorted(glob.glob(V + '/twins/*/patch.diff')):
    tid = os.path.basename(os.path.dirname(patch))
    if only and not any(tid.startswith(o) for o in only):
        continue
    todo.append(patch)
for patch, (viol, errs) in zip(todo, run_all(todo)):
    d = os.path.dirname(patch); tid = os.path.basename(d)
    meta = json.load(open(d + '/meta.json')) if os.path.exists(d + '/meta.json') else {'id': tid}
    viol = [v[:230] for v in viol]
    meta['false_alarms'] = viol
    meta['analysis_errors'] = errs
    json.dump(meta, open(d + '/meta.json', 'w'), indent=1)
    rows.append((tid, len(viol), len(errs)))
    status = 'silent' if not viol and not errs else ('FALSE-ALARM' if viol else 'analysis-error')
    print('%-10s %-14s' % (tid, status))
    for v in viol[:4]: print('      V', v[:200])
    for e in errs[:3]: print('      E', e[:200])
print(sum(1 for r in rows if r[1] == 0 and r[2] == 0), 'of', len(rows), 'silent;', sum(1 for r in rows if r[1]), 'false alarm(s);', sum(1 for r in rows if r[2] and not r[1]), 'analysis error(s)')

#!/venv/bin/python
"""Apply every behaviour-preserving refactoring under /verif/twins/*/patch.diff to /repo in turn (always reverted), run all quick
checks; a VIOLATION is a false alarm, an ANALYSIS-ERROR an unrecognised idiom.  Writes twins/<id>/meta.json."""
import json, os, subprocess, sys, glob, re
V = '/verif'
os.chdir(V)
assert subprocess.run(['git', '-C', '/repo', 'diff', '--quiet']).returncode == 0, '/repo not clean'
props = sorted(json.load(open(V + '/claims.json')))
only = sys.argv[1:] 
rows = []
for patch in sorted(glob.glob(V + '/twins/*/patch.diff')):
    d = os.path.dirname(patch); tid = os.path.basename(d)
    if only and not any(tid.startswith(o) for o in only):
        continue
    meta = json.load(open(d + '/meta.json')) if os.path.exists(d + '/meta.json') else {'id': tid}
    viol, errs = [], []
    try:
        subprocess.check_call(['git', '-C', '/repo', 'apply', patch])
        out = subprocess.run([V + '/check', 'all', '--tier', 'quick'], capture_output=True, text=True)
        for line in out.stdout.splitlines():
            if re.match(r'^(\S+?):(\d+): \[(C\d+)/', line):
                viol.append(line[:230])
            if line.startswith('ANALYSIS-ERROR'):
                errs.append(line[:230])
    finally:
        subprocess.check_call(['git', '-C', '/repo', 'checkout', '--', '.'])
    meta['false_alarms'] = viol
    meta['analysis_errors'] = errs
    json.dump(meta, open(d + '/meta.json', 'w'), indent=1)
    rows.append((tid, len(viol), len(errs)))
    status = 'silent' if not viol and not errs else ('FALSE-ALARM' if viol else 'analysis-error')
    print('%-10s %-14s' % (tid, status))
    for v in viol[:4]: print('      V', v[:200])
    for e in errs[:3]: print('      E', e[:200])
print(sum(1 for r in rows if r[1] == 0 and r[2] == 0), 'of', len(rows), 'silent;', sum(1 for r in rows if r[1]), 'false alarm(s);', sum(1 for r in rows if r[2] and not r[1]), 'analysis error(s)')

#!/bin/bash
# usage: tools/verify_pair.sh <pair dir with break/patch.diff keep/patch.diff demo.py> <name>
# scratch worktree outside /repo and /verif; prints one status line
d="$(readlink -f "$1")"; name="$2"
wt=$(mktemp -d /tmp/pairwt.XXXXXX); rmdir $wt
git -C /repo worktree add -q --detach $wt HEAD || exit 3
export PYTHONPATH=$wt/src:$wt:/tmp/stubs
cd $wt
mkdir -p $wt/out/pairX; sed "s#/tmp/w[0-9]*/C[0-9]*#$wt#g" $d/demo.py > $wt/out/pairX/demo.py
timeout 900 /venv/bin/python out/pairX/demo.py > /tmp/pair_clean.$$ 2>/dev/null; clean=$?
keep_apply=ok; git apply $d/keep/patch.diff 2>/dev/null || keep_apply=FAIL
timeout 900 /venv/bin/python out/pairX/demo.py > /tmp/pair_keep.$$ 2>/dev/null; keep=$?
same=no; cmp -s /tmp/pair_clean.$$ /tmp/pair_keep.$$ && same=yes
ktests=$(timeout 900 /venv/bin/python -m pytest -q -p no:cacheprovider --timeout=900 2>&1 | tail -1)
git checkout -q -- src mechanisms
brk_apply=ok; git apply $d/break/patch.diff 2>/dev/null || brk_apply=FAIL
timeout 900 /venv/bin/python out/pairX/demo.py >/dev/null 2>&1; brk=$?
btests=$(timeout 900 /venv/bin/python -m pytest -q -p no:cacheprovider --timeout=900 2>&1 | tail -1)
cd /; git -C /repo worktree remove --force $wt; rm -f /tmp/pair_clean.$$ /tmp/pair_keep.$$
echo "$name clean=$clean keep_apply=$keep_apply keep=$keep same_output=$same keep_tests=[$ktests] break_apply=$brk_apply break=$brk break_tests=[$btests]"

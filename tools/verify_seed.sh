#!/bin/bash
# usage: tools/verify_seed.sh <dir with patch.diff and demo.py> -> prints one status line; uses a scratch worktree outside /repo and /verif
d="$1"; name="$2"
wt=$(mktemp -d /tmp/seedwt.XXXXXX); rmdir $wt
git -C /repo worktree add -q --detach $wt HEAD || exit 3
export PYTHONPATH=$wt/src:$wt:/tmp/stubs
cd $wt
mkdir -p $wt/out/chg; sed "s#/tmp/wt/C[0-9]*#$wt#g" $d/demo.py > $wt/out/chg/demo.py
timeout 600 /venv/bin/python out/chg/demo.py >/dev/null 2>&1; clean=$?
git apply $d/patch.diff || { echo "$name APPLY-FAIL"; cd /; git -C /repo worktree remove --force $wt; exit 0; }
timeout 600 /venv/bin/python out/chg/demo.py >/dev/null 2>&1; patched=$?
tests=$(timeout 900 /venv/bin/python -m pytest -q -p no:cacheprovider --timeout=900 2>&1 | tail -1)
cd /; git -C /repo worktree remove --force $wt
echo "$name clean_exit=$clean patched_exit=$patched tests=[$tests]"

#!/usr/bin/env python
"""Pair 1 demo: exact inference must not depend on WHICH dependency-respecting
order the junction-tree messages are sent in.

For a handful of models (chain, star, cycle needing fill-in, disconnected,
structural zeros, non-unit total) the clique marginals returned by
GraphicalModel.belief_propagation are compared with brute-force marginals of the
normalised product of the potentials, under
  * the schedule the model was built with,
  * every "collect to clique r, then distribute from r" schedule (one per clique r),
  * the mirror image of the built-in schedule,
  * a batch of seeded random linear extensions of the message-dependency order.
The schedules are installed by assigning the public attribute model.message_order
AFTER the model has been constructed, exactly like a caller (or a checker) would.

exit 0 + "PASS" : all schedules give the brute-force marginals
exit 1 + "FAIL" : some valid schedule gives different marginals / raises
"""
import os, sys, hashlib, random, warnings, itertools

ROOT = os.path.dirname(os.path.dirname(os.path.dirname(os.path.abspath(__file__))))   # out/pair1/demo.py -> repo root
sys.path.insert(0, os.path.join(ROOT, 'src'))
warnings.simplefilter('ignore')

import numpy as np
import mbi
from mbi import Domain, Factor, CliqueVector, GraphicalModel

assert os.path.abspath(mbi.__file__).startswith(os.path.join(ROOT, 'src')), \
    'mbi imported from %s, expected the copy under %s' % (mbi.__file__, ROOT)

# ----------------------------------------------------------------------------- brute force

def brute_force(domain, potentials, total):
    """ marginals of exp(sum of potentials) normalised to total, by enumeration """
    logp = np.zeros(domain.shape)
    for cl, f in potentials.items():
        attrs = list(f.domain.attrs)
        perm = sorted(range(len(attrs)), key=lambda k: domain.attrs.index(attrs[k]))
        vals = np.transpose(f.values, perm)
        shape = [domain.config[a] if a in attrs else 1 for a in domain.attrs]
        logp = logp + vals.reshape(shape)
    p = np.exp(logp - logp.max())
    p *= total / p.sum()
    ans = {}
    for cl, f in potentials.items():
        attrs = list(f.domain.attrs)
        other = tuple(k for k, a in enumerate(domain.attrs) if a not in attrs)
        m = p.sum(axis=other)                       # axes in domain order
        kept = [a for a in domain.attrs if a in attrs]
        ans[cl] = np.transpose(m, [kept.index(a) for a in attrs])
    return p, ans

# ----------------------------------------------------------------------------- schedules

def dependencies(messages):
    """ (k,i) must be sent before (i,j) whenever k != j """
    deps = {m: set() for m in messages}
    for m1 in messages:
        for m2 in messages:
            if m1[1] == m2[0] and m1[0] != m2[1]:
                deps[m2].add(m1)
    return deps

def is_linear_extension(order, deps):
    pos = {m: k for k, m in enumerate(order)}
    return len(pos) == len(deps) == len(order) and all(pos[d] < pos[m] for m in deps for d in deps[m])

def rooted_schedule(messages, root):
    """ collect everything into `root`, then distribute from it """
    nbrs = {}
    for i, j in messages:
        nbrs.setdefault(i, set()).add(j)
    depth, frontier = {root: 0}, [root]
    while frontier:
        nxt = []
        for i in frontier:
            for j in sorted(nbrs.get(i, ())):
                if j not in depth:
                    depth[j] = depth[i] + 1
                    nxt.append(j)
        frontier = nxt
    up = sorted([m for m in messages if depth[m[0]] > depth[m[1]]], key=lambda m: (-depth[m[0]], m))
    down = sorted([m for m in messages if depth[m[0]] < depth[m[1]]], key=lambda m: (depth[m[0]], m))
    return up + down

def mirror_schedule(order):
    """ swap the two directions of every edge: also a linear extension """
    return [(j, i) for i, j in reversed(order)]

def random_extension(deps, rng):
    done, order = set(), []
    while len(order) < len(deps):
        ready = sorted(m for m in deps if m not in done and deps[m] <= done)
        m = ready[rng.randrange(len(ready))]
        order.append(m)
        done.add(m)
    return order

# ----------------------------------------------------------------------------- cases

def make_cases():
    cases = []
    cases.append(dict(name='chain3', attrs='abcd', shape=(2, 3, 4, 2),
                      cliques=[('a', 'b'), ('b', 'c'), ('c', 'd')], total=1.0, scale=1.0))
    cases.append(dict(name='chain5-total', attrs='abcdef', shape=(2, 3, 2, 3, 2, 2),
                      cliques=[('a', 'b'), ('b', 'c'), ('c', 'd'), ('d', 'e'), ('e', 'f')], total=250.0, scale=2.0))
    cases.append(dict(name='star', attrs='habcd', shape=(3, 2, 2, 3, 2),
                      cliques=[('h', 'a'), ('h', 'b'), ('c', 'h'), ('h', 'd')], total=7.5, scale=1.5))
    cases.append(dict(name='cycle5-fillin', attrs='abcde', shape=(2, 3, 2, 3, 2),
                      cliques=[('a', 'b'), ('b', 'c'), ('c', 'd'), ('d', 'e'), ('e', 'a')], total=1.0, scale=1.0))
    cases.append(dict(name='disconnected-nested-dup', attrs='abcdefg', shape=(2, 2, 3, 2, 2, 3, 2),
                      cliques=[('a', 'b'), ('b', 'a'), ('b',), ('c', 'd'), ('d', 'c', 'e'), ('f',), ('e', 'd')],
                      total=40.0, scale=1.0))
    cases.append(dict(name='tree-structural-zeros', attrs='abcdef', shape=(2, 3, 2, 2, 3, 2),
                      cliques=[('a', 'b'), ('b', 'c'), ('b', 'd'), ('d', 'e'), ('d', 'f')], total=3.0, scale=1.0,
                      zeros=True))
    cases.append(dict(name='caterpillar-given-order', attrs='abcdefg', shape=(2, 2, 2, 3, 2, 2, 2),
                      cliques=[('a', 'b'), ('b', 'c'), ('c', 'd'), ('b', 'e'), ('c', 'f'), ('d', 'g'), ('a', 'c')],
                      total=12.0, scale=3.0, elim=list('gfedcba')))
    return cases

def run_case(case, failures):
    rng = np.random.RandomState(20240 + len(case['name']))
    domain = Domain(list(case['attrs']), case['shape'])
    model = GraphicalModel(domain, case['cliques'], total=case['total'],
                           elimination_order=case.get('elim'))
    pots = {}
    for cl in sorted(model.cliques):
        dom = domain.project(cl)
        vals = rng.normal(size=dom.shape) * case['scale']
        if case.get('zeros'):
            # one whole slice of a separator attribute is impossible, plus scattered zeros
            if 'b' in cl:
                idx = [slice(None)] * len(cl)
                idx[cl.index('b')] = 1
                vals[tuple(idx)] = -np.inf
            vals[rng.rand(*dom.shape) < 0.15] = -np.inf
        pots[cl] = Factor(dom, vals)
    potentials = CliqueVector(pots)
    joint, truth = brute_force(domain, pots, case['total'])

    built = list(model.message_order)
    deps = dependencies(built)
    schedules = [('built-in', built), ('mirror', mirror_schedule(built))]
    for r in sorted(model.cliques):
        schedules.append(('collect/distribute@%s' % ''.join(r), rooted_schedule(built, r)))
    prng = random.Random(7)
    for k in range(12):
        schedules.append(('random#%d' % k, random_extension(deps, prng)))

    tol = 1e-9 * case['total']
    bad = 0
    for label, sched in schedules:
        assert is_linear_extension(sched, deps), 'demo bug: %s is not dependency-respecting' % label
        model.message_order = list(sched)
        try:
            mu = model.belief_propagation(potentials)
            err = 0.0
            for cl in model.cliques:
                got = np.asarray(mu[cl].values)
                if not np.all(np.isfinite(got)):
                    err = float('inf')
                    break
                err = max(err, float(np.abs(got - truth[cl]).max()))
            why = 'max abs error %.3e (tolerance %.1e)' % (err, tol)
            ok = err <= tol
        except Exception as e:           # a valid schedule must not crash either
            ok, why = False, 'raised %s: %s' % (type(e).__name__, e)
        if not ok:
            bad += 1
            failures.append('%s / schedule %s: %s' % (case['name'], label, why))
    model.message_order = built

    digest = hashlib.sha256(np.round(joint / case['total'], 12).tobytes()).hexdigest()[:16]
    print('%-26s cliques=%d messages=%d schedules=%d joint=%s %s'
          % (case['name'], len(model.cliques), len(built), len(schedules), digest,
             'ok' if bad == 0 else 'MISMATCH(%d)' % bad))

def main():
    failures = []
    for case in make_cases():
        run_case(case, failures)
    if failures:
        print('FAIL: belief_propagation depends on the order in which a dependency-respecting')
        print('      schedule sends the messages (%d schedule(s) disagree with brute force):' % len(failures))
        for f in failures[:12]:
            print('   - ' + f)
        if len(failures) > 12:
            print('   ... and %d more' % (len(failures) - 12))
        return 1
    print('PASS: every dependency-respecting schedule reproduces the brute-force marginals')
    return 0

if __name__ == '__main__':
    sys.exit(main())

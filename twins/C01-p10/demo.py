#!/usr/bin/env python
"""C01 / pair 2 -- structural zeros (-inf log-potentials) in the message-passing loop.

Runs GraphicalModel.belief_propagation on several junction trees (chain, star,
three-attribute cliques with two-attribute separators, disconnected, cycle with
fill-in) with log-potentials that are

    * finite,
    * finite but huge (|theta| ~ 1e3..1e4, far outside the range of exp) and shifted by large constants,
    * -inf in places that leave every separator configuration possible,
    * -inf in places that make a whole separator configuration impossible
      (an attribute value / a pair of values with no support),
    * stored in Factors whose attribute order differs from the clique key,

under the default message schedule and under random linear extensions of the
message-dependency order, and compares every clique marginal with the
brute-force marginal of the normalised product.

exit 0 + PASS + digest   : all marginals agree and are finite
exit 1 + FAIL + reasons  : some marginal is NaN / wrong (or inference raised)
"""
import os, sys, hashlib, warnings

ROOT = os.path.dirname(os.path.dirname(os.path.dirname(os.path.abspath(__file__))))
sys.path.insert(0, os.path.join(ROOT, 'src'))
warnings.simplefilter('ignore')

import numpy as np
from mbi import Domain, Factor, GraphicalModel, CliqueVector

TOL = 1e-8
NINF = -np.inf


def brute_force(domain, potentials, total):
    attrs = list(domain.attrs)
    logp = np.zeros(domain.shape)
    for cl, f in potentials.items():
        fa = list(f.domain.attrs)
        perm = sorted(range(len(fa)), key=lambda k: attrs.index(fa[k]))
        vals = np.transpose(f.values, perm)
        shape = [domain[a] if a in fa else 1 for a in attrs]
        logp = logp + vals.reshape(shape)
    m = logp.max()
    assert np.isfinite(m), 'test input has zero total mass'
    p = np.exp(logp - m)
    p *= total / p.sum()
    out = {}
    for cl in potentials:
        axes = tuple(k for k, a in enumerate(attrs) if a not in cl)
        out[cl] = p.sum(axis=axes)
    return out


def in_domain_order(domain, factor):
    fa = list(factor.domain.attrs)
    perm = sorted(range(len(fa)), key=lambda k: domain.attrs.index(fa[k]))
    return np.transpose(factor.values, perm)


def random_schedule(messages, rng):
    """ a random linear extension of the message-dependency order:
        (a,b) must precede (b,c) for every c != a """
    messages = list(messages)
    pending = {m: set(n for n in messages if n[1] == m[0] and n[0] != m[1]) for m in messages}
    out = []
    while pending:
        ready = sorted(m for m in pending if not pending[m])
        m = ready[rng.randint(len(ready))]
        out.append(m)
        del pending[m]
        for n in pending:
            pending[n].discard(m)
    return out


# ---- potentials -------------------------------------------------------------------------

def finite(model, rng, scale=2.0):
    return {cl: scale * rng.randn(*model.domain.project(cl).shape) for cl in model.cliques}

def huge(model, rng):
    pots = finite(model, rng, scale=2e3)             # exp() overflows beyond ~709
    for k, cl in enumerate(model.cliques):
        pots[cl] += (-1) ** k * 5e3 * (k + 1)          # large constant shifts
    return pots

def harmless_zeros(model, rng):
    """ one impossible cell per clique of >= 2 attributes: every separator state keeps support """
    pots = finite(model, rng)
    for cl in model.cliques:
        if pots[cl].ndim >= 2:
            pots[cl][(0,) * pots[cl].ndim] = NINF
    return pots

def dead_value(model, rng):
    """ for every clique with >= 2 attributes: the last value of its last attribute is impossible """
    pots = finite(model, rng)
    for cl in model.cliques:
        if pots[cl].ndim >= 2:
            pots[cl][..., -1] = NINF
    return pots

def dead_value_once(model, rng):
    """ a single clique declares value 0 of its first attribute impossible """
    pots = finite(model, rng)
    cl = max(model.cliques, key=lambda c: (len(c), c))
    pots[cl][0] = NINF
    return pots

def dead_pair(model, rng):
    """ cliques with >= 3 attributes: the combination (0, 0) of the first two attributes is impossible """
    pots = finite(model, rng)
    for cl in model.cliques:
        if pots[cl].ndim >= 3:
            pots[cl][0, 0] = NINF
    return pots

KINDS = [('finite', finite), ('huge', huge), ('harmless-zeros', harmless_zeros),
         ('dead-value', dead_value), ('dead-value-once', dead_value_once), ('dead-pair', dead_pair)]

MODELS = [
    ('chain4', ['a', 'b', 'c', 'd'], [2, 3, 4, 2],
        [('a', 'b'), ('b', 'c'), ('c', 'd')], None),
    ('star', ['h', 'w', 'x', 'y', 'z'], [3, 2, 3, 2, 4],
        [('h', 'w'), ('h', 'x'), ('h', 'y'), ('z', 'h')], None),
    ('triples', ['a', 'b', 'c', 'd', 'e', 'f'], [2, 3, 2, 3, 2, 2],
        [('a', 'b', 'c'), ('b', 'c', 'd'), ('c', 'd', 'e'), ('d', 'f')], None),
    ('cycle5', ['a', 'b', 'c', 'd', 'e'], [2, 3, 2, 3, 2],
        [('a', 'b'), ('b', 'c'), ('c', 'd'), ('d', 'e'), ('e', 'a')], ['c', 'a', 'e', 'b', 'd']),
    ('two-parts', ['a', 'b', 'c', 'x', 'y', 'z'], [2, 3, 2, 3, 2, 2],
        [('a', 'b'), ('b', 'c'), ('x', 'y')], None),
]


def main():
    rng = np.random.RandomState(777)
    digest = hashlib.sha256()
    failures = []
    ncases = 0
    for name, attrs, shape, cliques, order in MODELS:
        domain = Domain(attrs, shape)
        model = GraphicalModel(domain, cliques, total=1.0, elimination_order=order)
        default_schedule = list(model.message_order)
        for kind, make in KINDS:
            for layout in ('canonical', 'reversed-factor-attrs'):
                arrays = make(model, rng)
                pots = {}
                for cl in model.cliques:
                    f = Factor(domain.project(cl), arrays[cl])
                    if layout != 'canonical':
                        f = f.transpose(cl[::-1])       # same function, attributes stored in another order
                    pots[cl] = f
                for total in (1.0, 250):
                    for sched in ('default', 'random-1', 'random-2'):
                        ncases += 1
                        tag = '%s / %s / %s / total=%s / %s' % (name, kind, layout, total, sched)
                        model.total = total
                        model.message_order = (default_schedule if sched == 'default'
                                               else random_schedule(default_schedule, rng))
                        try:
                            mu = model.belief_propagation(CliqueVector(pots))
                            want = brute_force(domain, pots, total)
                        except Exception as e:
                            failures.append('%s: raised %s: %s' % (tag, type(e).__name__, e))
                            continue
                        worst, nans = 0.0, 0
                        for cl in model.cliques:
                            got = in_domain_order(domain, mu[cl])
                            nans += int(np.sum(~np.isfinite(got)))
                            with np.errstate(invalid='ignore'):
                                err = np.abs(got - want[cl]) / total
                            worst = max(worst, np.nanmax(err) if np.isfinite(err).any() else np.inf)
                            digest.update(repr((tag, cl)).encode())
                            digest.update(np.ascontiguousarray(np.round(got / total, 5) + 0.0).tobytes())
                        if nans or worst > TOL:
                            failures.append('%s: %d non-finite marginal entries, max relative error %.3g'
                                            % (tag, nans, worst))
    if failures:
        print('FAIL: %d of %d cases: exact inference does not return the (finite) marginals of the product distribution'
              % (len(failures), ncases))
        kinds = sorted(set(f.split(' / ')[1] + ' / ' + f.split(' / ')[2] for f in failures))
        print('  failing potential kinds / layouts: ' + ', '.join(kinds))
        for f in failures[:40]:
            print('  - ' + f)
        if len(failures) > 40:
            print('  ... and %d more' % (len(failures) - 40))
        return 1
    print('PASS: %d cases, all clique marginals finite and equal to brute force (tol %g)' % (ncases, TOL))
    print('digest ' + digest.hexdigest())
    return 0


if __name__ == '__main__':
    sys.exit(main())

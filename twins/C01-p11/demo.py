""" C01 / pair 1 -- belief propagation on a RE-USED model (sequence of calls).

Every result ever returned by GraphicalModel.belief_propagation must be (and stay)
the exact marginals of the potentials it was computed from, no matter how many more
times the same model object is asked to run inference afterwards.

exit 0 + "PASS <digest>"  on the unmodified code and with keep/patch.diff
exit 1 + "FAIL ..."       with break/patch.diff
"""
import os, sys, hashlib, itertools, warnings
warnings.filterwarnings('ignore')
ROOT = os.path.dirname(os.path.dirname(os.path.dirname(os.path.dirname(os.path.abspath(__file__)))))
sys.path.insert(0, os.path.join(ROOT, 'src'))
import numpy as np
from mbi import Domain, Factor, GraphicalModel, CliqueVector
import mbi
assert os.path.abspath(mbi.__file__).startswith(ROOT), mbi.__file__

def brute(domain, potentials, total):
    """ marginals of total * normalised exp(sum of potentials), by enumeration """
    logp = np.zeros(domain.shape)
    for f in potentials.values():
        logp = logp + f.expand(domain).values
    logp = logp - logp.max()
    p = np.exp(logp)
    p *= total / p.sum()
    out = {}
    for cl, f in potentials.items():
        drop = tuple(i for i, a in enumerate(domain.attrs) if a not in cl)
        out[cl] = Factor(domain.project(domain.canonical(cl)), p.sum(axis=drop)).transpose(f.domain.attrs).values
    return out

def random_potentials(model, prng, scale=1.0, zeros=False):
    pot = {}
    for cl in model.cliques:
        dom = model.domain.project(cl)
        vals = scale * prng.normal(size=dom.shape)
        if zeros:
            vals[prng.random(dom.shape) < 0.15] = -np.inf
            vals[(0,) * len(cl)] = 0.0          # keep some mass
        pot[cl] = Factor(dom, vals)
    return CliqueVector(pot)

def close(a, b):
    return np.allclose(a, b, rtol=1e-8, atol=1e-10)

CASES = [
    ('chain',   dict(a=2, b=3, c=4, d=5), [('a','b'), ('b','c'), ('c','d')], 10.0),
    ('cycle5',  dict(a=2, b=3, c=2, d=3, e=2), [('a','b'), ('b','c'), ('c','d'), ('d','e'), ('e','a')], 3.5),
    ('star',    dict(a=3, b=2, c=2, d=2, e=4), [('a','b'), ('a','c'), ('a','d'), ('a','e')], 1.0),
    ('pieces',  dict(a=2, b=3, c=4, d=2, e=3), [('a','b'), ('c','d')], 250),
    ('nested',  dict(a=2, b=2, c=3, d=2), [('a','b','c'), ('b','c'), ('c',), ('c','d'), ('d','c')], 0.25),
]

digest = hashlib.sha256()
problems = []

def record(tag, mu):
    for cl in sorted(mu):
        digest.update(('%s %s ' % (tag, cl)).encode())
        digest.update(np.round(mu[cl].values, 12).tobytes())

for name, sizes, cliques, total in CASES:
    prng = np.random.RandomState(sum(map(ord, name)))
    domain = Domain.fromdict(sizes)
    model = GraphicalModel(domain, cliques, total=total)

    # ---- a single call on a fresh model
    p0 = random_potentials(model, prng)
    m0 = model.belief_propagation(p0)
    ref0 = brute(domain, p0, total)
    for cl in model.cliques:
        if not close(m0[cl].values, ref0[cl]):
            problems.append('%s: first call wrong on clique %s' % (name, cl))
    record(name + '/single', m0)

    # ---- a sequence of calls on the SAME model: every returned result must stay valid
    pots = [random_potentials(model, prng),
            random_potentials(model, prng, scale=40.0),
            random_potentials(model, prng, zeros=True),
            random_potentials(model, prng, scale=0.01)]
    results = []
    for k, p in enumerate(pots):
        results.append(model.belief_propagation(p))
        if k == 1:
            model.belief_propagation(p, logZ=True)      # interleaved logZ query
    refs = [brute(domain, p, total) for p in pots]
    for k, (mu, ref) in enumerate(zip(results, refs)):
        for cl in model.cliques:
            if not close(mu[cl].values, ref[cl]):
                err = np.max(np.abs(mu[cl].values - ref[cl]))
                problems.append('%s: result of call #%d on clique %s no longer equals the marginals of ITS '
                                'potentials after %d later call(s) on the same model (max abs err %.3g)'
                                % (name, k, cl, len(pots) - 1 - k, err))
        record('%s/seq%d' % (name, k), mu)
    # results of different calls must be different objects with their own storage
    for k in range(len(results) - 1):
        for cl in model.cliques:
            if np.shares_memory(results[k][cl].values, results[k + 1][cl].values):
                problems.append('%s: results of call #%d and #%d share storage for clique %s' % (name, k, k + 1, cl))
    # the first result must also have survived everything that happened since
    for cl in model.cliques:
        if not close(m0[cl].values, ref0[cl]):
            problems.append('%s: the first result was modified by later calls (clique %s)' % (name, cl))

    # ---- the potentials handed in are never modified
    q = random_potentials(model, prng)
    before = {cl: q[cl].values.copy() for cl in q}
    model.belief_propagation(q)
    model.belief_propagation(q)
    for cl in q:
        if not np.array_equal(before[cl], q[cl].values):
            problems.append('%s: potentials modified in place (clique %s)' % (name, cl))

    # ---- potentials whose Factor domain changes between calls (attribute order, dtype)
    big = [cl for cl in model.cliques if len(cl) >= 2][0]
    r1 = random_potentials(model, prng)
    r2 = CliqueVector({cl: (r1[cl].transpose(cl[::-1]) if cl == big else r1[cl]) for cl in r1})
    r2[big] = Factor(r2[big].domain, np.ascontiguousarray(r2[big].values))
    m1 = model.belief_propagation(r1)
    m2 = model.belief_propagation(r2)
    ref = brute(domain, r1, total)
    for cl in model.cliques:
        v2 = m2[cl].transpose(r1[cl].domain.attrs).values
        if not (close(m1[cl].values, ref[cl]) and close(v2, ref[cl])):
            problems.append('%s: transposed potential gives a different answer on clique %s' % (name, cl))
    record(name + '/transposed', m2)

if problems:
    print('FAIL: %d violation(s) of "BP returns the exact marginals"' % len(problems))
    for line in problems[:12]:
        print('  -', line)
    if len(problems) > 12:
        print('  ... and %d more' % (len(problems) - 12))
    sys.exit(1)
print('PASS', digest.hexdigest())
sys.exit(0)

""" C01 / pair 2 -- nested, repeated and re-ordered cliques handed to the model constructor.

The model is built from a *collection* of cliques that may contain the same clique twice,
the same clique with its attributes named in another order, and cliques nested in others.
One log-potential is attached to every listed clique (folded into the model with the
library's own CliqueVector.combine); exact inference must return the marginals of the
normalised product of ALL of them.

exit 0 + "PASS <digest>"  on the unmodified code and with keep/patch.diff
exit 1 + "FAIL ..."       with break/patch.diff
"""
import os, sys, hashlib, warnings
warnings.filterwarnings('ignore')
ROOT = os.path.dirname(os.path.dirname(os.path.dirname(os.path.dirname(os.path.abspath(__file__)))))
sys.path.insert(0, os.path.join(ROOT, 'src'))
import numpy as np
from mbi import Domain, Factor, GraphicalModel, CliqueVector
import mbi
assert os.path.abspath(mbi.__file__).startswith(ROOT), mbi.__file__

def brute(domain, factors, total):
    """ the full table of total * normalised exp(sum of factors) """
    logp = np.zeros(domain.shape)
    for f in factors:
        logp = logp + f.expand(domain).values
    p = np.exp(logp - logp.max())
    return Factor(domain, p * (total / p.sum()))

CASES = [
    # name, sizes, cliques (exactly as handed to the constructor), total, elimination order
    ('chain',            dict(a=2, b=3, c=4, d=2), [('a','b'), ('b','c'), ('c','d')], 10.0, None),
    ('nested',           dict(a=2, b=3, c=2, d=3), [('a','b','c'), ('b','c'), ('c',), ('c','d'), ('a',)], 1.0, None),
    ('repeated',         dict(a=3, b=2, c=2), [('a','b'), ('a','b'), ('b','c'), ('b','c'), ('a','b')], 7, None),
    ('lists',            dict(a=2, b=2, c=3), [['a','b'], ['b','c'], ['a','b']], 2.5, None),
    ('reordered+super',  dict(a=2, b=3, c=2, d=2), [('a','b'), ('b','a'), ('c','b','a'), ('c','d')], 4.0, None),
    ('reordered',        dict(a=2, b=3, c=2, d=2), [('a','b'), ('b','c'), ('b','a'), ('c','d')], 12.0, None),
    ('reordered-cycle',  dict(a=2, b=2, c=3, d=2, e=2),
                         [('a','b'), ('b','c'), ('c','d'), ('d','e'), ('e','a'), ('c','b'), ('a','e')], 1.0, None),
    ('reordered-triple', dict(a=2, b=2, c=3, d=2), [('a','b','c'), ('c','a','b'), ('c','d'), ('d',)], 3.0,
                         ['d', 'a', 'c', 'b']),
    ('reordered-random', dict(a=2, b=3, c=2, d=2), [('d','c'), ('a','b'), ('c','d'), ('b','c')], 5.0, 3),
]

digest = hashlib.sha256()
problems = []

for name, sizes, cliques, total, order in CASES:
    prng = np.random.RandomState(sum(map(ord, name)))
    np.random.seed(sum(map(ord, name)))                 # randomised elimination orders use np.random
    domain = Domain.fromdict(sizes)
    model = GraphicalModel(domain, cliques, total=total, elimination_order=order)

    # one potential per listed clique, over the attributes in the order the clique names them
    factors = []
    for cl in cliques:
        dom = domain.project(tuple(cl))
        vals = prng.normal(size=dom.shape) * 2.0
        if prng.random() < 0.5:
            vals[(0,) * len(dom)] = -np.inf
        factors.append(Factor(dom, vals))

    # fold them into the parameters of the model the way the library does it itself
    theta = CliqueVector.zeros(domain, model.cliques)
    for cl, f in zip(cliques, factors):
        theta.combine({tuple(cl): f})
    mu = model.belief_propagation(theta)
    model.potentials = theta
    truth = brute(domain, factors, total)

    digest.update(('%s %r %r ' % (name, model.cliques, model.elimination_order)).encode())
    for cl in cliques:
        cl = tuple(cl)
        want = truth.project(cl).values
        home = [m for m in model.cliques if set(cl) <= set(m)]
        if home:
            got = mu[home[0]].project(cl).values
            how = 'inside model clique %s' % (home[0],)
        else:
            got = model.project(cl).values
            how = 'NOT contained in any clique of the model %s' % (model.cliques,)
        digest.update(np.round(got, 12).tobytes())
        if not np.allclose(got, want, rtol=1e-8, atol=1e-10):
            problems.append('%s: marginal of listed clique %s (%s) is off by %.3g'
                            % (name, cl, how, np.max(np.abs(got - want))))
    # all clique marginals of the model itself
    for m in model.cliques:
        if not np.allclose(mu[m].values, truth.project(m).values, rtol=1e-8, atol=1e-10):
            problems.append('%s: marginal of model clique %s differs from the product distribution' % (name, m))

if problems:
    print('FAIL: %d marginal(s) differ from the normalised product of the potentials' % len(problems))
    for line in problems[:12]:
        print('  -', line)
    if len(problems) > 12:
        print('  ... and %d more' % (len(problems) - 12))
    sys.exit(1)
print('PASS', digest.hexdigest())
sys.exit(0)

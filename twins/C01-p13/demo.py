""" C01 / pair 1 -- the marginals must be scaled to the model's CURRENT total.

GraphicalModel.total is a plain public attribute that the library and its tests
re-assign after construction (test_belief_prop: `self.model.total = 10`).  Exact
inference must return the brute-force marginals of the normalised product of the
potentials scaled to whatever positive total the model carries at the time of the call,
whatever calls were made before.
"""
import os, sys, hashlib, pickle
ROOT = os.path.dirname(os.path.dirname(os.path.dirname(os.path.abspath(__file__))))
sys.path.insert(0, os.path.join(ROOT, 'src'))
import numpy as np
from mbi import Domain, Factor, GraphicalModel
import mbi
assert os.path.abspath(mbi.__file__).startswith(ROOT), mbi.__file__


def brute_force(domain, pots, total):
    attrs = domain.attrs
    logp = np.zeros(domain.shape)
    for cl, f in pots.items():
        shape = [domain.config[a] if a in cl else 1 for a in attrs]
        logp = logp + f.values.reshape(shape)      # cliques are in domain order
    p = np.exp(logp - logp.max())
    p = p / p.sum() * total
    return {cl: p.sum(axis=tuple(i for i, a in enumerate(attrs) if a not in cl)) for cl in pots}


def random_pots(model, prng, scale=1.0):
    dom = model.domain
    return {cl: Factor(dom.project(cl), prng.normal(size=dom.project(cl).shape) * scale)
            for cl in model.cliques}


def check(tag, model, pots, failures, digest):
    total = model.total
    mu = model.belief_propagation(pots)
    truth = brute_force(model.domain, pots, total)
    worst = max(float(np.abs(mu[cl].values - truth[cl]).max()) for cl in model.cliques)
    mass = [float(mu[cl].values.sum()) for cl in sorted(model.cliques)]
    ok = worst <= 1e-8 * max(1.0, total)
    print('%-44s total=%-8g clique mass=%-10.6g %s' % (tag, total, mass[0], 'ok' if ok else 'WRONG'))
    if not ok:
        failures.append('%s: marginals sum to %.6g but the model total is %g (max abs error %.3g)'
                        % (tag, mass[0], total, worst))
    for cl in sorted(model.cliques):
        digest.update(repr((tag, cl, np.round(mu[cl].values, 7).tolist())).encode())


def run():
    failures, digest = [], hashlib.sha256()
    prng = np.random.RandomState(901)

    dom = Domain(list('abcd'), (2, 3, 4, 5))
    chain = [('a', 'b'), ('b', 'c'), ('c', 'd')]

    # 1. one call per model, total given to the constructor
    for total in (1.0, 10, 12345.5):
        m = GraphicalModel(dom, chain, total=total)
        check('fresh model, constructor total', m, random_pots(m, prng), failures, digest)

    # 2. total re-assigned BEFORE the first call (what the unit test does)
    m = GraphicalModel(dom, chain)
    m.total = 10
    check('total set before first call', m, random_pots(m, prng), failures, digest)

    # 3. total re-assigned BETWEEN calls on the same model
    m = GraphicalModel(dom, chain, total=1.0)
    pots = random_pots(m, prng)
    check('same model, call 1', m, pots, failures, digest)
    m.total = 250.0
    check('same model, call 2 after total=250', m, pots, failures, digest)
    m.total = 0.5
    check('same model, call 3 after total=0.5', m, random_pots(m, prng, 5.0), failures, digest)
    m.total = 1.0
    check('same model, call 4 back to total=1', m, pots, failures, digest)

    # 4. a cyclic model that is used, pickled, re-loaded and re-scaled
    dom2 = Domain(list('abcde'), (2, 2, 3, 2, 3))
    m = GraphicalModel(dom2, [('a', 'b'), ('b', 'c'), ('c', 'd'), ('d', 'a'), ('d', 'e')], total=40)
    pots = random_pots(m, prng, 3.0)
    check('cyclic model, before pickling', m, pots, failures, digest)
    m2 = pickle.loads(pickle.dumps(m))
    m2.total = 8000
    check('cyclic model, un-pickled, total=8000', m2, pots, failures, digest)
    check('cyclic model, original object again', m, pots, failures, digest)
    return failures, digest.hexdigest()


if __name__ == '__main__':
    failures, dig = run()
    if failures:
        print('FAIL: marginals are not scaled to the total of the model')
        for f in failures:
            print('   ', f)
        sys.exit(1)
    print('PASS', dig)
    sys.exit(0)

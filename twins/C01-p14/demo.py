""" C01 / pair 2 -- the clique tree must be a MAXIMUM-weight spanning tree of the clique graph.

Exact inference is compared with brute-force marginals on structures for which the
(lexicographically sorted) list of maximal cliques is NOT in a running-intersection
order: chains whose attribute names are "out of order", branching trees, cycles that
need fill-in, disconnected models, nested and duplicated cliques.
"""
import os, sys, hashlib
ROOT = os.path.dirname(os.path.dirname(os.path.dirname(os.path.abspath(__file__))))
sys.path.insert(0, os.path.join(ROOT, 'src'))
import numpy as np
import networkx as nx
from mbi import Domain, Factor, GraphicalModel
import mbi
assert os.path.abspath(mbi.__file__).startswith(ROOT), mbi.__file__


def brute_force(domain, pots, total):
    attrs = domain.attrs
    logp = np.zeros(domain.shape)
    for cl, f in pots.items():
        shape = [domain.config[a] if a in cl else 1 for a in attrs]
        logp = logp + f.values.reshape(shape)      # model cliques are in domain order
    p = np.exp(logp - logp.max())
    p = p / p.sum() * total
    return {cl: p.sum(axis=tuple(i for i, a in enumerate(attrs) if a not in cl)) for cl in pots}


def running_intersection(model):
    """ every attribute must induce a connected subtree of the clique tree """
    tree = model.junction_tree.tree
    for a in model.domain.attrs:
        nodes = [c for c in tree.nodes() if a in c]
        if nodes and not nx.is_connected(tree.subgraph(nodes)):
            return a
    return None


CASES = [
    # name, attrs, shape, cliques, elimination order, total
    ('chain in name order',        'abcd',   (2, 3, 4, 5),       ['ab', 'bc', 'cd'], None, 10.0),
    ('chain a-d-c-b',              'abcd',   (2, 3, 4, 5),       ['ad', 'dc', 'cb'], None, 10.0),
    ('chain a-d-c-b, given order', 'abcd',   (3, 2, 2, 3),       ['da', 'cd', 'bc'], list('bcda'), 1.0),
    ('chain a-e-b-d-c',            'abcde',  (2, 2, 3, 2, 3),    ['ae', 'eb', 'bd', 'dc'], None, 50.0),
    ('star on the last attribute', 'abcd',   (2, 3, 2, 3),       ['ad', 'bd', 'cd'], None, 3.0),
    ('branching, 3-cliques',       'abcdef', (2, 2, 2, 2, 2, 2), ['aef', 'bdf', 'cde', 'def'], None, 7.0),
    ('5-cycle, randomised order',  'abcde',  (2, 3, 2, 3, 2),    ['ab', 'bc', 'cd', 'de', 'ea'], 3, 100.0),
    ('two components',             'abcdef', (2, 3, 2, 2, 3, 2), ['af', 'fb', 'ce', 'ed'], None, 20.0),
    ('nested + duplicated',        'abcd',   (2, 2, 3, 2),       ['ad', 'da', 'd', 'dc', 'cb', 'b'], None, 4.0),
]


def run():
    failures, digest = [], hashlib.sha256()
    prng = np.random.RandomState(4242)
    for name, attrs, shape, cliques, order, total in CASES:
        domain = Domain(list(attrs), shape)
        cliques = [tuple(c) for c in cliques]
        np.random.seed(7)                       # the randomised greedy order uses np.random
        model = GraphicalModel(domain, cliques, total=total, elimination_order=order)
        pots = {cl: Factor(domain.project(cl), prng.normal(size=domain.project(cl).shape) * 2.0)
                for cl in model.cliques}
        # one potential with structural zeros and one of very large magnitude
        first = sorted(model.cliques)[0]
        pots[first].values[(0,) * len(first)] = -np.inf
        last = sorted(model.cliques)[-1]
        pots[last].values[...] += 5000.0
        mu = model.belief_propagation(pots)
        truth = brute_force(domain, pots, total)
        worst = 0.0
        for cl in sorted(model.cliques):
            got = mu[cl].values
            worst = max(worst, float(np.abs(got - truth[cl]).max()) if np.all(np.isfinite(got)) else np.inf)
            digest.update(repr((name, cl, (np.round(got, 6) + 0.0).tolist())).encode())
        bad = running_intersection(model)
        ok = worst <= 1e-8 * total and bad is None
        # (the exact rounding error depends on the shape of the tree, so it is not printed)
        print('%-28s cliques=%-2d %s' % (name, len(model.cliques), 'ok' if ok else 'WRONG'))
        if bad is not None:
            failures.append('%s: cliques containing %r are not connected in the clique tree %s'
                            % (name, bad, sorted(model.junction_tree.tree.edges())))
        if worst > 1e-8 * total:
            failures.append('%s: max abs error %.3g against brute force' % (name, worst))
    return failures, digest.hexdigest()


if __name__ == '__main__':
    failures, dig = run()
    if failures:
        print('FAIL: exact inference disagrees with the brute-force marginals')
        for f in failures:
            print('   ', f)
        sys.exit(1)
    print('PASS', dig)
    sys.exit(0)
